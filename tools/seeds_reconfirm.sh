#!/bin/bash
# usage: tools/seeds_reconfirm.sh [jobs]  -- re-confirms every stored seed in place against the current /repo and the current checks
# (the checks named in its existing confirmation record), then regenerates seeded/README.md
cd /verif
J=${1:-4}
ls -d seeded/C*-* | while read d; do
  checks=$(python3 -c "import json; print(' '.join(json.load(open('$d/meta.json'))['confirmation']['checks'].keys()))")
  echo "$d $(basename $d) $checks"
done | xargs -P $J -L 1 bash -c 'tools/seed_save.py $0 $1 ${@:2} > /tmp/seedlog/re-$1.log 2>&1; echo "$1: $(grep -h caught_by /tmp/seedlog/re-$1.log)"'
tools/make_seeded_readme.py
