#!/usr/bin/env python3
"""usage: tools/mark_fixed.py <finding id> <commit> -- move an open finding of known_findings.json to a 'fixed:' line
(the repaired defect no longer suppresses anything; if it returns the check reports a VIOLATION)."""
import json, sys
fid, commit = sys.argv[1], sys.argv[2]
p = '/verif/known_findings.json'
d = json.load(open(p))
hit = [e for e in d['findings'] if e['id'] == fid]
assert len(hit) == 1, fid
e = hit[0]
d['findings'] = [x for x in d['findings'] if x['id'] != fid]
d['fixed'].append(f"fixed: property={e['property']} {commit} {e['what']}")
json.dump(d, open(p, 'w'), indent=1)
print('moved', fid)
