#!/bin/bash
# usage: tools/run_all.sh <seed> [tier]  -- runs every check listed in tools/ready.txt, prints rc and summary line
SEED=${1:-0}; TIER=${2:-quick}
cd /verif
for p in $(cat tools/ready.txt); do
  out=$(VERIF_SEED=$SEED /venv/bin/python -m sfmon check $p --tier $TIER 2>&1); rc=$?
  echo "rc=$rc $(echo "$out" | grep '^\[' | tail -1 | cut -c1-170)"
  if [ $rc -ne 0 ]; then echo "$out" | grep -v '^KNOWN' | grep -v '^\[' | head -5 | cut -c1-300; fi
done
