#!/bin/bash
# usage: tools/mutants_all.sh [Cxx ...]  -- self-test: every sfmon/mutants/<Cxx>/*.diff applied to a scratch copy must make check <Cxx> exit 1
cd /verif
props=${@:-$(ls sfmon/mutants)}
for p in $props; do
  for d in sfmon/mutants/$p/*.diff; do
    r=$(tools/mutant_test.sh "$d" "$p" 2>&1 | tail -1 | cut -c1-120)
    echo "$p $(basename $d): $r"
  done
done
