#!/bin/bash
# usage: tools/seed_eval.sh <seed dir with patch.diff demo.py> <Cxx> [Cxx...]
# confirms the demo (passes unchanged, fails changed) on a scratch copy and runs the given checks (quick) against the changed copy.
set -u
D=$(realpath "$1"); shift
SCR=$(mktemp -d /tmp/sfseed.XXXXXX)
rsync -a --exclude .git --exclude .hypothesis --exclude __pycache__ /repo/ "$SCR/repo/"
(cd "$SCR/repo" && PYTHONPATH="$SCR/repo" timeout 300 /venv/bin/python "$D/demo.py" >/dev/null 2>&1); echo "demo unchanged exit=$?"
if ! (cd "$SCR/repo" && patch -p1 -s < "$D/patch.diff"); then echo "PATCH FAILED"; rm -rf "$SCR"; exit 3; fi
(cd "$SCR/repo" && PYTHONPATH="$SCR/repo" timeout 300 /venv/bin/python "$D/demo.py" >/dev/null 2>&1); echo "demo changed exit=$?"
for pid in "$@"; do
  out=$(cd /verif && SF_REPO="$SCR/repo" SFMON_OUT="$SCR" /venv/bin/python -m sfmon check "$pid" --tier quick 2>&1)
  rc=$?
  echo "$pid rc=$rc violations=$(echo "$out" | grep -c '^VIOLATION'); $(echo "$out" | grep '^\[' | tail -1 | cut -c1-140)"
done
rm -rf "$SCR"
