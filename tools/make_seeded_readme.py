#!/usr/bin/env python3
"""Regenerates seeded/README.md from seeded/*/meta.json (written by tools/seed_save.py)."""
import glob, json, os
rows = []
for d in sorted(glob.glob('/verif/seeded/C*-*')):
    m = json.load(open(os.path.join(d, 'meta.json')))
    c = m['confirmation']
    kinds = sorted({w for r in c['checks'].values() for s in r.values() for w in s['whats']})
    own = m['property']
    own_ok = own in c['caught_by']
    rows.append((os.path.basename(d), own, m['summary'].split('. ')[0][:230], ', '.join(c['caught_by']) or 'NONE',
                 ', '.join(k for k in kinds)[:160], c['demo_unchanged_exit'], c['demo_changed_exit'], c['repo_head'], own_ok))
out = ['# Seeded regressions', '',
       'Each directory holds a change to static-frame written by an independent sub-agent that saw only the text of one property',
       '(brief: `SEEDER_BRIEF.md`) and its own scratch git worktree: `patch.diff`, `demo.py` (exit 0 = property holds) and `meta.json`',
       '(the seeder\'s description plus the `confirmation` record written by `tools/seed_save.py`: demo exit codes before / after the',
       'patch on a scratch copy of /repo, and the result of the named checks, quick tier, VERIF_SEED 0 and 1, against the patched copy).',
       'Nothing here is ever applied to /repo. "caught by" lists the checks that exited 1 with VIOLATION lines on both seeds.', '',
       '| seed | property | change (first sentence of the seeder\'s summary) | caught by | violation kinds reported | demo before/after |',
       '|---|---|---|---|---|---|']
for r in rows:
    out.append(f'| {r[0]} | {r[1]} | {r[2]} | {r[3]} | {r[4]} | {r[5]}/{r[6]} |')
out += ['', f'{len(rows)} seeds; {sum(1 for r in rows if r[8])} reported by the check of the property they were written against; '
        f'{sum(1 for r in rows if r[3] != "NONE")} reported by at least one check.', '']
open('/verif/seeded/README.md', 'w').write('\n'.join(out))
print(out[-2])
