#!/bin/bash
# usage: tools/mutant_test.sh <patch.diff> <Cxx> [Cxx...]   -- applies the patch to a scratch copy of /repo and
# runs the quick tier of the given checks against it; prints the exit code of each (1 = caught).
set -u
DIFF=$(realpath "$1"); shift
SCR=$(mktemp -d /tmp/sfmut.XXXXXX)
rsync -a --exclude .git --exclude .hypothesis --exclude __pycache__ /repo/ "$SCR/repo/"
if ! (cd "$SCR/repo" && patch -p1 -s < "$DIFF"); then echo "PATCH FAILED"; rm -rf "$SCR"; exit 3; fi
for pid in "$@"; do
  out=$(cd /verif && SF_REPO="$SCR/repo" SFMON_OUT="$SCR" /venv/bin/python -m sfmon check "$pid" --tier quick 2>&1)
  rc=$?
  echo "$pid rc=$rc $(echo "$out" | grep -c '^VIOLATION') violation lines; $(echo "$out" | tail -1 | cut -c1-160)"
done
rm -rf "$SCR"
