#!/venv/bin/python
"""usage: tools/seed_save.py <seed dir with patch.diff demo.py meta.json> <name under /verif/seeded> <Cxx> [Cxx...]

Confirms a seeded regression on a scratch copy of /repo's working tree (demo passes unchanged, fails changed),
runs the named checks (quick tier, seeds 0 and 1) against the changed copy via SF_REPO, and stores
patch.diff, demo.py and meta.json (the seeder's meta plus a "confirmation" record) under /verif/seeded/<name>/.
Nothing is ever applied to /repo itself; the scratch copy is removed afterwards.
"""
import json, os, shutil, subprocess, sys, tempfile, re

VERIF = os.path.dirname(os.path.dirname(os.path.abspath(__file__)))
PY = '/venv/bin/python'


def run(cmd, cwd, env=None, timeout=1800):
    e = dict(os.environ)
    e.update(env or {})
    try:
        p = subprocess.run(cmd, cwd=cwd, env=e, capture_output=True, text=True, timeout=timeout)
        return p.returncode, p.stdout + p.stderr
    except subprocess.TimeoutExpired:
        return 124, 'timeout'


def main():
    src, name, checks = os.path.realpath(sys.argv[1]), sys.argv[2], sys.argv[3:]
    tier = os.environ.get('SEED_TIER', 'quick')
    scr = tempfile.mkdtemp(prefix='sfseed.', dir='/tmp')
    tree = os.path.join(scr, 'repo')
    try:
        subprocess.run(['rsync', '-a', '--exclude', '.git', '--exclude', '.hypothesis', '--exclude', '__pycache__', '/repo/', tree + '/'], check=True)
        rc0, _ = run([PY, os.path.join(src, 'demo.py')], tree, {'PYTHONPATH': tree}, 600)
        p = subprocess.run(['patch', '-p1', '-s', '-i', os.path.join(src, 'patch.diff')], cwd=tree, capture_output=True, text=True)
        if p.returncode != 0:
            print('PATCH FAILED', p.stdout, p.stderr)
            return 3
        rc1, demo_out = run([PY, os.path.join(src, 'demo.py')], tree, {'PYTHONPATH': tree}, 600)
        print(f'demo unchanged exit={rc0} changed exit={rc1}')
        results = {}
        for pid in checks:
            for seed in ('0', '1'):
                rc, out = run([PY, '-m', 'sfmon', 'check', pid, '--tier', tier], VERIF,
                        {'SF_REPO': tree, 'SFMON_OUT': scr, 'VERIF_SEED': seed, 'PYTHONHASHSEED': '0'})
                viol = [l for l in out.splitlines() if l.startswith('VIOLATION')]
                whats = set()
                for l in viol:
                    m = re.search(r'replay=(\S+)', l)
                    try:
                        with open(m.group(1) if os.path.isabs(m.group(1)) else os.path.join(VERIF, m.group(1))) as f:
                            whats.add(json.load(f).get('what'))
                    except Exception:
                        pass
                whats = sorted(w for w in whats if w)
                results.setdefault(pid, {})[f'seed{seed}'] = {'exit': rc, 'violation_lines': len(viol), 'whats': whats[:12]}
                print(f'{pid} seed={seed} rc={rc} violations={len(viol)} {whats[:6]}')
        caught = sorted(pid for pid, r in results.items() if all(v['exit'] == 1 and v['violation_lines'] > 0 for v in r.values()))
        dst = os.path.join(VERIF, 'seeded', name)
        os.makedirs(dst, exist_ok=True)
        if os.path.realpath(src) != os.path.realpath(dst):  # re-confirmation of a stored seed works in place
            shutil.copy(os.path.join(src, 'patch.diff'), dst)
            shutil.copy(os.path.join(src, 'demo.py'), dst)
        meta = {}
        mp = os.path.join(src, 'meta.json')
        if os.path.exists(mp):
            with open(mp) as f:
                meta = json.load(f)
            meta.pop('confirmation', None)
        head = subprocess.run(['git', '-C', '/repo', 'rev-parse', '--short', 'HEAD'], capture_output=True, text=True).stdout.strip()
        meta['confirmation'] = {
            'how': 'tools/seed_save.py: rsync copy of /repo working tree, demo.py run before/after `patch -p1 < patch.diff`, then `SF_REPO=<copy> VERIF_SEED={0,1} python -m sfmon check <id> --tier %s` for each listed check' % tier,
            'repo_head': head,
            'demo_unchanged_exit': rc0,
            'demo_changed_exit': rc1,
            'checks': results,
            'caught_by': caught,
        }
        with open(os.path.join(dst, 'meta.json'), 'w') as f:
            json.dump(meta, f, indent=1)
        print('caught_by', caught)
        return 0 if (rc0 == 0 and rc1 != 0) else 4
    finally:
        shutil.rmtree(scr, ignore_errors=True)


if __name__ == '__main__':
    sys.exit(main())
