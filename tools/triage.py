#!/venv/bin/python
"""Group the witness files under replays/ for one property by (what, salient klass)."""
import collections, glob, json, sys
pid = sys.argv[1]
keys = sys.argv[2].split(',') if len(sys.argv) > 2 else None
groups = collections.defaultdict(list)
for p in glob.glob(f'/verif/replays/{pid}-*.json'):
    w = json.load(open(p))
    k = w['klass']
    sig = (w['what'],) + tuple((kk, str(k.get(kk))) for kk in (keys or sorted(k)))
    groups[sig].append((p, w))
for sig, ws in sorted(groups.items(), key=lambda kv: -len(kv[1])):
    print(len(ws), sig)
    p, w = ws[0]
    print('    ', p)
    print('    detail:', json.dumps(w['detail'])[:700])
    print('    case:', w['case_repr'][:700])
