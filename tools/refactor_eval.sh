#!/bin/bash
# usage: tools/refactor_eval.sh <patch.diff> [seed]  -- applies a behaviour-preserving change to a scratch copy of /repo and runs
# every check (quick tier) against it: any exit code other than 0 is a false alarm (or shows that the change is not behaviour-preserving)
set -u
DIFF=$(realpath "$1"); SEED=${2:-0}
SCR=$(mktemp -d /tmp/sfref.XXXXXX)
rsync -a --exclude .git --exclude .hypothesis --exclude __pycache__ /repo/ "$SCR/repo/"
if ! (cd "$SCR/repo" && patch -p1 -s < "$DIFF"); then echo "PATCH FAILED"; rm -rf "$SCR"; exit 3; fi
bad=0
for pid in $(cat /verif/tools/ready.txt); do
  out=$(cd /verif && SF_REPO="$SCR/repo" SFMON_OUT="$SCR" VERIF_SEED=$SEED /venv/bin/python -m sfmon check "$pid" --tier quick 2>&1)
  rc=$?
  if [ $rc -ne 0 ]; then bad=1; echo "$pid rc=$rc $(echo "$out" | grep -c '^VIOLATION') violation lines"; echo "$out" | grep -v '^KNOWN' | tail -4 | cut -c1-300; for r in $(echo "$out" | grep -o 'replay=[^ ]*' | head -2 | cut -d= -f2); do python3 -c "
import json,sys; w=json.load(open('$r')); print('   WITNESS', w['what'], json.dumps(w['klass'])[:300]); print('   ', json.dumps(w['detail'])[:500])"; done; fi
done
[ $bad -eq 0 ] && echo "all 20 checks exit 0"
rm -rf "$SCR"
