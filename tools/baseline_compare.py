#!/venv/bin/python
"""Compare a junit xml produced by the repository's baseline test command with
BASELINE.json's stable_pass list: prints every stable_pass test that did not pass."""
import json, sys, xml.etree.ElementTree as ET
junit = sys.argv[1]
subset = '--subset' in sys.argv  # only judge stable_pass tests that the junit file reports
base = json.load(open('/root/.vp/BASELINE.json'))
stable = set(base['stable_pass'])
res = {}
for tc in ET.parse(junit).getroot().iter('testcase'):
    name = f"{tc.get('classname')}::{tc.get('name')}"
    bad = [c.tag for c in tc if c.tag in ('failure', 'error', 'skipped')]
    res[name] = bad[0] if bad else 'pass'
missing = sorted(n for n in stable if res.get(n) != 'pass' and (not subset or n in res))
print(f"stable_pass={len(stable)} reported={len(res)} passed={sum(v=='pass' for v in res.values())}")
for n in missing:
    print('NOT-PASS', n, res.get(n, 'absent'))
sys.exit(1 if missing else 0)
