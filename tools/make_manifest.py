#!/venv/bin/python
"""Regenerate MANIFEST.json from the monitors present under sfmon/monitors."""
import importlib, json, os, subprocess, sys
sys.path.insert(0, '/verif')
from sfmon.runner import MONITORS, VERIF

PY = '/venv/bin/python'
props = {json.loads(l)['id']: json.loads(l) for l in open(os.path.join(VERIF, 'properties.jsonl'))}
READY = set(open(os.path.join(VERIF, 'tools', 'ready.txt')).read().split())
checks, na = [], []
for pid in sorted(props):
    path = os.path.join(VERIF, 'sfmon', 'monitors', MONITORS[pid] + '.py')
    if not os.path.exists(path) or pid not in READY:
        na.append({'property_id': pid, 'reason': 'monitor not built yet in this session (planned in DESIGN.md section 5); not claimed'})
        continue
    mod = importlib.import_module(f'sfmon.monitors.{MONITORS[pid]}')
    checks.append({
        'property_id': pid,
        'quick_cmd': f'{PY} -m sfmon check {pid} --tier quick',
        'thorough_cmd': f'{PY} -m sfmon check {pid} --tier thorough',
        'evidence_file': f'evidence/{pid}.json',
        'replay_cmd_template': f'{PY} -m sfmon replay {{path}}',
        'engine': 'sfmon',
        'level_claimed': {
            'category': 'exploration',
            'text': getattr(mod, 'LEVEL_TEXT', 'Runtime monitoring: the real library is executed on generated and enumerated workloads and every outcome is '
                    'judged by a reference-model oracle written from the property statement; the verdict is "held on the executions observed" '
                    '(counts, anchor functions entered and workload classes are in the evidence file).'),
            'design_ref': f'DESIGN.md section 5, {pid}',
        },
        'level_note': getattr(mod, 'LEVEL_NOTE', 'Trusted base: CPython, NumPy scalar semantics used by the reference model, the sfmon generators and oracle. '
                      'Covers only executions produced; sizes are small (see DESIGN.md section 9).'),
        'technique': getattr(mod, 'TECHNIQUE', 'runtime monitoring: reference-model oracle over generated workloads'),
    })
fix_commits = subprocess.run(['git', '-C', '/repo', 'log', '--format=%h %s'], capture_output=True, text=True).stdout.splitlines()
manifest = {
    'version': 1,
    'setup_cmd': f'{PY} -m sfmon doctor',
    'hooks': {
        'guard': 'STATIC_FRAME_VERIF',
        'enable': 'no source hooks: sfmon.instrument wraps methods of the imported classes and registers sys.monitoring PY_START counters from outside when STATIC_FRAME_VERIF=1 (set by the runner for its child processes); /repo is imported from its working tree (pure Python, no build)',
        'baseline_off_cmd': 'cd /repo && env -u STATIC_FRAME_VERIF /venv/bin/python -m pytest -ra -q -p no:cacheprovider --timeout=900 --continue-on-collection-errors --junitxml=/tmp/sf_baseline.junit.xml; /venv/bin/python /verif/tools/baseline_compare.py /tmp/sf_baseline.junit.xml',
        'source_commits': [],
        'add_only': True,
    },
    'engines': [{'name': 'sfmon', 'path': 'sfmon', 'serves_properties': [c['property_id'] for c in checks],
                 'kind_free_text': 'pure-Python runtime monitors: seeded/enumerated workload generators, reference models, hook invariants, history checkers; shards run as subprocesses'}],
    'checks': checks,
    'not_applicable': na,
    'notes': 'Exit 0 held / 1 VIOLATION / 2 inconclusive. known_findings.json lists genuine defects recorded rather than repaired (mechanism-keyed predicates in sfmon/findings.py) and the fix: commits made in /repo.',
}
json.dump(manifest, open(os.path.join(VERIF, 'MANIFEST.json'), 'w'), indent=1)
print('checks', len(checks), 'not_applicable', len(na))
