import sys
from sfmon.runner import main
sys.exit(main())
