"""sfmon runner: shards a property's workload over subprocesses, merges what the monitors
observed, classifies violations against known_findings.json, writes evidence/<id>.json.

Exit codes: 0 held on everything explored (KNOWN-FINDING lines possible) · 1 violation
(VIOLATION property=<id> replay=<path>) · 2 inconclusive (monitor never evaluated, required
anchor never reached, harness error, watchdog).
"""
import argparse
import base64
import importlib
import json
import os
import pickle
import random
import subprocess
import sys
import tempfile
import time
import traceback
from collections import Counter

VERIF = os.path.dirname(os.path.dirname(os.path.abspath(__file__)))
GUARD = 'STATIC_FRAME_VERIF'

MONITORS = {
    'C01': 'c01_immutability', 'C02': 'c02_index_bijection', 'C03': 'c03_block_transparency',
    'C04': 'c04_selection', 'C05': 'c05_hierarchy', 'C06': 'c06_alignment',
    'C07': 'c07_coercion', 'C08': 'c08_functional_update', 'C09': 'c09_grow_only',
    'C10': 'c10_equals_hash', 'C11': 'c11_concat_overlay', 'C12': 'c12_sorting',
    'C13': 'c13_group_window', 'C14': 'c14_missing', 'C15': 'c15_reductions',
    'C16': 'c16_roundtrip', 'C17': 'c17_bus_store', 'C18': 'c18_parallel',
    'C19': 'c19_quilt_batch', 'C20': 'c20_relational',
}


def repo_root():
    return os.path.realpath(os.environ.get('SF_REPO', '/repo'))


def load_monitor(pid):
    return importlib.import_module(f'sfmon.monitors.{MONITORS[pid]}')


class HarnessError(Exception):
    pass


class Ctx:
    """What a monitor sees while it runs one shard (or a replay)."""

    MAX_SAMPLES = 6
    MAX_WITNESSES = 40

    def __init__(self, pid, tier, seed, shard, nshards, budget_s):
        self.pid, self.tier, self.seed, self.shard, self.nshards = pid, tier, seed, shard, nshards
        self.rng = random.Random(f'{seed}:{pid}:{shard}')
        self.t0 = time.monotonic()
        self.deadline = self.t0 + budget_s
        self.evaluations = 0
        self.nontrivial = set()
        self.counters = {}
        self.samples = []
        self.violations = []
        self.violation_total = 0
        self._witness_keys = set()
        self.harness_errors = []
        self.current_case = None
        self.current_is_probe = False
        self.cases = 0

    # -- recording -------------------------------------------------------------------
    def evaluation(self, fingerprint, nontrivial=True):
        """One oracle evaluation; `fingerprint` identifies the distinct case."""
        self.evaluations += 1
        if nontrivial:
            from sfmon.canon import fp
            self.nontrivial.add(fingerprint if isinstance(fingerprint, str) and len(fingerprint) == 16 else fp(fingerprint))

    def tally(self, category, key, n=1):
        c = self.counters.setdefault(category, Counter())
        c[str(key)] += n

    def sample(self, obj):
        if len(self.samples) < self.MAX_SAMPLES:
            from sfmon.canon import brief
            self.samples.append(obj if isinstance(obj, (dict, list, str, int, float)) else brief(obj))

    def violation(self, what, detail=None, klass=None, case=None):
        """Record a refuting observation. `klass` describes the *input class* (used by the
        known-finding predicates); `detail` what was expected/observed."""
        self.violation_total += 1
        self.tally('violations_by_what', what)
        key = (what, repr(sorted((klass or {}).items(), key=lambda kv: kv[0])))
        if len(self.violations) >= self.MAX_WITNESSES and not self.current_is_probe:
            # keep at most one witness per distinct (what, klass) beyond the cap
            if key in self._witness_keys:
                return
        self._witness_keys.add(key)
        c = self.current_case if case is None else case
        from sfmon.canon import brief
        self.violations.append({
            'property': self.pid, 'what': what, 'detail': _jsonable(detail or {}),
            'klass': _jsonable(klass or {}), 'case_repr': brief(c, 2000),
            'case_b64': base64.b64encode(pickle.dumps(c, protocol=4)).decode('ascii'),
            'probe': self.current_is_probe,
        })

    def expired(self):
        return time.monotonic() > self.deadline

    def n(self, quick, thorough):
        """Case count for this shard: totals are per tier, divided over shards."""
        total = quick if self.tier == 'quick' else thorough
        return max(1, -(-total // self.nshards))


def _jsonable(x):
    if isinstance(x, dict):
        return {str(k): _jsonable(v) for k, v in x.items()}
    if isinstance(x, (list, tuple, set, frozenset)):
        return [_jsonable(v) for v in x]
    if isinstance(x, (str, int, bool)) or x is None:
        return x
    if isinstance(x, float):
        return x if x == x and x not in (float('inf'), float('-inf')) else repr(x)
    from sfmon.canon import brief
    return brief(x, 600)


# --------------------------------------------------------------------------------------
# one shard (child process)

def _in_library(tb):
    """True when the innermost frame of a traceback is outside sfmon (library / numpy)."""
    last = traceback.extract_tb(tb)[-1]
    return os.sep + 'sfmon' + os.sep not in last.filename


def run_cases(mod, ctx, cases, probe=False):
    trace = os.environ.get('SFMON_TRACE_CASES')  # debugging aid: the case about to run, for post-mortem of a dying shard
    for case in cases:
        if trace:
            with open(trace, 'w') as f:
                f.write(repr(case))
        ctx.current_case = case
        ctx.current_is_probe = probe
        ctx.cases += 1
        try:
            mod.check(case, ctx)
        except HarnessError as e:
            ctx.harness_errors.append(f'{e}')
        except Exception as e:  # noqa
            tb = traceback.format_exc()
            if _in_library(e.__traceback__):
                ctx.violation('unexpected_exception', detail={'exception': type(e).__name__, 'message': str(e)[:300],
                                                               'traceback_tail': tb[-1500:]},
                              klass={'exception': type(e).__name__, 'stage': 'uncaught'})
            else:
                ctx.harness_errors.append(tb[-2500:])
        if not probe and ctx.expired():
            ctx.tally('budget', 'expired')
            break


def shard_main(args):
    root = repo_root()
    import static_frame
    sf_file = os.path.realpath(static_frame.__file__)
    out = {'ok': False}
    if not sf_file.startswith(root + os.sep):
        out['inconclusive'] = f'static_frame imported from {sf_file}, not under {root}'
        json.dump(out, open(args.out, 'w'))
        return 2
    from sfmon import instrument
    mod = load_monitor(args.property)
    ctx = Ctx(args.property, args.tier, args.seed, args.shard, args.nshards, args.budget)
    instrument.start(mod, ctx)
    try:
        if args.shard == 0 and hasattr(mod, 'probes'):
            run_cases(mod, ctx, mod.probes(ctx), probe=True)
        if args.replay_case is not None:
            run_cases(mod, ctx, [args.replay_case])
        else:
            run_cases(mod, ctx, mod.generate(ctx))
    finally:
        anchors, hooks = instrument.stop()
    out = {
        'ok': True, 'shard': args.shard, 'evaluations': ctx.evaluations, 'cases': ctx.cases,
        'nontrivial': sorted(ctx.nontrivial), 'counters': {k: dict(v) for k, v in ctx.counters.items()},
        'samples': ctx.samples, 'violations': ctx.violations, 'violation_total': ctx.violation_total,
        'harness_errors': ctx.harness_errors[:5], 'harness_error_total': len(ctx.harness_errors),
        'anchors': anchors, 'hooks': hooks, 'wall_s': time.monotonic() - ctx.t0,
    }
    with open(args.out, 'w') as f:
        json.dump(out, f)
    return 0


# --------------------------------------------------------------------------------------
# parent: run shards, merge, classify, write evidence

def child_env():
    env = dict(os.environ)
    env['PYTHONPATH'] = os.pathsep.join([repo_root(), VERIF])
    env['PYTHONHASHSEED'] = '0'
    env['PYTHONDONTWRITEBYTECODE'] = '1'
    env[GUARD] = '1'
    env.setdefault('OMP_NUM_THREADS', '1')
    env.setdefault('OPENBLAS_NUM_THREADS', '1')
    return env


def run_shards(pid, tier, seed, nshards, budget, timeout, replay_file=None):
    tmp = tempfile.mkdtemp(prefix=f'sfmon-{pid}-')
    procs = []
    for i in range(nshards):
        out = os.path.join(tmp, f'shard{i}.json')
        cmd = [sys.executable, '-X', 'faulthandler', '-W', 'ignore', '-m', 'sfmon', 'shard', pid,
               '--tier', tier, '--seed', str(seed), '--shard', str(i), '--nshards', str(nshards),
               '--budget', str(budget), '--out', out]
        if replay_file:
            cmd += ['--replay-file', replay_file]
        log = open(os.path.join(tmp, f'shard{i}.log'), 'w')
        procs.append((i, out, log, subprocess.Popen(cmd, env=child_env(), cwd=VERIF, stdout=log, stderr=subprocess.STDOUT)))
    results, problems = [], []
    t_end = time.monotonic() + timeout
    for i, out, log, p in procs:
        try:
            rc = p.wait(timeout=max(1.0, t_end - time.monotonic()))
        except subprocess.TimeoutExpired:
            p.kill()
            p.wait()
            problems.append(f'shard {i}: watchdog fired after {timeout}s')
            continue
        finally:
            log.close()
        if os.path.exists(out):
            r = json.load(open(out))
            if r.get('ok'):
                results.append(r)
            else:
                problems.append(f"shard {i}: {r.get('inconclusive')}")
        else:
            tail = open(os.path.join(tmp, f'shard{i}.log')).read()[-1500:]
            problems.append(f'shard {i}: exit {rc} without result; log tail: {tail}')
    import shutil
    shutil.rmtree(tmp, ignore_errors=True)
    return results, problems


def load_known():
    # one committed file; only entries with status 'open' can classify a witness ('fixed' lines suppress nothing)
    path = os.path.join(VERIF, 'known_findings.json')
    with open(path) as f:
        return json.load(f)['findings']


def classify(w, known):
    from sfmon import findings
    for k in known:
        if k.get('status', 'open') != 'open' or k['property'] != w['property']:
            continue
        pred = findings.PREDICATES.get(k['predicate'])
        if pred is not None and pred(w, **k.get('params', {})):
            return k
    return None


def check_main(args):
    pid, tier = args.property, args.tier
    seed = int(os.environ.get('VERIF_SEED', args.seed))
    mod = load_monitor(pid)
    conf = dict(getattr(mod, 'TIERS', {}).get(tier, {}))
    nshards = args.shards or conf.get('shards', 8 if tier == 'quick' else 16)
    budget = conf.get('budget_s', 90 if tier == 'quick' else 900)
    timeout = conf.get('timeout_s', budget * 3 + 120)
    t0 = time.monotonic()
    results, problems = run_shards(pid, tier, seed, nshards, budget, timeout)
    known = load_known()

    evaluations = sum(r['evaluations'] for r in results)
    nontrivial = set()
    counters, anchors, hooks = {}, Counter(), Counter()
    samples, harness = [], []
    violations = []
    vtotal = 0
    for r in results:
        nontrivial.update(r['nontrivial'])
        for cat, c in r['counters'].items():
            counters.setdefault(cat, Counter()).update(c)
        anchors.update(r['anchors'])
        hooks.update(r['hooks'])
        for s in r['samples']:
            if len(samples) < 8:
                samples.append(s)
        violations.extend(r['violations'])
        vtotal += r['violation_total']
        harness.extend(r['harness_errors'])
        if r['harness_error_total']:
            problems.append(f"shard {r['shard']}: {r['harness_error_total']} harness error(s)")

    # classify
    known_hit, new = {}, []
    for w in violations:
        k = classify(w, known)
        if k is None:
            new.append(w)
        else:
            known_hit.setdefault(k['id'], {'entry': k, 'n': 0, 'example': w['detail']})['n'] += 1
    # SFMON_OUT redirects evidence/ and replays/ (used when a check is pointed at a scratch copy via SF_REPO,
    # so that runs against deliberately broken trees never overwrite the evidence of /repo itself)
    OUT = os.environ.get('SFMON_OUT') or VERIF
    os.makedirs(os.path.join(OUT, 'replays'), exist_ok=True)
    import glob
    for old_path in glob.glob(os.path.join(OUT, 'replays', f'{pid}-*.json')):
        os.remove(old_path)
    from sfmon.canon import fp
    printed = set()
    replay_paths = []
    for w in new:
        key = fp((w['what'], w['klass'], w['case_repr']))
        if key in printed:
            continue
        printed.add(key)
        path = os.path.join(OUT, 'replays', f'{pid}-{key}.json')
        with open(path, 'w') as f:
            json.dump(w, f, indent=1)
        replay_paths.append(path)

    required = list(getattr(mod, 'REQUIRED_ANCHORS', ()))
    missing = [a for a in required if anchors.get(a, 0) == 0]
    if missing:
        problems.append('required anchors never entered: ' + ', '.join(missing))
    for h in getattr(mod, 'REQUIRED_HOOKS', ()):
        if hooks.get(h, 0) == 0:
            problems.append(f'required hook never evaluated: {h}')
    for cat, key in getattr(mod, 'REQUIRED_TALLIES', ()):
        if counters.get(cat, {}).get(key, 0) == 0:
            problems.append(f'required workload class never produced: {cat}/{key}')
    min_nt = conf.get('min_nontrivial', 2)
    if len(nontrivial) < min_nt:
        problems.append(f'only {len(nontrivial)} distinct non-trivial cases (< {min_nt})')

    wall = time.monotonic() - t0
    ev = {
        'property_id': pid, 'tier': tier, 'seed': seed, 'level': 'exploration',
        'coverage': {
            'evaluations': evaluations, 'distinct_nontrivial': len(nontrivial),
            'rule': getattr(mod, 'RULE', ''), 'samples': samples or ['(none)'],
            'exhaustive': bool(getattr(mod, 'EXHAUSTIVE', {}).get(tier, False)),
            'explanation': getattr(mod, 'EXPLANATION', ''),
            'shards': len(results), 'cases': sum(r['cases'] for r in results),
            'breakdown': {k: dict(sorted(v.items(), key=lambda kv: -kv[1])[:60]) for k, v in counters.items()},
            'anchors_reached': dict(anchors), 'hook_evaluations': dict(hooks),
            'known_findings_hit': {k: v['n'] for k, v in known_hit.items()},
            'violation_observations': vtotal, 'inconclusive_reasons': problems,
        },
        'assumptions': list(getattr(mod, 'ASSUMPTIONS', ())),
        'wall_s': round(wall, 2), 'violations': len(replay_paths),
    }
    os.makedirs(os.path.join(OUT, 'evidence'), exist_ok=True)
    with open(os.path.join(OUT, 'evidence', f'{pid}.json'), 'w') as f:
        json.dump(ev, f, indent=1, default=str)

    for kid, v in sorted(known_hit.items()):
        print(f"KNOWN-FINDING: property={pid} {kid}: {v['entry']['what']} ({v['n']} witness(es) this run)")
    for path in replay_paths[:20]:
        print(f'VIOLATION property={pid} replay={path}')
    if len(replay_paths) > 20:
        print(f'... {len(replay_paths) - 20} further distinct witnesses written under replays/')
    print(f'[{pid} {tier} seed={seed}] evaluations={evaluations} distinct_nontrivial={len(nontrivial)} '
          f'shards={len(results)}/{nshards} anchors={sum(1 for a in anchors.values() if a)} '
          f'known={sum(v["n"] for v in known_hit.values())} new={len(replay_paths)} wall={wall:.1f}s')
    for p in problems:
        print('INCONCLUSIVE:', p[:3000])
    for h in harness[:3]:
        print('HARNESS-ERROR:', h)
    if replay_paths:
        return 1
    if problems:
        return 2
    return 0


def replay_main(args):
    w = json.load(open(args.path))
    pid = w['property']
    results, problems = run_shards(pid, 'quick', 0, 1, 600, 900, replay_file=os.path.abspath(args.path))
    known = load_known()
    new = 0
    for r in results:
        for v in r['violations']:
            if v.get('probe'):
                continue
            k = classify(v, known)
            tag = f"known:{k['id']}" if k else 'VIOLATION'
            if not k:
                new += 1
            print(f"{tag} property={pid} what={v['what']} detail={json.dumps(v['detail'])[:1500]}")
    for p in problems:
        print('INCONCLUSIVE:', p)
    if new:
        print(f'VIOLATION property={pid} replay={args.path}')
        return 1
    print('replay: no (new) violation reproduced')
    return 2 if problems else 0


def doctor_main(args):
    env = child_env()
    code = ("import os,static_frame,numpy,sys;"
            "print('static_frame',static_frame.__version__,os.path.realpath(static_frame.__file__));"
            "print('numpy',numpy.__version__,'python',sys.version.split()[0]);"
            "import sfmon.runner as r;[r.load_monitor(p) for p in r.MONITORS if os.path.exists(os.path.join(r.VERIF,'sfmon','monitors',r.MONITORS[p]+'.py'))]")
    return subprocess.run([sys.executable, '-c', code], env=env, cwd=VERIF).returncode


def all_main(args):
    rcs = {}
    for pid in MONITORS:
        if not os.path.exists(os.path.join(VERIF, 'sfmon', 'monitors', MONITORS[pid] + '.py')):
            continue
        args.property = pid
        rcs[pid] = check_main(args)
    print(rcs)
    return max(rcs.values()) if rcs else 0


def main(argv=None):
    ap = argparse.ArgumentParser(prog='sfmon')
    sub = ap.add_subparsers(dest='cmd', required=True)
    c = sub.add_parser('check')
    c.add_argument('property')
    c.add_argument('--tier', default=os.environ.get('VERIF_TIER', 'quick'), choices=['quick', 'thorough'])
    c.add_argument('--seed', type=int, default=0)
    c.add_argument('--shards', type=int, default=0)
    a = sub.add_parser('all')
    a.add_argument('--tier', default='quick', choices=['quick', 'thorough'])
    a.add_argument('--seed', type=int, default=0)
    a.add_argument('--shards', type=int, default=0)
    s = sub.add_parser('shard')
    s.add_argument('property')
    s.add_argument('--tier', default='quick')
    s.add_argument('--seed', type=int, default=0)
    s.add_argument('--shard', type=int, default=0)
    s.add_argument('--nshards', type=int, default=1)
    s.add_argument('--budget', type=float, default=60)
    s.add_argument('--out', required=True)
    s.add_argument('--replay-file', default=None)
    r = sub.add_parser('replay')
    r.add_argument('path')
    sub.add_parser('doctor')
    args = ap.parse_args(argv)
    if args.cmd == 'shard':
        args.replay_case = None
        if args.replay_file:
            w = json.load(open(args.replay_file))
            args.replay_case = pickle.loads(base64.b64decode(w['case_b64']))
        return shard_main(args)
    if args.cmd == 'check':
        return check_main(args)
    if args.cmd == 'all':
        return all_main(args)
    if args.cmd == 'replay':
        return replay_main(args)
    if args.cmd == 'doctor':
        return doctor_main(args)
    return 2
