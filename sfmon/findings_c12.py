"""Known-finding predicates for C12 (sorting)."""
from sfmon.findings import predicate

_INDEX_OPS = ('series.sort_index', 'frame.sort_index', 'frame.sort_columns', 'index.sort')


@predicate
def c12_index_key_n_by_1_array(w):
    """a key function handed to an index sort (sort_index / sort_columns / Index.sort / IndexHierarchy.sort) returns a
    2-D array with one column: it is counted as depth 1 but argsorted as 2-D"""
    k = w['klass']
    return (w['what'] == 'valid_sort_raised' and k.get('op') in _INDEX_OPS and k.get('key_is_index') is True
            and k.get('key_pack') == 'array_n1')


@predicate
def c12_axis0_inexact_int_in_float_row(w):
    """Frame.sort_values(axis=0): the key rows span int and float columns and hold an int that float64 cannot hold;
    the consolidated float row compares it as its rounded value"""
    k = w['klass']
    return (w['what'] == 'keys_not_ordered' and k.get('op') == 'frame.sort_values' and k.get('axis') == 0
            and k.get('inexact_int_in_float_row') is True)


@predicate
def c12_axis0_zero_columns(w):
    """Frame.sort_values(axis=0) on a Frame without columns: the key row of no blocks has no dtype to resolve"""
    k = w['klass']
    return (w['what'] == 'valid_sort_raised' and k.get('op') == 'frame.sort_values' and k.get('axis') == 0
            and k.get('sorted_len') == 0 and k.get('key_pack') in ('none', 'frame'))
