"""Known-finding predicates for C07 (no lossy coercion)."""
from sfmon.findings import predicate


@predicate
def c07_int_above_2p53_meets_float(w):
    """a Python/NumPy int beyond +-2**53 merged with float/complex data (or int64 with uint64): NumPy promotion to float64"""
    k = w['klass']
    return (w['what'] == 'element_changed' and k.get('supplied_big_int') is True and k.get('got_kind') in ('float', 'complex')
            and (k.get('float_partner') or k.get('signed_unsigned_mix') or 'uint64' in (k.get('a'), k.get('b')))
            and not k.get('python_values_route'))


@predicate
def c07_python_values_heterogeneous_np_array(w):
    """building from heterogeneous Python values (no str involved): the values go to np.array, which casts
    bool -> number, number/bool -> bytes / timedelta64, timedelta64 -> datetime64"""
    k = w['klass']
    return (w['what'] == 'element_changed' and k.get('python_values_route') is True
            and 'str' not in (k.get('supplied_kind'), k.get('got_kind'))
            and k.get('supplied_kind') != k.get('got_kind')
            # a Python int beyond 2**53 next to float / complex values is what prepare_iter_for_array does guard (object dtype):
            # losing it is not this finding
            # (Python ints alone that fit no common integer dtype, e.g. 2**64-1 beside -1, do fall to float64: that is this finding)
            and not (k.get('supplied_big_int') is True and k.get('got_kind') in ('float', 'complex') and k.get('float_partner') is True))


@predicate
def c07_datetime_ns_object_conversion_gives_int(w):
    """a datetime64[ns] column widened to object: NumPy's object conversion yields integers for units finer than us"""
    k = w['klass']
    return (w['what'] == 'element_changed' and k.get('supplied_kind') == 'dt64' and k.get('got_kind') == 'int'
            and 'M8[ns]' in (k.get('a'), k.get('b')) and not k.get('python_values_route'))
