"""Canonical scalars, snapshots of containers and the three comparison strengths.

Everything here reads containers through *public observations only* (labels via
iteration / values_at_depth, cells via iter_array / values); it never calls the
operation a monitor is judging.
"""
import datetime
import hashlib
import math

import numpy as np

NAN = 'nan'
NAT = 'NaT'


def cs(v):
    """Canonical scalar: (kind, value) with exact type-kind separation."""
    if v is None:
        return ('None', None)
    if isinstance(v, (bool, np.bool_)):
        return ('bool', bool(v))
    if isinstance(v, (int, np.integer)) and not isinstance(v, np.timedelta64):
        return ('int', int(v))
    if isinstance(v, (float, np.floating)):
        f = float(v)
        if math.isnan(f):
            return ('float', NAN)
        return ('float', f)
    if isinstance(v, (complex, np.complexfloating)):
        c = complex(v)
        return ('complex', (cs(c.real)[1], cs(c.imag)[1]))
    if isinstance(v, (str, np.str_)):
        return ('str', str(v))
    if isinstance(v, (bytes, np.bytes_)):
        return ('bytes', bytes(v))
    if isinstance(v, np.datetime64):
        unit = np.datetime_data(v.dtype)[0]
        if np.isnat(v):
            return ('dt64', unit, NAT)
        return ('dt64', unit, int(v.astype(np.int64)))
    if isinstance(v, np.timedelta64):
        unit = np.datetime_data(v.dtype)[0]
        if np.isnat(v):
            return ('td64', unit, NAT)
        return ('td64', unit, int(v.astype(np.int64)))
    if isinstance(v, datetime.timedelta):
        return ('timedelta', (v.days, v.seconds, v.microseconds))
    if isinstance(v, datetime.datetime):
        return ('datetime', v.isoformat())
    if isinstance(v, datetime.date):
        return ('date', v.isoformat())
    if isinstance(v, tuple):
        return ('tuple', tuple(cs(x) for x in v))
    if isinstance(v, list):
        return ('list', tuple(cs(x) for x in v))
    if isinstance(v, np.ndarray):
        return ('array', str(v.dtype), v.shape, tuple(cs(x) for x in v.reshape(-1).tolist())
                if v.dtype != object else tuple(cs(x) for x in v.reshape(-1)))
    if isinstance(v, frozenset):
        return ('frozenset', tuple(sorted(map(repr, (cs(x) for x in v)))))
    return ('other', type(v).__name__, repr(v))


def is_missing(v):
    """NaN / None / NaT (the library's notion of a missing cell)."""
    if v is None:
        return True
    if isinstance(v, (float, np.floating)):
        return math.isnan(float(v))
    if isinstance(v, (complex, np.complexfloating)):
        c = complex(v)
        return math.isnan(c.real) or math.isnan(c.imag)
    if isinstance(v, (np.datetime64, np.timedelta64)):
        return bool(np.isnat(v))
    return False


def is_self_unequal(v):
    """NaN / NaT: values not equal to themselves."""
    return v is not None and is_missing(v)


_NUM = ('int', 'float', 'complex')


def _num(c):
    k = c[0]
    if k == 'int':
        return c[1]
    if k == 'float':
        return float('nan') if c[1] == NAN else c[1]
    if k == 'complex':
        re, im = c[1]
        return complex(float('nan') if re == NAN else re, float('nan') if im == NAN else im)
    raise TypeError(k)


def veq(a, b):
    """*value* strength on canonical scalars: numeric kinds (not bool) compare by exact
    Python `==` (an int and a float are equal only if exactly equal), NaN == NaN,
    NaT == NaT, datetimes compare across units by instant; every other kind must match."""
    if a == b:
        return True
    ka, kb = a[0], b[0]
    if ka in _NUM and kb in _NUM:
        x, y = _num(a), _num(b)
        if x != x and y != y:
            return True
        try:
            return x == y
        except Exception:
            return False
    if ka == kb and ka in ('dt64', 'td64'):
        if a[2] == NAT or b[2] == NAT:
            return a[2] == b[2]
        kind = 'M8' if ka == 'dt64' else 'm8'
        try:
            return bool(np.array(a[2], dtype=f'{kind}[{a[1]}]') == np.array(b[2], dtype=f'{kind}[{b[1]}]'))
        except Exception:
            return False
    if ka == kb == 'tuple' and len(a[1]) == len(b[1]):
        return all(veq(x, y) for x, y in zip(a[1], b[1]))
    return False


def leq(a, b):
    """*label* equality on canonical scalars: value strength, and a datetime64 equals the
    datetime.date / datetime object NumPy's object conversion presents it as (recursively
    inside tuples)."""
    if veq(a, b):
        return True
    ka, kb = a[0], b[0]
    if ka == 'dt64' and kb in ('date', 'datetime'):
        a, b, ka, kb = b, a, kb, ka
    if ka in ('date', 'datetime') and kb == 'dt64' and b[2] != NAT:
        try:
            return bool(np.datetime64(a[1]) == np.array(b[2], dtype=f'M8[{b[1]}]'))
        except Exception:
            return False
    if ka == 'td64' and kb == 'timedelta':
        a, b, ka, kb = b, a, kb, ka
    if ka == 'timedelta' and kb == 'td64' and b[2] != NAT:
        try:
            return bool(datetime.timedelta(days=a[1][0], seconds=a[1][1], microseconds=a[1][2]) == np.array(b[2], dtype=f'm8[{b[1]}]')[()])
        except Exception:
            return False
    if ka == kb == 'tuple' and len(a[1]) == len(b[1]):
        return all(leq(x, y) for x, y in zip(a[1], b[1]))
    return False


def ceq(a, b, rel=1e-9, abs_=1e-12):
    """*close* strength: like veq but floats/complex within tolerance."""
    if veq(a, b):
        return True
    ka, kb = a[0], b[0]
    if ka in _NUM and kb in _NUM:
        x, y = _num(a), _num(b)
        try:
            if isinstance(x, complex) or isinstance(y, complex):
                x, y = complex(x), complex(y)
                return (math.isclose(x.real, y.real, rel_tol=rel, abs_tol=abs_) or (x.real != x.real and y.real != y.real)) and \
                       (math.isclose(x.imag, y.imag, rel_tol=rel, abs_tol=abs_) or (x.imag != x.imag and y.imag != y.imag))
            return math.isclose(x, y, rel_tol=rel, abs_tol=abs_)
        except OverflowError:
            return False
    return False


def seq_eq(xs, ys, eq=None):
    if len(xs) != len(ys):
        return False
    if eq is None:
        return all(x == y for x, y in zip(xs, ys))
    return all(eq(x, y) for x, y in zip(xs, ys))


# --------------------------------------------------------------------------------------
# reading containers

def arr_cells(a):
    """Canonical scalars of a 1-D array (elements via item access, preserving numpy
    scalar types for datetime64)."""
    if a.dtype.kind in 'Mm':
        return [cs(x) for x in a]
    if a.dtype == object:
        return [cs(x) for x in a]
    return [cs(x) for x in a.tolist()]


def arr_values(a):
    """Python-level elements of a 1-D array, datetime64 kept as numpy scalars."""
    if a.dtype.kind in 'Mm' or a.dtype == object:
        return list(a)
    return a.tolist()


def index_labels(idx):
    """Labels of an index as a Python list (tuples for hierarchies), read through
    values_at_depth for hierarchies so that per-depth types survive."""
    if idx.depth == 1:
        return arr_values(idx.values)
    cols = [arr_values(idx.values_at_depth(d)) for d in range(idx.depth)]
    return list(zip(*cols)) if cols and len(cols[0]) else []


def snap_index(idx):
    d = {'k': 'Index', 'cls': type(idx).__name__, 'name': cs(idx.name), 'depth': idx.depth}
    if idx.depth == 1:
        d['dtype'] = str(idx.values.dtype)
        d['labels'] = tuple(arr_cells(idx.values))
    else:
        cols = [idx.values_at_depth(i) for i in range(idx.depth)]
        d['dtype'] = tuple(str(c.dtype) for c in cols)
        cc = [arr_cells(c) for c in cols]
        d['labels'] = tuple(('tuple', t) for t in zip(*cc)) if len(idx) else ()
    return d


def frame_columns(f):
    """Per-column 1-D arrays of a Frame, read without going through selection."""
    return list(f._blocks.axis_values(0))


def snap(x):
    """Canonical, comparable (==) snapshot of any result."""
    import static_frame as sf
    from static_frame.core.index_base import IndexBase
    if isinstance(x, BaseException):
        return {'k': 'exc', 'cls': type(x).__name__}
    if isinstance(x, sf.Series) and not isinstance(x, sf.Bus):
        v = x.values
        return {'k': 'Series', 'cls': type(x).__name__, 'name': cs(x.name),
                'index': snap_index(x.index), 'dtype': str(v.dtype), 'values': tuple(arr_cells(v))}
    if isinstance(x, sf.Frame):
        cols = frame_columns(x)
        return {'k': 'Frame', 'cls': type(x).__name__, 'name': cs(x.name), 'shape': tuple(x.shape),
                'index': snap_index(x.index), 'columns': snap_index(x.columns),
                'dtypes': tuple(str(c.dtype) for c in cols),
                'cols': tuple(tuple(arr_cells(c)) for c in cols)}
    if isinstance(x, IndexBase):
        return snap_index(x)
    if isinstance(x, sf.Bus):
        return {'k': 'Bus', 'cls': type(x).__name__, 'name': cs(x.name),
                'index': snap_index(x.index),
                'frames': tuple(snap(f) for f in (x.iloc[i] for i in range(len(x))))}
    if isinstance(x, np.ndarray):
        return {'k': 'array', 'dtype': str(x.dtype), 'shape': tuple(x.shape),
                'values': tuple(arr_cells(x.reshape(-1)))}
    if isinstance(x, (tuple, list)) and any(hasattr(e, '_blocks') or hasattr(e, 'index') for e in x):
        return {'k': type(x).__name__, 'items': tuple(snap(e) for e in x)}
    return {'k': 'element', 'v': cs(x)}


def snap_drop(s, *keys):
    """Copy of a snapshot without some keys (e.g. 'cls', 'dtype')."""
    return {k: v for k, v in s.items() if k not in keys}


def snap_values_eq(a, b, eq=veq, check_dtype=False, check_name=True, check_cls=False):
    """Compare two snapshots with a chosen cell strength; labels always exact."""
    if a.get('k') != b.get('k'):
        return False
    k = a['k']
    if check_cls and a.get('cls') != b.get('cls'):
        return False
    if k == 'exc':
        return a['cls'] == b['cls']
    if k == 'element':
        return eq(a['v'], b['v'])
    if check_name and 'name' in a and a['name'] != b['name']:
        return False
    if k == 'Index':
        return a['depth'] == b['depth'] and a['labels'] == b['labels'] and (not check_dtype or a['dtype'] == b['dtype'])
    if k == 'Series':
        return (a['index']['labels'] == b['index']['labels'] and seq_eq(a['values'], b['values'], eq)
                and (not check_dtype or a['dtype'] == b['dtype']))
    if k == 'Frame':
        if a['shape'] != b['shape'] or a['index']['labels'] != b['index']['labels'] \
                or a['columns']['labels'] != b['columns']['labels']:
            return False
        if check_dtype and a['dtypes'] != b['dtypes']:
            return False
        return all(seq_eq(x, y, eq) for x, y in zip(a['cols'], b['cols']))
    if k == 'array':
        return a['shape'] == b['shape'] and seq_eq(a['values'], b['values'], eq) and (not check_dtype or a['dtype'] == b['dtype'])
    return a == b


def fp(obj):
    """Short stable fingerprint of any repr-able object."""
    return hashlib.sha1(repr(obj).encode('utf-8', 'backslashreplace')).hexdigest()[:16]


def brief(x, limit=400):
    r = repr(x)
    return r if len(r) <= limit else r[:limit] + '…'
