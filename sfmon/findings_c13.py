"""Known-finding predicates for C13 (grouping and windows).  Each tests the input class /
mechanism recorded in klass (and the kind of refutation in `what`), never the wrong value."""
from sfmon.findings import predicate

_GROUP_WRONG = ('group_partition_mismatch', 'group_keys_not_distinct', 'group_values_iter_mismatch', 'apply_mismatch',
                'apply_labels_not_distinct')
_GROUP_RAISED = ('group_raised', 'apply_raised')


@predicate
def c13_str_fallback_collision(w):
    """unorderable object keys are grouped by str(): the str fallback ran and the key cells hold two different
    keys with one str() (1 / '1', None / 'None') or one key with two str() (1 / True / 1.0, 0.0 / -0.0)."""
    k = w['klass']
    if not (k.get('str_fallback') is True and k.get('str_collision') is True):
        return False
    if w['what'] in _GROUP_WRONG:
        return True
    # equal keys in two groups cannot label an apply result
    return w['what'] == 'apply_raised' and k.get('exception') in ('ErrorInitIndexNonUnique', 'ErrorInitIndex')


@predicate
def c13_str_fallback_tuple_cells(w):
    """tuple cells among unorderable keys: array.astype(str) in the fallback raises ValueError."""
    k = w['klass']
    return (w['what'] in _GROUP_RAISED and k.get('exception') == 'ValueError' and k.get('has_tuple_cell') is True
            and k.get('unorderable') is True and k.get('str_fallback') is True)


@predicate
def c13_multikey_bigint_float(w):
    """several key lines of int and float dtypes are consolidated into one float array: ints beyond 2**53 change."""
    k = w['klass']
    return w['what'] in _GROUP_WRONG and k.get('bigint_meets_float') is True and k.get('container') == 'frame'


@predicate
def c13_series_group_apply_index_class(w):
    """Series.iter_group[_items]().apply builds the index of the result from the group keys (values) with the
    class of the source's index."""
    k = w['klass']
    return (w['what'] in ('apply_raised', 'apply_mismatch', 'apply_labels_not_distinct') and k.get('container') == 'series'
            and k.get('op') == 'values' and k.get('form') in ('apply', 'items_apply')
            and k.get('index_kind') not in ('auto', 'int', 'str', 'negint', 'mixed', 'float', 'tuple', 'range', 'bool', 'dateobj'))


@predicate
def c13_frame_group_labels_list_depth(w):
    """Frame.iter_group_labels[_items](list of depths) labels the groups with arrays (group_to_tuple is unused)."""
    k = w['klass']
    if not (k.get('container') == 'frame' and k.get('op') == 'labels' and k.get('depth_is_list') is True):
        return False
    return w['what'] == 'group_label_is_array' or (w['what'] == 'apply_raised' and k.get('exception') == 'TypeError')


@predicate
def c13_window_beyond_end(w):
    """window_sized off: a window that starts beyond the last element is yielded (empty) when it is the first
    window or when start_shift < 0 (the bound on the left edge is extended by |start_shift|)."""
    k = w['klass']
    return (w['what'] == 'window_beyond_end_yielded' and k.get('window_sized') is False
            and (k.get('start_shift_negative') is True or k.get('start_beyond_end') is True))


@predicate
def c13_axis1_one_row_multi_key(w):
    """axis=1 grouping with a list / slice key that selects exactly one row: np.unique(axis=None) on the 1 x n
    source returns a 2-D inverse (NumPy 2), the selection is 2-D."""
    k = w['klass']
    return (w['what'] in _GROUP_RAISED and k.get('container') == 'frame' and k.get('op') == 'values' and k.get('axis') == 1
            and k.get('keyform') in ('list', 'slice') and k.get('nkeys') == 1 and k.get('n_members', 0) >= 1
            and k.get('exception') in ('ValueError', 'IndexError'))


@predicate
def c13_axis1_fallback_restores_rows(w):
    """axis=1 grouping by several rows whose values are held in an object array: the str fallback restores the
    group values with array[group_index] (rows) although the unique ran along columns."""
    k = w['klass']
    if not (k.get('container') == 'frame' and k.get('op') == 'values' and k.get('axis') == 1 and k.get('nkeys', 0) >= 2
            and k.get('str_fallback') is True):
        return False
    return w['what'] in _GROUP_WRONG or (w['what'] in _GROUP_RAISED and k.get('exception') in ('IndexError', 'ErrorInitIndexNonUnique', 'ErrorInitIndex'))


@predicate
def c13_zero_column_extract_array(w):
    """TypeBlocks._extract_array with a column key selecting nothing lets a StopIteration escape
    (resolve_dtype_iter on no blocks): axis=1 grouping of a frame without columns, iter_window_array(axis=1) whose
    first / leading / trailing window is empty."""
    k = w['klass']
    if k.get('stopiteration') is not True:
        return False
    if w['what'] in _GROUP_RAISED:
        return k.get('container') == 'frame' and k.get('axis') == 1 and k.get('n_members') == 0
    return (w['what'] == 'window_raised' and k.get('container') == 'frame_axis1' and k.get('form') in ('array', 'array_items')
            and k.get('may_extract_empty') is True)


@predicate
def c13_framego_sort_path_axis1(w):
    """FrameGO.iter_group(label, axis=1) on the sort path passes an IndexGO slice as owned columns of a static Frame."""
    k = w['klass']
    return (w['what'] in _GROUP_RAISED and k.get('cls') == 'FrameGO' and k.get('axis') == 1 and k.get('impl') == 'sort_items'
            and k.get('exception') == 'ErrorInitFrame')
