"""Known-finding predicates for C17 (Bus and multi-table stores).  Each tests the input
class / mechanism recorded in the witness (`what` + `klass`), never the wrong value."""
from sfmon.findings import predicate


@predicate
def bus_accessor_bypasses_cache_update(w, op):
    """`Bus.get` (op='get') and `Bus.iter_element` (op='iter_element') read `Bus._series`
    directly instead of going through `_update_series_cache_iloc`: an unloaded label yields
    the FrameDeferred placeholder (also after a file fault, where a read would have to be
    refused), and a loaded label is not marked as recently used."""
    k = w['klass']
    if k.get('op') != op:
        return False
    if w['what'] in ('placeholder_returned', 'data_returned_after_store_mutation'):
        return True
    return w['what'] == 'lru_order_mismatch' and k.get('at') == 'step_end'


@predicate
def bus_store_reader_default_config_at_max_persist_1(w):
    """A multi-label selection under max_persist == 1 reads each Frame with the map's default
    configuration (`config[labels]`, the generator, instead of `config[label]`): a label whose
    own configuration differs from the default comes back mis-parsed (or the parse raises).
    Pickle stores ignore the configuration and are not affected."""
    k = w['klass']
    if k.get('fmt') == 'zip_pickle' or k.get('max_persist') != '1':
        return False
    if w['what'] == 'frame_mismatch':
        return k.get('loaded_via') == 'multi_mp1' and k.get('label_config_is_default') is False
    if w['what'] == 'valid_access_raised':
        # (ErrorInitBus is a Bus-construction error, not a parse error: it belongs to the LRU finding below)
        return (k.get('multi_mp1_nondefault_config') is True and k.get('phase') in ('normal', 'restored')
                and k.get('exception') != 'ErrorInitBus')
    return False


@predicate
def sqlite_integer_index_rows_sorted(w):
    """SQLite store: a depth-1 integer index becomes an INTEGER PRIMARY KEY (the rowid), so
    `SELECT *` returns the rows in ascending key order: a Frame whose integer index is not
    ascending comes back with its rows reordered."""
    k = w['klass']
    return (w['what'] == 'roundtrip_mismatch' and k.get('fmt') == 'sqlite' and k.get('row_kind') in ('int', 'negint')
            and k.get('int_index_ascending') is False and k.get('why') == 'index labels')


@predicate
def bus_lru_keeps_label_of_failed_read(w):
    """`_update_series_cache_iloc` enters a label into the LRU before reading it; when the read
    is refused (StoreFileMutation) the label stays in the LRU unloaded.  If the file becomes
    coherent again, evicting that entry frees nothing and the Bus holds max_persist + 1 Frames."""
    k = w['klass']
    if k.get('phase') != 'restored' or k.get('ghost_lru_entry') is not True:
        return False
    if w['what'] == 'cache_invariant:more_than_max_persist_loaded':
        return True
    # a selection of the max_persist + 1 loaded Frames cannot even be constructed
    return w['what'] == 'valid_access_raised' and k.get('exception') == 'ErrorInitBus'
