"""sfmon: runtime monitors for the static-frame properties in /verif/properties.jsonl."""
