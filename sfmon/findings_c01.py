"""Known-finding predicates for C01 (immutability)."""
from sfmon.findings import predicate

_INDEX_CLASSES = {'Index', 'IndexDate', 'IndexYearMonth', 'IndexHierarchy', 'IndexYear', 'IndexSecond'}
_HELPERS = {'iloc_searchsorted', 'loc_searchsorted', 'loc_to_iloc'}


@predicate
def c01_index_query_helpers_return_writeable_arrays(w):
    """index query helpers return a freshly computed array (no memory shared with the index) that is left writeable"""
    k = w['klass']
    if w['what'] != 'writeable_array' or k.get('t') != 'history' or k.get('path') != 'result':
        return False
    recv, attr = k.get('receiver'), k.get('attr')
    if recv in _INDEX_CLASSES and (attr in _HELPERS or attr == 'op:matmul'):
        return True
    return recv == 'IndexHierarchy' and attr in ('isin', 'unique')


_REDUCTIONS = {'sum', 'prod', 'min', 'max', 'mean', 'median', 'std', 'var', 'all', 'any'}


@predicate
def c01_reduction_stores_arrays_as_cells(w):
    """the size-one shortcut of multi-block axis reductions stores 1-element arrays as the cells of an object result (C15 finding);
    those cell arrays are writeable"""
    k = w['klass']
    return (w['what'] == 'writeable_array' and k.get('t') == 'history' and k.get('attr') in _REDUCTIONS
            and k.get('path', '').startswith('result.values['))
