"""Known-finding predicates for C16 (single-table round trips).  Each tests the input class
recorded in `klass` (and `what`), never the wrong value that came back."""
from sfmon.findings import predicate

_DELIM_OUTCOMES = ('delimited_cells_mismatch', 'delimited_labels_mismatch', 'delimited_name_mismatch')


@predicate
def c16_tab_delimited_quoted_field(w):
    """A tab-delimited table in which every element that came back different is a field the
    writer had to quote (it holds the quote character); column type kinds unchanged (unless the
    line-edge input class below is present in the same column)."""
    k = w['klass']
    return (w['what'] in _DELIM_OUTCOMES and k.get('kind') == 'delim' and k.get('delimiter') == 'tab'
            and k.get('field_hazard') in ('tab_quoted', 'tab_quoted+line_edge_space')
            and (k.get('dtype_kind_ok', True) is True or k.get('edge_text_strips_to_empty_or_alias') is True)
            and k.get('text_columns', 0) > 1)


@predicate
def c16_line_edge_space(w):
    """Every element that came back different is the first field of its line and starts with a
    space, or the last field and ends with one (a text there that strips to nothing or to a StoreFilter
    alias may also change the column's type kind)."""
    k = w['klass']
    return (w['what'] in _DELIM_OUTCOMES and k.get('kind') == 'delim'
            and k.get('field_hazard') in ('line_edge_space', 'tab_quoted+line_edge_space')
            and (k.get('dtype_kind_ok', True) is True or k.get('edge_text_strips_to_empty_or_alias') is True)
            and k.get('text_columns', 0) > 1)


@predicate
def c16_all_missing_column(w):
    """A data column whose every cell is missing (NaN): its text is empty in every row."""
    k = w['klass']
    return (w['what'] == 'delimited_cells_mismatch' and k.get('kind') == 'delim' and k.get('field_hazard') == 'all_empty_text_column'
            and k.get('column_type') in ('float64', 'strobj') and k.get('text_columns', 0) > 1)


@predicate
def c16_single_text_column(w):
    """The exported text has exactly one column (one data column without index, or only a
    depth-1 index): whatever the import then does."""
    k = w['klass']
    return w['what'].startswith('delimited_') and w['what'] != 'delimited_export_raised' and k.get('kind') == 'delim' \
        and k.get('text_columns') == 1


@predicate
def c16_zero_column_frame(w):
    """A Frame with rows but no columns: the exporter writes no row at all."""
    k = w['klass']
    return w['what'].startswith('delimited_') and w['what'] != 'delimited_export_raised' and k.get('kind') == 'delim' \
        and k.get('zero_columns') is True and k.get('include_index') is True and k.get('text_columns', 0) > 1


@predicate
def c16_zero_rows_hierarchical_index(w):
    """No data row and index_depth > 1."""
    k = w['klass']
    return (w['what'] == 'delimited_import_raised' and k.get('exception') == 'ErrorInitIndexLevel' and k.get('rows') == 0
            and k.get('include_index') is True and k.get('index_depth', 1) > 1 and k.get('zero_columns') is False)


@predicate
def c16_columns_depth_gt1_store_filter_none(w):
    """columns_depth > 1 read with store_filter=None."""
    k = w['klass']
    return (w['what'] == 'delimited_import_raised' and k.get('exception') == 'AttributeError' and k.get('import_store_filter') == 'None'
            and k.get('include_columns') is True and k.get('columns_depth', 1) > 1)


@predicate
def c16_genfromtxt_int_then_text(w):
    """A text column (str data column or str index level) with an int-looking text before a
    non-numeric text: NumPy 2's genfromtxt converter upgrade raises TypeError."""
    k = w['klass']
    return (w['what'] == 'delimited_import_raised' and k.get('exception') == 'TypeError'
            and k.get('int_text_precedes_non_numeric_text') is True)


@predicate
def c16_unpickled_index_positions_writeable(w):
    """pickle round trip: only `Index.positions` arrays come back writeable."""
    k = w['klass']
    return w['what'] == 'pickle_array_writeable' and k.get('op') == 'pickle' and k.get('only_index_positions') is True


@predicate
def c16_items_hierarchical_columns(w):
    """Frame.items() on hierarchical columns."""
    k = w['klass']
    return (w['what'] == 'memory_route_raised' and k.get('exception') == 'TypeError' and k.get('uses_items_exporter') is True
            and k.get('columns_hierarchical') is True and k.get('zero_columns') is False)


@predicate
def c16_row_export_int_beyond_2p53(w):
    """Row-wise export of numeric columns of different kinds: only ints beyond 2**53 differ."""
    k = w['klass']
    return (w['what'] == 'memory_cells_mismatch' and k.get('row_wise') is True and k.get('rows_numeric_of_different_kinds') is True
            and k.get('mismatch_only_at_int_beyond_2p53') is True)


@predicate
def c16_object_bools_meet_numbers(w):
    """An object column holding only bools and numbers (NaN included) rebuilt from its elements:
    only the bool cells differ."""
    k = w['klass']
    return (w['what'] == 'memory_cells_mismatch' and k.get('column_dtype') == 'object'
            and k.get('object_column_of_bools_and_numbers_only') is True and k.get('mismatch_only_at_bool_cells') is True)
