"""Known-finding predicates for C09 (grow-only containers)."""
from sfmon.findings import predicate


@predicate
def c09_extend_items_is_a_loop_of_setitem(w):
    """FrameGO.extend_items failing midway (duplicate label or raising generator) keeps the columns added before the failure"""
    k = w['klass']
    return (w['what'] == 'rejected_growth_changed_container' and k.get('t') == 'frame'
            and k.get('growth') in ('extend_items_dup_mid', 'extend_items_raising_generator'))
