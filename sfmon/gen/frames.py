"""FrameSpec / SeriesSpec: pure-Python descriptions of containers, block-layout enumeration
and the routes that build the same logical Frame (DESIGN 3.2)."""
import itertools

import numpy as np

from sfmon.gen import labels as L
from sfmon.gen import values as V


class FrameSpec:
    """rows/cols: label lists (tuples for hierarchies); row_kind/col_kind: index kinds;
    dtypes: per-column dtype strings; cells[r][c]: Python elements."""
    __slots__ = ('rows', 'cols', 'row_kind', 'col_kind', 'dtypes', 'cells', 'name')

    def __init__(self, rows, cols, row_kind, col_kind, dtypes, cells, name=None):
        self.rows, self.cols, self.row_kind, self.col_kind = list(rows), list(cols), row_kind, col_kind
        self.dtypes, self.cells, self.name = list(dtypes), [list(r) for r in cells], name

    @property
    def shape(self):
        return (len(self.rows), len(self.cols))

    def col_values(self, j):
        return [r[j] for r in self.cells]

    def col_array(self, j):
        return V.to_array(self.col_values(j), self.dtypes[j])

    def __getstate__(self):
        return {k: getattr(self, k) for k in self.__slots__}

    def __setstate__(self, st):
        for k, v in st.items():
            setattr(self, k, v)

    def __repr__(self):
        return (f'FrameSpec(rows={self.rows!r}, cols={self.cols!r}, row_kind={self.row_kind!r}, col_kind={self.col_kind!r}, '
                f'dtypes={self.dtypes!r}, cells={self.cells!r}, name={self.name!r})')

    def brief(self):
        return {'shape': list(self.shape), 'row_kind': self.row_kind, 'col_kind': self.col_kind, 'dtypes': self.dtypes}


def random_spec(rng, max_rows=5, max_cols=6, dtypes=None, row_kinds=None, col_kinds=None, missing_ok=True,
                min_rows=0, min_cols=0, name_pool=(None, 'n', 7, ('t', 1)), homog_p=0.0):
    dtypes = dtypes or V.COMMON
    if homog_p and rng.random() < homog_p:
        dtypes = [rng.choice(dtypes)]  # one dtype throughout: the single wide 2-D block becomes a possible layout
    row_kinds = row_kinds or ['auto', 'int', 'str', 'negint', 'IndexDate', 'hier2', 'mixed', 'float']
    col_kinds = col_kinds or ['str', 'int', 'auto', 'hier2', 'negint', 'mixed']
    nr = rng.randint(min_rows, max_rows)
    nc = rng.randint(min_cols, max_cols)
    rk = rng.choice(row_kinds)
    ck = rng.choice(col_kinds)
    rows = L.labels_for(rk, nr, rng)
    cols = L.labels_for(ck, nc, rng)
    nr, nc = len(rows), len(cols)
    # dtype runs: adjacent equal dtypes are likely so that multi-width blocks exist
    dts = []
    while len(dts) < nc:
        dt = rng.choice(dtypes)
        run = rng.choice([1, 1, 2, 2, 3])
        dts.extend([dt] * run)
    dts = dts[:nc]
    cells = [[V.element(dts[j], rng, missing_ok) for j in range(nc)] for _ in range(nr)]
    return FrameSpec(rows, cols, rk, ck, dts, cells, rng.choice(name_pool))


# --------------------------------------------------------------------------------------
# layouts

def layouts(dtypes, limit=None, rng=None):
    """All block layouts of a column sequence: a layout is a list of (start, stop, two_d)
    pieces covering the columns in order; a piece wider than 1 spans equal-dtype columns and
    is 2-D; width-1 pieces are 1-D or 2-D (n x 1)."""
    m = len(dtypes)
    if m == 0:
        return [[]]
    out = []

    def rec(start, acc):
        if limit is not None and rng is None and len(out) >= limit:
            return
        if start == m:
            out.append(list(acc))
            return
        stop = start + 1
        while True:
            if stop - start == 1:
                for two_d in (False, True):
                    acc.append((start, stop, two_d))
                    rec(stop, acc)
                    acc.pop()
            else:
                acc.append((start, stop, True))
                rec(stop, acc)
                acc.pop()
            if stop < m and dtypes[stop] == dtypes[start]:
                stop += 1
            else:
                break

    rec(0, [])
    if limit is not None and len(out) > limit and rng is not None:
        first, last = out[0], max(out, key=lambda lay: -len(lay))
        picked = rng.sample(out, limit - 2) if limit > 2 else []
        out = [first, last] + picked
    return out


def layout_all_1d(dtypes):
    return [(i, i + 1, False) for i in range(len(dtypes))]


def layout_max_consolidated(dtypes):
    out, i, m = [], 0, len(dtypes)
    while i < m:
        j = i + 1
        while j < m and dtypes[j] == dtypes[i]:
            j += 1
        out.append((i, j, True))
        i = j
    return out


def layout_name(layout):
    return '|'.join(f"{b - a}{'D' if two else ''}" for a, b, two in layout)


def blocks_for(spec, layout):
    blocks = []
    nr = len(spec.rows)
    for a, b, two_d in layout:
        if b - a == 1 and not two_d:
            blocks.append(spec.col_array(a))
        else:
            dt = spec.dtypes[a]
            arr = np.empty((nr, b - a), dtype=object if dt == 'object' else dt)
            for j in range(a, b):
                arr[:, j - a] = spec.col_array(j)
            blocks.append(arr)
    return blocks


def build_frame(spec, layout=None, cls=None, index=True, columns=True):
    """Frame with exactly the requested block layout (default all 1-D)."""
    import static_frame as sf
    from static_frame.core.type_blocks import TypeBlocks
    cls = cls or sf.Frame
    if layout is None:
        layout = layout_all_1d(spec.dtypes)
    nr, nc = spec.shape
    idx = L.build_index(spec.row_kind, spec.rows) if index else None
    col = L.build_index(spec.col_kind, spec.cols, go=cls is sf.FrameGO) if columns else None
    if nc == 0:
        # a TypeBlocks without columns cannot carry its row count through Frame(TypeBlocks)
        return cls(index=idx if idx is not None else range(nr), columns=col if col is not None else (), name=spec.name)
    tb = TypeBlocks.from_blocks(blocks_for(spec, layout))
    return cls(tb, index=idx, columns=col, name=spec.name)


def observed_layout(frame):
    return '|'.join(f"{1 if len(s) == 1 else s[1]}{'D' if len(s) == 2 else ''}" for s in frame._blocks.shapes)


# --------------------------------------------------------------------------------------
# Series

class SeriesSpec:
    __slots__ = ('labels', 'kind', 'dtype', 'values', 'name')

    def __init__(self, labels, kind, dtype, values, name=None):
        self.labels, self.kind, self.dtype, self.values, self.name = list(labels), kind, dtype, list(values), name

    def __getstate__(self):
        return {k: getattr(self, k) for k in self.__slots__}

    def __setstate__(self, st):
        for k, v in st.items():
            setattr(self, k, v)

    def __repr__(self):
        return f'SeriesSpec(labels={self.labels!r}, kind={self.kind!r}, dtype={self.dtype!r}, values={self.values!r}, name={self.name!r})'

    def brief(self):
        return {'n': len(self.labels), 'kind': self.kind, 'dtype': self.dtype}


def random_series_spec(rng, max_n=8, dtypes=None, kinds=None, missing_ok=True, min_n=0):
    dtypes = dtypes or V.COMMON
    kinds = kinds or ['auto', 'int', 'str', 'negint', 'IndexDate', 'hier2', 'mixed', 'float', 'tuple']
    n = rng.randint(min_n, max_n)
    k = rng.choice(kinds)
    labels = L.labels_for(k, n, rng)
    dt = rng.choice(dtypes)
    return SeriesSpec(labels, k, dt, V.column(dt, len(labels), rng, missing_ok), rng.choice((None, 's', 3)))


def build_series(spec, cls=None):
    import static_frame as sf
    cls = cls or sf.Series
    idx = L.build_index(spec.kind, spec.labels)
    return cls(V.to_array(spec.values, spec.dtype), index=idx, name=spec.name)
