"""Selection keys as picklable *descriptors*, their realisation into real key objects, and
the list-model resolution of each descriptor into positions (the reference for C04/C08/C19).

A descriptor is a tuple whose first item names the key kind:
  positional: ('int', i) ('slice', a, b, c) ('list', [i..]) ('array', [i..]) ('bools', [..])
              ('boollist', [..]) ('null',)
  label:      ('label', l) ('labels', [l..]) ('labelarray', [l..]) ('lslice', a, b, step)
              ('boolseries', [(label, bool)..]) ('indexkey', [l..]) ('serieskey', [l..])
              ('iloc', <positional descriptor>) ('bools', ..) ('null',)
              ('dtstr', text) ('dt64', text, unit) ('dateobj', date) ('dtslice', a, b)  (datetime indices)
"""
import datetime

import numpy as np

from sfmon.canon import cs


class Resolved:
    """positions selected, whether the axis is reduced (scalar key), and the error the
    statement demands instead ('absent' | 'oob' | None)."""
    __slots__ = ('positions', 'reduce', 'error', 'judged')

    def __init__(self, positions=None, reduce=False, error=None, judged=True):
        self.positions, self.reduce, self.error, self.judged = positions, reduce, error, judged

    def __repr__(self):
        return f'Resolved({self.positions}, reduce={self.reduce}, error={self.error})'


# --------------------------------------------------------------------------------------
# generation

def gen_positional(n, rng, allow_repeat=True):
    r = rng.random()
    if r < 0.2:
        return ('int', rng.randint(-n - 2, n + 2))
    if r < 0.5:
        bounds = [None] + list(range(-n - 1, n + 2))
        return ('slice', rng.choice(bounds), rng.choice(bounds), rng.choice([None, None, 1, -1, 2, -2, 3, -3]))
    if r < 0.7:
        k = rng.randint(0, n + 1)
        if n == 0:
            items = []
        elif allow_repeat and rng.random() < 0.2:
            items = [rng.randrange(-n, n) for _ in range(k)]
        else:
            items = rng.sample(range(n), min(k, n))
            if rng.random() < 0.3:
                items = [i - n if rng.random() < 0.5 else i for i in items]
            if rng.random() < 0.4:
                items.sort()
        return (rng.choice(['list', 'array']), items)
    if r < 0.9:
        mode = rng.random()
        if mode < 0.15:
            bs = [False] * n
        elif mode < 0.3:
            bs = [True] * n
        elif mode < 0.45 and n:
            bs = [False] * n
            bs[rng.randrange(n)] = True
        else:
            bs = [rng.random() < 0.5 for _ in range(n)]
        return ('bools', bs)
    return ('null',)


def all_positional(n):
    """Every int key and every slice over the bounded range (for small n)."""
    for i in range(-n - 2, n + 3):
        yield ('int', i)
    bounds = [None] + list(range(-n - 1, n + 2))
    for a in bounds:
        for b in bounds:
            for c in (None, 1, -1, 2, -2, 3, -3):
                yield ('slice', a, b, c)


_ABSENT = {'int': [999, -999], 'negint': [999, -777], 'range': [999, -1], 'auto': [999, -1], 'str': ['ZZZ', 'nope'],
           'float': [99.25], 'mixed': ['ZZZ', 999, (9, 9)], 'tuple': [(9, 'q')], 'bool': [], 'dateobj': [datetime.date(1990, 1, 1)],
           'dt64': [np.datetime64('1990-01-01')], 'IndexDate': [np.datetime64('1990-01-01')],
           'IndexYearMonth': [np.datetime64('1990-01')], 'IndexSecond': [np.datetime64('1990-01-01T00:00:00')],
           'hier2': [('QQ', 999)], 'hier3': [('QQ', 999, 'QQ')]}


def absent_label(kind, labels, rng):
    pool = [a for a in _ABSENT.get(kind, []) if a not in labels]
    return rng.choice(pool) if pool else None


def gen_label(labels, kind, rng, allow_absent=True):
    """A label-based key descriptor for an axis holding `labels` of index kind `kind`."""
    n = len(labels)
    r = rng.random()
    if kind in ('IndexDate', 'IndexYearMonth', 'IndexSecond') and r < 0.35 and n:
        return gen_datetime_key(labels, kind, rng)
    if r < 0.06 and allow_absent:
        a = absent_label(kind, labels, rng)
        if a is not None:
            which = rng.random()
            if which < 0.4 or n == 0:
                return ('label', a)
            if which < 0.7:
                items = rng.sample(labels, min(n, 2)) + [a]
                rng.shuffle(items)
                return ('labels', items)
            other = rng.choice(labels)
            return ('lslice', a, other, None) if rng.random() < 0.5 else ('lslice', other, a, None)
    if n == 0:
        return rng.choice([('null',), ('labels', []), ('bools', [])])
    if r < 0.25:
        return ('label', rng.choice(labels))
    if r < 0.45:
        k = rng.randint(0, n)
        items = rng.sample(labels, k)
        if rng.random() < 0.4:
            items = [l for l in labels if l in items]
        return (rng.choice(['labels', 'labels', 'labelarray', 'indexkey', 'serieskey']), items)
    if r < 0.7:
        a = rng.choice([None] + labels)
        b = rng.choice([None] + labels)
        return ('lslice', a, b, rng.choice([None, None, None, 1, 2, -1, -2]))
    if r < 0.8:
        return ('bools', [rng.random() < 0.5 for _ in range(n)])
    if r < 0.9:
        # Boolean Series key: labels permuted, some missing, some foreign
        pairs = [(l, rng.random() < 0.6) for l in labels if rng.random() < 0.85]
        rng.shuffle(pairs)
        return ('boolseries', pairs)
    if r < 0.97:
        return ('iloc', gen_positional(n, rng, allow_repeat=False))
    return ('null',)


def gen_boolseries_ih(labels, rng):
    """Boolean Series key whose own index is hierarchical (depth 2), for a depth-2 axis holding `labels`:
    either a full product (from_product shares one leaf Index between the outer labels) laid over the axis'
    outer labels and one group's inner labels, or an explicit tree of kept, dropped and foreign labels."""
    outers = []
    for t in labels:
        if t[0] not in outers:
            outers.append(t[0])
    groups = {o: [t[1] for t in labels if t[0] == o] for o in outers}
    if rng.random() < 0.6:
        inners = list(groups[rng.choice(outers)])
        if rng.random() < 0.3:
            pool = []
            for o in outers:
                for x in groups[o]:
                    if x not in pool:
                        pool.append(x)
            inners = rng.sample(pool, min(len(pool), max(1, len(inners))))
        os_ = list(outers)
        if rng.random() < 0.2:
            rng.shuffle(os_)
        pairs = [((o, i), rng.random() < 0.6) for o in os_ for i in inners]
        return ('boolseries_ih', pairs, 'product', (tuple(os_), tuple(inners)))
    os_ = list(outers)
    rng.shuffle(os_)
    pairs = []
    for o in os_:
        kept = [x for x in groups[o] if rng.random() < 0.85]
        rng.shuffle(kept)
        pairs.extend(((o, x), rng.random() < 0.6) for x in kept)
    if not pairs:
        pairs = [(labels[0], True)]
    return ('boolseries_ih', pairs, 'labels', None)


def _trunc(label, unit):
    return np.datetime64(label, unit)


def gen_datetime_key(labels, kind, rng):
    lab = rng.choice(labels)
    unit = np.datetime_data(np.asarray(lab).dtype)[0]
    coarser = {'D': ['M', 'Y'], 'M': ['Y'], 's': ['D', 'M', 'h']}[unit]
    r = rng.random()
    if r < 0.2:
        return ('dtstr', str(lab))  # same resolution string -> single element
    if r < 0.3 and unit == 'D':
        return ('dateobj', lab.astype(object))
    if r < 0.55:
        cu = rng.choice(coarser)
        return ('dtstr', str(_trunc(lab, cu)))
    if r < 0.75:
        cu = rng.choice(coarser)
        return ('dt64', str(_trunc(lab, cu)), cu)
    if r < 0.85:
        k = rng.randint(1, min(3, len(labels)))
        return ('dtlabels', [str(l) for l in rng.sample(labels, k)])
    # slices: same unit bounds given as strings / dt64; coarser bounds only on ascending labels
    other = rng.choice(labels)
    lo, hi = (lab, other) if lab <= other else (other, lab)
    ascending = all(labels[i] < labels[i + 1] for i in range(len(labels) - 1))
    if ascending and rng.random() < 0.5:
        cu = rng.choice(coarser)
        return ('dtslice', ('dt64', str(_trunc(lo, cu)), cu), ('dt64', str(_trunc(hi, cu)), cu))
    pos = {l: i for i, l in enumerate(labels)}
    if pos[lo] > pos[hi]:
        lo, hi = hi, lo
    form = rng.choice(['str', 'dt64'])
    if form == 'str':
        return ('dtslice', ('dtstr', str(lo)), ('dtstr', str(hi)))
    return ('dtslice', ('dt64', str(lo), unit), ('dt64', str(hi), unit))


# --------------------------------------------------------------------------------------
# realisation

def _obj_array(items):
    a = np.empty(len(items), dtype=object)
    for i, v in enumerate(items):
        a[i] = v
    return a


def _label_array(items):
    if any(isinstance(x, tuple) for x in items):
        return _obj_array(items)
    kinds = {cs(x)[0] for x in items}
    if len(kinds) > 1:
        return _obj_array(items)
    return np.array(items) if items else np.array([], dtype=object)


def realize(desc):
    import static_frame as sf
    k = desc[0]
    if k == 'int' or k == 'label':
        return desc[1]
    if k == 'slice':
        return slice(desc[1], desc[2], desc[3])
    if k == 'list' or k == 'labels' or k == 'boollist' or k == 'dtlabels':
        return list(desc[1])
    if k == 'array':
        return np.array(desc[1], dtype=np.int64)
    if k == 'bools':
        return np.array(desc[1], dtype=bool)
    if k == 'labelarray':
        return _label_array(desc[1])
    if k == 'null':
        return slice(None)
    if k == 'lslice':
        return slice(desc[1], desc[2], desc[3])
    if k == 'boolseries':
        labs = [p[0] for p in desc[1]]
        idx = sf.Index(_label_array(labs)) if not any(isinstance(l, tuple) and False for l in labs) else None
        return sf.Series(np.array([p[1] for p in desc[1]], dtype=bool), index=_index_for(labs))
    if k == 'boolseries_ih':
        bools = np.array([p[1] for p in desc[1]], dtype=bool)
        if desc[2] == 'product':
            ih = sf.IndexHierarchy.from_product(*[list(lv) for lv in desc[3]])
        else:
            ih = sf.IndexHierarchy.from_labels([p[0] for p in desc[1]])
        return sf.Series(bools, index=ih)
    if k == 'indexkey':
        return _index_for(desc[1])
    if k == 'serieskey':
        return sf.Series(_label_array(desc[1]) if desc[1] else np.array([], dtype=object))
    if k == 'iloc':
        return sf.ILoc[realize(desc[1])]
    if k == 'dtstr':
        return desc[1]
    if k == 'dt64':
        return np.datetime64(desc[1], desc[2])
    if k == 'dateobj':
        return desc[1]
    if k == 'dtslice':
        return slice(realize(desc[1]), realize(desc[2]))
    raise KeyError(k)


def _index_for(labs):
    import static_frame as sf
    if labs and all(isinstance(l, tuple) for l in labs) and len({len(l) for l in labs}) == 1 and False:
        return sf.IndexHierarchy.from_labels(labs)
    return sf.Index(_obj_array(labs) if (any(isinstance(x, tuple) for x in labs) or len({cs(x)[0] for x in labs}) > 1) else labs)


# --------------------------------------------------------------------------------------
# list-model resolution

def resolve_positional(n, desc):
    k = desc[0]
    rng_ = list(range(n))
    if k == 'int':
        i = desc[1]
        if -n <= i < n:
            return Resolved([i % n], reduce=True)
        return Resolved(error='oob')
    if k == 'slice':
        return Resolved(rng_[slice(desc[1], desc[2], desc[3])])
    if k in ('list', 'array'):
        out = []
        for i in desc[1]:
            if not -n <= i < n:
                return Resolved(error='oob')
            out.append(i % n)
        return Resolved(out)
    if k in ('bools', 'boollist'):
        if len(desc[1]) != n:
            return Resolved(error='oob')
        return Resolved([i for i, b in enumerate(desc[1]) if b])
    if k == 'null':
        return Resolved(rng_)
    raise KeyError(k)


def _pos_map(labels):
    return {cs(l): i for i, l in enumerate(labels)}


def resolve_label(labels, desc):
    """Resolve a label descriptor against the model label list (exact canonical equality)."""
    k = desc[0]
    n = len(labels)
    pm = _pos_map(labels)
    if k == 'label':
        p = pm.get(cs(desc[1]))
        return Resolved([p], reduce=True) if p is not None else Resolved(error='absent')
    if k in ('labels', 'labelarray', 'indexkey', 'serieskey'):
        out = []
        for l in desc[1]:
            p = pm.get(cs(l))
            if p is None:
                return Resolved(error='absent')
            out.append(p)
        return Resolved(out)
    if k == 'lslice':
        a, b, step = desc[1], desc[2], desc[3]
        pa = pb = None
        if a is not None:
            pa = pm.get(cs(a))
            if pa is None:
                return Resolved(error='absent')
        if b is not None:
            pb = pm.get(cs(b))
            if pb is None:
                return Resolved(error='absent')
        if step is None or step > 0:
            st = 1 if step is None else step
            lo = 0 if pa is None else pa
            hi = n - 1 if pb is None else pb
            return Resolved(list(range(lo, hi + 1, st)))
        lo = n - 1 if pa is None else pa
        hi = 0 if pb is None else pb
        return Resolved(list(range(lo, hi - 1, step)))
    if k == 'bools':
        return resolve_positional(n, desc)
    if k in ('boolseries', 'boolseries_ih'):
        truth = {cs(l): b for l, b in desc[1]}
        return Resolved([i for i, l in enumerate(labels) if truth.get(cs(l), False)])
    if k == 'iloc':
        return resolve_positional(n, desc[1])
    if k == 'null':
        return Resolved(list(range(n)))
    if k in ('dtstr', 'dt64', 'dateobj'):
        return _resolve_dt_element(labels, desc)
    if k == 'dtlabels':
        out = []
        for text in desc[1]:
            r = _resolve_dt_element(labels, ('dtstr', text))
            if r.error or not r.reduce:
                return Resolved(judged=False)
            out.extend(r.positions)
        return Resolved(out)
    if k == 'dtslice':
        lo = _resolve_dt_element(labels, desc[1])
        hi = _resolve_dt_element(labels, desc[2])
        if not lo.positions or not hi.positions:
            # bounds at the labels' own resolution that are absent must raise; coarser bounds
            # matching nothing give an empty selection (not judged beyond "no foreign data")
            return Resolved(judged=False)
        return Resolved(list(range(min(lo.positions), max(hi.positions) + 1)))
    raise KeyError(k)


def _dt_text_unit(text):
    """Resolution of an ISO date text, by its shape (the model does not ask NumPy)."""
    if 'T' in text:
        tail = text.split('T')[1]
        return {2: 'h', 5: 'm', 8: 's'}.get(len(tail), 'ns')
    return {4: 'Y', 7: 'M', 10: 'D'}[len(text)]


def _resolve_dt_element(labels, desc):
    k = desc[0]
    if k == 'dateobj':
        text, unit = desc[1].isoformat(), 'D'
    elif k == 'dtstr':
        text, unit = desc[1], _dt_text_unit(desc[1])
    else:
        text, unit = desc[1], desc[2]
    if not labels:
        return Resolved([], judged=False)
    lunit = np.datetime_data(np.asarray(labels[0]).dtype)[0]
    # text prefix arithmetic: a label is inside the key's period iff its ISO text starts with the key text
    texts = [str(np.datetime64(l, lunit)) for l in labels]
    if unit == lunit:
        hits = [i for i, t in enumerate(texts) if t == text]
        if not hits:
            return Resolved(error='absent')
        return Resolved(hits, reduce=True)
    hits = [i for i, t in enumerate(texts) if t.startswith(text)]
    return Resolved(hits, reduce=False, judged=bool(hits))


def is_tree(tuples):
    """A sequence of equal-depth tuples is tree-shaped when, at every depth, equal prefixes
    are contiguous (what IndexHierarchy requires of its labels in the given order)."""
    if not tuples:
        return True
    depth = len(tuples[0])
    for d in range(1, depth):
        seen, prev = set(), object()
        for t in tuples:
            pre = cs(t[:d])
            if pre != prev:
                if pre in seen:
                    return False
                seen.add(pre)
                prev = pre
    return len({cs(t) for t in tuples}) == len(tuples)
