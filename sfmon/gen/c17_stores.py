"""C17 workload: table-safe FrameSpecs per store format, per-label store configurations as
plain descriptions, access histories over a tree of Buses, fault schedules.

Everything here is plain Python (picklable); real objects are built by the monitor."""
from sfmon.gen import frames as F
from sfmon.gen import labels as L

FORMATS = ['zip_pickle', 'zip_csv', 'zip_tsv', 'sqlite']
ALL_FORMATS = FORMATS + ['zip_parquet', 'xlsx', 'hdf5']
EXT = {'zip_pickle': '.zip', 'zip_csv': '.zip', 'zip_tsv': '.zip', 'sqlite': '.sqlite',
       'zip_parquet': '.zip', 'xlsx': '.xlsx', 'hdf5': '.hdf5'}
FAULTS = ['utime', 'rewrite', 'replace', 'remove']

# text-safe element pools: what a delimited / SQL table stores unambiguously for its type
# (no missing values, no quoting, nothing that parses as another type: those are C16's).
_SAFE = {
    'bool': [True, False],
    'int64': [0, 1, -1, 12, -40, 300, 70000, -70000, 2 ** 31, 7, 3, 100, -(2 ** 40)],
    'float64': [0.5, -1.5, 2.25, 1e10, 3.0, -0.25, 100.5, 0.125, 7.75, -2.0, 1.0],
    '<U5': ['a', 'b', 'ab', 'abc', 'zz', 'A', 'hello', 'cd', 'xy', 'Q', 'w', 'pqr'],
}
SAFE_DTYPES = list(_SAFE)
# (pairwise distinct ignoring case: SQL column names are case-insensitive)
_COL_STRS = ['a', 'b', 'c', 'd', 'e', 'f', 'g', 'aa', 'ab', 'Bx', 'zz', 'cc', 'p', 'q', 'r', 's', 't', 'u', 'v', 'w']
# ('j' alone is read back as the complex number 1j by the text parser: C16's ambiguity class, not generated)
_ROW_STRS = ['x', 'y', 'z', 'k', 'm', 'n', 'xx', 'yy', 'K', 'row', 'o', 'h', 'ii', 'jk']
_BUS_LABELS = ['f1', 'f2', 'alpha', 'b', 'Z', 'tab', 'g', 'mm', 'x9', 'c', 'data', 'q', 'h7', 'w', 'v1.0', 'eur.rates', 'a b', 'x-y', 'k_1']


def _tree2(n, rng):
    """Depth-2 tree labels (str outer, int inner), contiguous outer labels, ragged fan-out."""
    outer = rng.sample(['p', 'q', 'r', 's', 'T'], 5)
    out = []
    for o in outer:
        for i in rng.sample([1, 2, 3, 5, 8], rng.randint(1, 3)):
            if len(out) == n:
                return out
            out.append((o, i))
    return out[:n]


def table_spec(rng, fmt, name):
    """A FrameSpec a text / SQL table represents faithfully."""
    nr = rng.randint(1, 5)
    nc = rng.randint(1, 4)
    rk = rng.choice(['auto', 'str', 'int', 'hier2', 'str', 'negint'])
    ck = rng.choice(['str', 'str', 'str', 'hier2'])
    if rk == 'auto' and nc == 1 and fmt in ('zip_csv', 'zip_tsv'):
        # a one-column text file read with index_depth=0 raises IndexError in Frame.from_delimited under
        # NumPy 2 (single-table reading: C16's domain), so the class is not generated here
        nc = 2
    if rk == 'hier2':
        rows = _tree2(nr, rng)
    elif rk == 'str':
        rows = rng.sample(_ROW_STRS, nr)
    else:
        rows = L.flat_labels(rk, nr, rng)
    if ck == 'hier2':
        cols = [(a, b) for a, b in zip(sorted(rng.choice(['A', 'B']) for _ in range(nc)), rng.sample(_COL_STRS, nc))]
    else:
        cols = rng.sample(_COL_STRS, nc)
    nr, nc = len(rows), len(cols)
    dts = []
    while len(dts) < nc:
        dts.extend([rng.choice(SAFE_DTYPES)] * rng.choice([1, 1, 2]))
    dts = dts[:nc]
    cells = [[rng.choice(_SAFE[dts[j]]) for j in range(nc)] for _ in range(nr)]
    return F.FrameSpec(rows, cols, rk, ck, dts, cells, name)


_PICKLE_DTYPES = ['bool', 'int64', 'float64', '<U5', 'object', 'M8[D]', 'int8', 'uint8', 'float32', 'S5', 'm8[D]', 'complex128']


def pickle_spec(rng, name):
    spec = F.random_spec(rng, max_rows=4, max_cols=4, dtypes=_PICKLE_DTYPES,
                         row_kinds=['auto', 'int', 'str', 'negint', 'IndexDate', 'hier2', 'mixed', 'float', 'hier3'],
                         col_kinds=['str', 'int', 'auto', 'hier2', 'negint', 'mixed'])
    spec.name = name
    return spec


def gen_frames(rng, fmt, n):
    """n frame descriptions {'label','spec','layout'} with distinct labels (write order =
    list order, deliberately not sorted)."""
    int_labels = rng.random() < 0.15
    labels = rng.sample(range(1, 40), n) if int_labels else rng.sample(_BUS_LABELS, n)
    out = []
    for lab in labels:
        if fmt == 'zip_pickle':
            name = lab if rng.random() < 0.8 else rng.choice(['other', None, 3])
            spec = pickle_spec(rng, name)
        else:
            spec = table_spec(rng, fmt, lab)
        lays = F.layouts(spec.dtypes)
        out.append({'label': lab, 'spec': spec, 'layout': rng.choice(lays)})
    return out, ('int_encoded' if int_labels else 'str')


def config_desc(spec):
    """The read/write configuration matching one spec: {'index_depth','columns_depth',
    'include_index','include_columns'} (plain dict)."""
    idepth = 0 if spec.row_kind == 'auto' else (2 if spec.row_kind == 'hier2' else (3 if spec.row_kind == 'hier3' else 1))
    cdepth = 0 if spec.col_kind == 'auto' else (2 if spec.col_kind == 'hier2' else 1)
    return {'index_depth': idepth, 'columns_depth': cdepth, 'include_index': idepth > 0, 'include_columns': cdepth > 0}


DEFAULT_CONFIG = {'index_depth': 0, 'columns_depth': 1, 'include_index': True, 'include_columns': True}


# --------------------------------------------------------------------------------------
# histories

READ_OPS = ['loc', 'loc', 'loc_list', 'loc_slice', 'loc_bool', 'getitem', 'getitem_list', 'iloc', 'iloc', 'iloc_list',
            'iloc_slice', 'iloc_bool', 'items', 'values', 'get', 'get', 'head', 'tail', 'iter_element']
PASSIVE_OPS = ['status', 'shapes', 'nbytes', 'len', 'keys', 'iter', 'contains', 'reversed']
DERIVE_OPS = ['drop_loc', 'drop_iloc', 'reindex', 'sort_index', 'sort_index']


def gen_step(rng, labels):
    """One step against a Bus whose current labels are `labels` (the generator tracks the
    labels of every derived Bus so keys are always valid)."""
    n = len(labels)
    r = rng.random()
    if n == 0:
        op = rng.choice(['items', 'values', 'status', 'len', 'iloc_slice', 'get'])
    elif r < 0.68:
        op = rng.choice(READ_OPS)
    elif r < 0.82:
        op = rng.choice(PASSIVE_OPS)
    else:
        op = rng.choice(DERIVE_OPS)
    if op in ('loc', 'getitem'):
        return {'op': op, 'label': rng.choice(labels)}
    if op in ('loc_list', 'getitem_list', 'reindex'):
        k = rng.randint(0 if op != 'reindex' else 1, n)
        return {'op': op, 'labels': rng.sample(labels, k)}
    if op == 'loc_slice':
        i, j = sorted((rng.randrange(n), rng.randrange(n)))
        return {'op': op, 'start': rng.choice([None, labels[i]]), 'stop': rng.choice([None, labels[j]])}
    if op in ('loc_bool', 'iloc_bool'):
        mode = rng.random()
        bs = [True] * n if mode < 0.15 else ([False] * n if mode < 0.25 else [rng.random() < 0.5 for _ in range(n)])
        return {'op': op, 'mask': bs}
    if op == 'iloc':
        return {'op': op, 'pos': rng.randrange(-n, n)}
    if op in ('iloc_list', 'drop_iloc'):
        k = rng.randint(0, n if op == 'iloc_list' else max(0, n - 1))
        return {'op': op, 'positions': rng.sample(range(n), k)}
    if op == 'iloc_slice':
        bounds = [None] + list(range(-n, n + 1))
        return {'op': op, 'slice': (rng.choice(bounds), rng.choice(bounds), rng.choice([None, None, 1, -1, 2]))}
    if op == 'get':
        if n and rng.random() < 0.85:
            return {'op': op, 'label': rng.choice(labels), 'present': True}
        return {'op': op, 'label': 'no-such-label', 'present': False}
    if op in ('head', 'tail'):
        return {'op': op, 'count': rng.randint(1, max(1, n))}
    if op == 'contains':
        return {'op': op, 'label': rng.choice(labels + ['no-such-label'])}
    if op == 'drop_loc':
        return {'op': op, 'labels': rng.sample(labels, rng.randint(0, max(0, n - 1)))}
    if op == 'sort_index':
        return {'op': op, 'ascending': rng.random() < 0.6}
    return {'op': op}


def result_labels(step, labels):
    """Labels of the Bus a step returns (None when it returns no Bus): list-model
    resolution written from the documented key semantics."""
    op, n = step['op'], len(labels)
    if op in ('loc_list', 'getitem_list', 'reindex'):
        return list(step['labels'])
    if op == 'loc_slice':
        a = 0 if step['start'] is None else labels.index(step['start'])
        b = n - 1 if step['stop'] is None else labels.index(step['stop'])
        return labels[a:b + 1]  # label slices include their stop
    if op in ('loc_bool', 'iloc_bool'):
        return [l for l, m in zip(labels, step['mask']) if m]
    if op == 'iloc_list':
        return [labels[p] for p in step['positions']]
    if op == 'iloc_slice':
        return labels[slice(*step['slice'])]
    if op == 'head':
        return labels[:step['count']]
    if op == 'tail':
        return labels[-step['count']:]
    if op == 'drop_loc':
        return [l for l in labels if l not in step['labels']]
    if op == 'drop_iloc':
        return [l for i, l in enumerate(labels) if i not in step['positions']]
    if op == 'sort_index':
        return sorted(labels, reverse=not step['ascending'])
    return None


def gen_history(rng, root_labels, n_steps, fault_p):
    """Steps over a growing list of Buses (0 = the Bus opened on the store; each step that
    returns a Bus appends it) and at most one fault, placed before some step."""
    buses = [list(root_labels)]
    steps = []
    for _ in range(n_steps):
        # prefer the root and recent derivations
        if len(buses) == 1 or rng.random() < 0.5:
            ref = 0
        else:
            ref = rng.randrange(len(buses))
        step = gen_step(rng, buses[ref])
        step['bus'] = ref
        steps.append(step)
        out = result_labels(step, buses[ref])
        if out is not None:
            buses.append(out)
    fault = None
    if rng.random() < fault_p and n_steps:
        fault = {'before': rng.randrange(0, n_steps), 'kind': rng.choice(FAULTS)}
    return steps, fault


def gen_case(rng, fmt=None, n=None, max_persist='random', steps=None, fault_p=0.35):
    fmt = fmt or rng.choice(FORMATS)
    n = n or rng.randint(1, 6)
    frames, label_kind = gen_frames(rng, fmt, n)
    if max_persist == 'random':
        max_persist = None if rng.random() < 0.3 else rng.randint(1, n)
    n_steps = steps if steps is not None else rng.randint(3, 15)
    labels = [f['label'] for f in frames]
    hist, fault = gen_history(rng, labels, n_steps, fault_p)
    config_mode = 'none' if fmt == 'zip_pickle' and rng.random() < 0.5 else rng.choice(['per_label', 'per_label', 'per_label_with_default'])
    return {'fmt': fmt, 'frames': frames, 'label_kind': label_kind, 'max_persist': max_persist, 'config_mode': config_mode,
            'steps': hist, 'fault': fault, 'export': rng.random() < 0.25}
