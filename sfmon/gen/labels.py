"""Label pools and index construction (DESIGN 3.3)."""
import datetime
import itertools

import numpy as np

FLAT_KINDS = ['int', 'str', 'float', 'bool', 'tuple', 'dateobj', 'dt64', 'mixed', 'negint', 'range']
INDEX_KINDS = ['auto', 'int', 'str', 'float', 'mixed', 'IndexDate', 'IndexYearMonth', 'IndexSecond', 'hier2', 'hier3', 'negint', 'range', 'tuple', 'bool']

_STRS = ['a', 'b', 'c', 'd', 'e', 'f', 'g', 'aa', 'ab', 'B', 'x y', '', 'zz', 'cc', '10', 'p', 'q', 'r', 's', 't',
         'u', 'v', 'w', 'x', 'y', 'z', 'k1', 'k2', 'k3', 'k4', 'k5', 'k6', 'k7', 'k8', 'k9']
_FLOATS = [0.5, -1.5, 2.25, 1e10, 3.0, -0.25, 100.5, 7.75, 1.0, 2.0, 8.5, 9.5, 10.5, 11.5, 12.5, 13.5, 0.0, -2.0,
           4.0, 5.0, 6.0, 20.0, 21.0, 22.0, 23.5, 24.5, 25.5, 26.5, 27.5, 28.5, 29.5, 30.5, 31.5, 32.5, 33.5, 34.5]
_MIXED = [1, 'a', 2.5, (1, 2), 'b', -3, ('x', 1), 10, 'c', 4.5, datetime.date(2020, 1, 1), 'd', 7, 8, 9,
          'e', 'f', 11, 12, 'g', 'h', 13, 14, 'i', 15, 'j', 16, 'k', 17, 'l', 18, 'm', 19, 'n']


def flat_labels(kind, n, rng):
    """n pairwise-distinct labels of one kind (fewer if the kind cannot supply n)."""
    if kind == 'range' or kind == 'auto':
        return list(range(n))
    if kind == 'int':
        return rng.sample(range(0, 60), n)
    if kind == 'negint':
        return rng.sample(range(-30, 30), n)
    if kind == 'str':
        return rng.sample(_STRS, min(n, len(_STRS)))
    if kind == 'float':
        return rng.sample(_FLOATS, min(n, len(_FLOATS)))
    if kind == 'bool':
        return rng.sample([True, False], min(n, 2))
    if kind == 'tuple':
        pool = [(a, b) for a in (1, 2, 3, 'x', 4, 5) for b in ('a', 'b', 0, 1, 'c', 2)]
        return rng.sample(pool, min(n, len(pool)))
    if kind == 'dateobj':
        base = datetime.date(2020, 1, 1)
        return [base + datetime.timedelta(days=d) for d in rng.sample(range(0, 400), n)]
    if kind in ('dt64', 'IndexDate'):
        return [np.datetime64('2019-12-25') + np.timedelta64(d, 'D') for d in sorted(rng.sample(range(0, 100), n))] \
            if rng.random() < 0.6 else \
            [np.datetime64('2019-12-25') + np.timedelta64(d, 'D') for d in rng.sample(range(0, 100), n)]
    if kind == 'IndexYearMonth':
        return [np.datetime64('2019-10') + np.timedelta64(d, 'M') for d in rng.sample(range(0, 48), n)]
    if kind == 'IndexSecond':
        return [np.datetime64('2020-01-01T00:00:00') + np.timedelta64(d * 1800, 's') for d in rng.sample(range(0, 200), n)]
    if kind == 'mixed':
        return rng.sample(_MIXED, min(n, len(_MIXED)))
    raise KeyError(kind)


def tree_labels(depth, n_leaves, rng, datetime_level=False):
    """A tree-shaped (contiguous outer labels) list of distinct tuples with ragged fan-out
    and repeated inner labels under different parents."""
    pools = [
        ['A', 'B', 'C', 'D'],
        [1, 2, 3, 4, 5],
        ['x', 'y', 'z', 'w'],
        [10, 20, 30],
    ]
    rng.shuffle(pools)
    pools = pools[:depth]
    if datetime_level:
        d = rng.randrange(depth)
        pools[d] = [np.datetime64('2020-01-01') + np.timedelta64(i, 'D') for i in range(4)]
    out = []

    def grow(prefix, level, budget):
        # choose an ordered subset of the pool for this node's children
        pool = pools[level]
        k = rng.randint(1, len(pool))
        kids = rng.sample(pool, k)
        for i, kid in enumerate(kids):
            if len(out) >= n_leaves:
                return
            if level == depth - 1:
                out.append(prefix + (kid,))
            else:
                grow(prefix + (kid,), level + 1, budget)

    while len(out) < n_leaves:
        before = len(out)
        # restart with outer labels not yet used to keep the tree contiguous
        used = {t[0] for t in out}
        pool0 = [p for p in pools[0] if p not in used]
        if not pool0:
            break
        outer = rng.choice(pool0)
        if depth == 1:
            out.append((outer,))
        else:
            grow((outer,), 1, n_leaves)
        if len(out) == before:
            break
    return out[:n_leaves]


def labels_for(kind, n, rng):
    if kind == 'hier2':
        return tree_labels(2, n, rng)
    if kind == 'hier3':
        return tree_labels(3, n, rng)
    if kind == 'hier2dt':
        return tree_labels(2, n, rng, datetime_level=True)
    return flat_labels(kind, n, rng)


def build_index(kind, labels, name=None, go=False):
    """Index object of the requested kind holding `labels` (None for auto)."""
    import static_frame as sf
    if kind == 'auto':
        return None
    if kind.startswith('hier'):
        cls = sf.IndexHierarchyGO if go else sf.IndexHierarchy
        depth = int(kind[4]) if len(kind) > 4 and kind[4].isdigit() else 2
        return cls.from_labels(labels, name=name, depth_reference=depth)
    if kind in ('IndexDate', 'IndexYearMonth', 'IndexSecond'):
        cls = getattr(sf, kind + ('GO' if go else ''))
        return cls(labels, name=name)
    cls = sf.IndexGO if go else sf.Index
    if kind in ('tuple', 'mixed', 'dateobj'):
        a = np.empty(len(labels), dtype=object)
        for i, v in enumerate(labels):
            a[i] = v
        return cls(a, name=name)
    return cls(labels, name=name)


def kind_is_hier(kind):
    return kind.startswith('hier')


def product_growth(depth, rng, n_steps=6):
    """pools for IndexHierarchy.from_product (depth levels) and a list of tuples that can be appended afterwards in tree
    order: new leaves under the last branch, new middle branches under the last outer label, new outer labels."""
    base = [['a', 'b', 'c'], [1, 2, 3], ['x', 'y', 'z'], [10, 20]]
    pools = [base[d][:rng.randint(1, 3) if d < 3 else 2] for d in range(depth)]
    import itertools
    model = list(itertools.product(*pools))
    appended = []
    counter = 0
    cur = list(model)
    for _ in range(n_steps):
        last = cur[-1]
        d = rng.randrange(depth)  # the depth at which the new tuple departs from the last one
        counter += 1
        fresh = [f'n{counter}' if isinstance(last[k], str) else 1000 + counter for k in range(depth)]
        new = tuple(last[:d]) + (fresh[d],) + tuple(pools[k][0] for k in range(d + 1, depth))
        appended.append(new)
        cur.append(new)
    return pools, model, appended
