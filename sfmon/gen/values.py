"""dtype-kind pools and hostile element pools (DESIGN 3.3).  Pure functions of a
random.Random; no global state."""
import datetime

import numpy as np

NAN = float('nan')

# dtype string -> pool of Python-level elements that np.array(..., dtype) stores exactly
_INT_EDGES = {
    'int8': [0, 1, -1, 127, -128, 5, -7],
    'int16': [0, 1, -1, 32767, -32768, 300, -300],
    'int32': [0, 1, -1, 2**31 - 1, -2**31, 70000, -70000],
    'int64': [0, 1, -1, 2**53 + 1, -(2**53) - 1, 2**63 - 1, -2**63, 2**53 - 1, 12, -40, 3, 7, 100],
    'uint8': [0, 1, 255, 250, 3, 128],
    'uint64': [0, 1, 2**64 - 1, 2**63, 2**53 + 1, 9, 77],
}
_FLOATS = [0.0, -0.0, 1.0, -1.0, 1.5, -2.25, 1e10, -1e-10, 3.0, 0.1, 100.0, float('inf'), float('-inf'), NAN]
_FLOATS16 = [0.0, 1.0, -1.0, 1.5, -2.25, 0.5, 3.0, 100.0, float('inf'), NAN]
_FLOATS32 = [0.0, 1.0, -1.0, 1.5, -2.25, 0.5, 3.0, 1024.0, float('-inf'), NAN]
_STR = ['', ' ', 'a', 'b', 'ab', 'abc', 'a,b', 'q"t', ' x', 'x ', '12', '1.5', 'True', 'None', 'nan',
        'zz', 'A', 'hello', 'c d']
_BYTES = [b'', b'a', b'b', b'ab', b'xyz', b'12', b'hello']

DTYPE_POOLS = {
    'bool': [True, False],
    **_INT_EDGES,
    'float16': _FLOATS16, 'float32': _FLOATS32, 'float64': _FLOATS,
    'complex128': [0j, 1 + 2j, -1.5j, complex(NAN, 0), 3 + 0j, complex(1, -1)],
    '<U1': [s for s in _STR if len(s) <= 1],
    '<U5': [s for s in _STR if len(s) <= 5],
    '<U20': _STR + ['a much longer string'],
    'S1': [b for b in _BYTES if len(b) <= 1],
    'S5': [b for b in _BYTES if len(b) <= 5],
    'M8[Y]': ['2020', '1999', '2001', 'NaT', '1970'],
    'M8[M]': ['2020-01', '1999-12', '2001-06', 'NaT'],
    'M8[D]': ['2020-01-01', '1999-12-31', '2001-06-15', '2020-01-02', 'NaT', '1970-01-01'],
    'M8[s]': ['2020-01-01T00:00:00', '1999-12-31T23:59:59', '2001-06-15T12:30:00', 'NaT'],
    'M8[ns]': ['2020-01-01T00:00:00.000000001', '1999-12-31T23:59:59.999999999', 'NaT', '2001-06-15T12:30:00'],
    'm8[D]': [0, 1, -1, 365, 'NaT'],
    'm8[s]': [0, 1, -1, 86400, 'NaT'],
    'object': [None, NAN, 1, 'a', True, 2.5, 'b', 0, False, '', 2**70, b'x'],
}

OBJECT_WITH_TUPLE = DTYPE_POOLS['object'] + [(1, 2)]
ALL_DTYPES = list(DTYPE_POOLS)
NUMERIC = ['bool', 'int8', 'int16', 'int32', 'int64', 'uint8', 'uint64', 'float16', 'float32', 'float64', 'complex128']
COMMON = ['bool', 'int64', 'float64', '<U5', 'object', 'M8[D]', 'int8', 'uint8', 'float32', '<U1', 'S5', 'm8[D]', 'complex128']
SIMPLE = ['bool', 'int64', 'float64', '<U5']


def element(dt, rng, missing_ok=True):
    """One Python/numpy element that dtype `dt` stores exactly."""
    pool = DTYPE_POOLS[dt]
    for _ in range(20):
        v = rng.choice(pool)
        if not missing_ok and (v is None or v == 'NaT' or (isinstance(v, (float, complex)) and v != v)):
            continue
        break
    else:
        raise RuntimeError(dt)
    return normalize(dt, v)


def normalize(dt, v):
    """Map the pool's literal to the element as the array will hold it."""
    if dt[:2] in ('M8', 'm8'):
        return np.array(v, dtype=dt)[()]
    if dt == 'object':
        return v
    return np.array(v, dtype=dt)[()].item() if dt not in ('float16', 'float32') else float(np.array(v, dtype=dt)[()])


def column(dt, n, rng, missing_ok=True, distinct=False):
    out = []
    for _ in range(n):
        out.append(element(dt, rng, missing_ok))
    return out


def to_array(values, dt):
    """Build the 1-D array holding exactly these elements with dtype dt."""
    if dt == 'object':
        a = np.empty(len(values), dtype=object)
        for i, v in enumerate(values):
            a[i] = v
        return a
    a = np.array(values, dtype=dt) if len(values) else np.empty(0, dtype=dt)
    return a


def has_missing(values):
    from sfmon.canon import is_missing
    return any(is_missing(v) for v in values)


# ints / floats for arithmetic workloads (no overflow surprises)
SMALL_INTS = [0, 1, -1, 2, 3, -4, 7, 10, 100, -25]
SMALL_FLOATS = [0.0, 1.0, -1.0, 0.5, 2.5, -3.75, 10.0, NAN]


def dates(n, start=datetime.date(2020, 1, 1), step=1):
    return [start + datetime.timedelta(days=i * step) for i in range(n)]
