"""C16: text alphabet, the *ambiguity classifier* and table generators for delimited round trips.

The property only claims cells "whose text is unambiguous for their type".  The classifier
below is the deterministic reading of that clause used by the C16 monitor.  It is written
from the statement (what a reader of delimited text can or cannot tell), not from the
import code:

* `text_class(t, aliases)` sorts one str into
    'control'    contains a character other than ' ' that is whitespace / a control
                 character / a line or paragraph separator (newline, CR, tab, ...): never
                 generated, never judged;
    'empty'      the empty string: indistinguishable from a missing cell, so it is only
                 in scope when the frame holds no missing value at all, and is then read
                 back with `store_filter=None` (the matching configuration);
    'alias'      equals one of the spellings the *active* StoreFilter decodes to NaN / None /
                 +-inf ('nan', 'NaN', 'NULL', '#N/A', 'None', 'inf', '-inf', ...);
    'blank'      spaces only: readable as a str next to a plain text, but it cannot decide a
                 column's type (a reader may take it for padding);
    'lookalike'  Python's own bool-word / int() / float() / complex() accept it (after
                 stripping), or it is a prefixed int / hex-float literal, e.g. '12', ' 7', '1.5', '1e5',
                 '1_000', 'True', 'infinity', '1j', '0x1F';
    'plain'      everything else: a text that can only be a str.
* a str **cell column** (data column or one index depth) is in scope iff it has no
  control / alias cell, has an 'empty' cell only under the no-missing rule above, and at
  least one 'plain' cell (the column's type is then decidable as str; 'lookalike' and
  'blank' cells next to a plain one are unambiguous *in that column*).  A column whose every text is
  empty carries no type information: for str columns it is out of scope, for missing
  values (NaN) it stays in scope because the statement names missing values explicitly.
* a **header label or axis name** stands alone in its row, so every str label / name must
  itself be 'plain'.
* ints must fit int64; floats are float64 (their `repr` text is exact); each label level is
  all-int or all-str.
"""
import numpy as np

DELIMITERS = [',', '\t', '|', ';']
QUOTES = ['"', "'"]

# the spellings the default StoreFilter decodes (store_filter.py:91-95); '' handled as 'empty'
DEFAULT_ALIASES = frozenset(('nan', 'NaN', 'NAN', 'NULL', '#N/A', 'None', 'inf', '-inf'))

_BOOL_WORDS = frozenset(('TRUE', 'FALSE'))


def _parses(t):
    s = t.strip()
    if s.upper() in _BOOL_WORDS:
        return True
    for fn in (int, float, complex, _int_literal, _hex_float):
        try:
            fn(s)
            return True
        except (ValueError, OverflowError):
            pass
    return False


def _int_literal(s):
    return int(s, 0)  # 0x1F, 0o17, 0b101


def _hex_float(s):
    if s.lstrip('+-')[:2].lower() != '0x':
        raise ValueError(s)
    return float.fromhex(s)


def text_class(t, aliases=DEFAULT_ALIASES):
    if t == '':
        return 'empty'
    for ch in t:
        if ch != ' ' and (ch.isspace() or not ch.isprintable()):
            return 'control'
    if t.strip(' ') == '':
        return 'blank'
    if t in aliases:
        return 'alias'
    if _parses(t):
        return 'lookalike'
    return 'plain'


def str_column_scope(texts, aliases, empty_ok):
    """None when a column of str cells is in scope, else the reason it is not."""
    plain = False
    for t in texts:
        c = text_class(t, aliases)
        if c in ('control', 'alias'):
            return c
        if c == 'empty' and not empty_ok:
            return 'empty_with_missing'
        plain = plain or c == 'plain'
    if texts and not plain:
        return 'no_plain_text'
    return None


def label_scope(label, aliases):
    if isinstance(label, (bool, np.bool_)):
        return 'bool_label'
    if isinstance(label, (int, np.integer)):
        return None if -2**63 <= int(label) < 2**63 else 'int_outside_int64'
    if isinstance(label, str):
        c = text_class(label, aliases)
        return None if c == 'plain' else f'label_{c}'
    return 'label_type'


# --------------------------------------------------------------------------------------
# pools

PLAIN = ['a', 'b', 'ab', 'abc', 'x y', ' x', 'x ', ' ', 'a,b', ',', ',,', 'q"t', '"', '""', 'a"', '"a"', '"a', ' "a" ',
         'a;b', ';', 'a|b', '|', "it's", "'", "'a'", "a''b", 'A', 'hello', 'c d', 'zz', 'k1', '1a', '1-2', '1,5', '12 ab',
         'x12', '#c', '#', 'é', '日本', 'a b c', '","', '1 2', '--', '.', '-', '+', 'e5', 'Tru', 'no', 'yes', 'a=b', '\\',
         'a\\b', '\\"', 'N/A', 'na', 'null', 'none', 'a much longer text, with "quotes" and; more', '1.2.3',
         '2020-01-01', '12:30', '$5', '5%', '(1)', '1/2', 'True!', 'x,y;z|w']
LOOKALIKE = ['12', '1.5', '-3', '1e5', 'True', 'False', 'true', 'TRUE', ' 7', '7 ', '0', '1', '1_000', 'infinity', '1j', '007',
             '+4', '.5', '5.', '-0.0', '1E-3', 'Infinity', '9223372036854775808', '-inf ', '0x1F']
ALIASES = ['nan', 'NaN', 'NAN', 'NULL', '#N/A', 'None', 'inf', '-inf']

INTS64 = [0, 1, -1, 2, 7, 12, -40, 100, 1000000, -123456789, 2**31, 2**53 + 1, -(2**53) - 1, 2**63 - 1, -2**63, 2**62]
INTS_SMALL = {'int8': [0, 1, -1, 127, -128, 5], 'int32': [0, 1, -1, 2**31 - 1, -2**31, 70000], 'int16': [0, -1, 32767, -32768, 300]}
FLOATS = [0.0, -0.0, 1.0, -1.0, 1.5, -2.25, 1e10, -1e-10, 0.1, 1e22, 1e300, -1e300, 5e-324, 1.7976931348623157e308,
          123456789.123, 9007199254740992.0, 3.0, 100.0, 2.5e-5, 1 / 3, float('inf'), float('-inf')]
NAN = float('nan')

LABEL_STR = ['a', 'b', 'c', 'd', 'e', 'aa', 'ab', 'B', 'x y', ' lead', 'trail ', 'a,b', ',', 'q"t', '"', '"q"', "it's", 'a;b',
             'a|b', 'k1', 'k2', '1a', 'x12', '#c', 'é', 'col', 'p', 'q', 'r', 's', 'a b c', '1-2', 'Tru', 'none', '__index0__',
             'zz', 'A', 'hello', "'", 'w"w"', ';', '|']
LABEL_INT = [0, 1, 2, 3, 5, 10, 20, 30, -1, -7, 100, 2**40, -2**31, 2**63 - 1, 11, 12, 13, 42]
NAME_STR = ['in', 'idx', 'n a', 'n,m', 'n"m', 'key', 'K', 'c1', 'c2', 'i1', 'i2', 'i3', "o'k", 'n;m']

COLTYPES = ['bool', 'int64', 'float64', 'str', 'str', 'strobj', 'int8', 'int32']


def _distinct(pool, n, rng):
    return rng.sample(pool, min(n, len(pool)))


def flat_labels(rng, n, kind=None):
    kind = kind or rng.choice(['str', 'str', 'int', 'range'])
    if kind == 'range':
        return 'int', list(range(n))
    if kind == 'int':
        return 'int', _distinct(LABEL_INT, n, rng)
    return 'str', _distinct(LABEL_STR, n, rng)


def tree_labels(rng, depth, n):
    """n distinct depth-tuples in tree order (equal outer labels contiguous at every level);
    every level all-int or all-str; inner labels repeat under different parents."""
    pools = []
    for _ in range(depth):
        k = rng.choice(['str', 'int'])
        pools.append(_distinct(LABEL_STR if k == 'str' else LABEL_INT, rng.randint(2, 4), rng))
    out = []

    def grow(prefix, level):
        kids = _distinct(pools[level], rng.randint(1, len(pools[level])), rng)
        for kid in kids:
            if len(out) >= n:
                return
            if level == depth - 1:
                out.append(prefix + (kid,))
            else:
                grow(prefix + (kid,), level + 1)

    grow((), 0)
    return out[:n]


def axis_labels(rng, depth, n):
    """(kind, labels): kind is 'int'/'str' for depth 1 (FrameSpec kinds), 'hier<d>' above."""
    if depth == 1:
        return flat_labels(rng, n)
    labels = tree_labels(rng, depth, n)
    return f'hier{depth}', labels


def gen_cells(rng, coltype, n, allow_missing, allow_empty, width_cap=None):
    if coltype == 'bool':
        return [rng.random() < 0.5 for _ in range(n)]
    if coltype == 'int64':
        return [rng.choice(INTS64) for _ in range(n)]
    if coltype in INTS_SMALL:
        return [rng.choice(INTS_SMALL[coltype]) for _ in range(n)]
    if coltype == 'float64':
        out = []
        p_nan = rng.choice([0.0, 0.2, 0.5, 0.9]) if allow_missing else 0.0
        for _ in range(n):
            out.append(NAN if rng.random() < p_nan else rng.choice(FLOATS))
        return out
    if coltype == 'str':
        p_look = rng.choice([0.0, 0.0, 0.3])
        p_empty = rng.choice([0.0, 0.3, 0.6]) if allow_empty else 0.0
        out = []
        for _ in range(n):
            r = rng.random()
            if r < p_empty:
                out.append('')
            elif r < p_empty + p_look:
                out.append(rng.choice(LOOKALIKE))
            else:
                out.append(rng.choice(PLAIN))
        if n and not any(text_class(t) == 'plain' for t in out):
            out[rng.randrange(n)] = rng.choice(PLAIN)
        return out
    if coltype == 'strobj':  # str cells with missing values: object dtype
        p_miss = rng.choice([0.3, 0.6, 1.0])
        out = []
        for _ in range(n):
            if rng.random() < p_miss:
                out.append(None if rng.random() < 0.5 else NAN)
            else:
                out.append(rng.choice(PLAIN))
        if n and not any(x is None or x != x for x in out if not isinstance(x, str)):
            out[rng.randrange(n)] = None
        return out
    raise KeyError(coltype)


def gen_table(rng, max_rows=5, max_cols=5):
    """(FrameSpec, coltypes): str columns share one '<U{w}' dtype so that adjacent ones can be
    consolidated by a layout; 'strobj' columns (str cells with None/NaN) have dtype object."""
    from sfmon.gen.frames import FrameSpec
    nr = rng.choice([n for n in (0, 1, 1, 2, 2, 3, 3, 4, 5, 6, 8) if n <= max_rows])
    nc = rng.choice([n for n in (1, 1, 2, 2, 3, 3, 4, 5, 6) if n <= max_cols]) if rng.random() < 0.97 else 0
    idepth = rng.choice([1, 1, 1, 2, 2, 3])
    cdepth = rng.choice([1, 1, 1, 2])
    row_kind, rows = axis_labels(rng, idepth, nr)
    col_kind, cols = axis_labels(rng, cdepth, nc)
    nr, nc = len(rows), len(cols)
    allow_empty = rng.random() < 0.25
    allow_missing = not allow_empty
    coltypes = []
    while len(coltypes) < nc:
        ct = rng.choice(COLTYPES)
        if ct == 'strobj' and not allow_missing:
            ct = 'str'
        coltypes.extend([ct] * rng.choice([1, 1, 2, 3]))
    coltypes = coltypes[:nc]
    columns = [gen_cells(rng, ct, nr, allow_missing, allow_empty) for ct in coltypes]
    width = max([len(t) for ct, col in zip(coltypes, columns) if ct == 'str' for t in col] + [1])
    dtypes = [f'<U{width}' if ct == 'str' else ('object' if ct == 'strobj' else ct) for ct in coltypes]
    cells = [[columns[j][i] for j in range(nc)] for i in range(nr)]
    return FrameSpec(rows, cols, row_kind, col_kind, dtypes, cells, None), coltypes
