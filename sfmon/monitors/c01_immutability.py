"""C01 — immutability: no public call changes an existing static container; every array obtainable
is read-only; caller-supplied arrays are copied or already read-only; pickle/deepcopy/copy keep
content and read-only status."""
import copy
import inspect
import io
import pickle

import numpy as np

from sfmon import canon
from sfmon.canon import cs
from sfmon.gen import frames as F
from sfmon.gen import keys as K
from sfmon.gen import labels as L
from sfmon.gen import values as V

PROPERTY = 'C01'
RULE = ('cases: (a) call histories — a container (Series, Frame, FrameHE, SeriesHE, Index, IndexGO-free static index classes, '
        'IndexDate, IndexHierarchy) built from a spec and block layout, then <= 6 public attributes (every name in dir(instance), '
        'including selector / iterator / accessor interfaces) applied with synthesized arguments to the pool of live containers, '
        'results joining the pool; after EVERY call (returning or raising) all live containers are re-snapshotted and every array '
        'reachable from the result is checked read-only; (b) caller-alias probes — constructors and operations that accept an '
        'array get a writeable one, which is then overwritten; (c) pickle / deepcopy / copy round trips. non-trivial = the call '
        'executed library code on a non-empty container; distinct = hash of (class, attribute, argument draw, spec)')
EXPLANATION = 'interface_coverage in the breakdown lists attribute names exercised / raising / not exercised per class'
EXHAUSTIVE = {'quick': False, 'thorough': False}
ASSUMPTIONS = ['snapshots read public observations only', 'own_data/own_index/own_columns=True are explicit ownership transfers and are never passed',
               'foreign exports (to_pandas, to_xarray, to_arrow, masked arrays) are only required not to share memory with the container',
               'file / network / clipboard / optional-dependency exporters and importers are not called']
TIERS = {'quick': {'shards': 8, 'budget_s': 150, 'min_nontrivial': 30000},
         'thorough': {'shards': 16, 'budget_s': 1500, 'min_nontrivial': 400000}}
ANCHORS = {
    'static_frame.core.util': ['immutable_filter', 'iterable_to_array_1d', 'iterable_to_array_2d', 'array_deepcopy', 'array_shift', 'ufunc_unique',
                               'isin', 'array_to_duplicated', 'concat_resolved', 'full_for_fill', 'argmin_1d'],
    'static_frame.core.type_blocks': ['TypeBlocks.from_blocks', 'TypeBlocks.append', 'TypeBlocks.__setstate__', 'TypeBlocks.__deepcopy__', 'TypeBlocks._shift_blocks',
                                      'TypeBlocks._ufunc_blocks', 'TypeBlocks.__round__', 'TypeBlocks.consolidate_blocks'],
    'static_frame.core.index': ['Index.__init__', 'Index.__setstate__', 'Index.__deepcopy__'],
    'static_frame.core.index_hierarchy': ['IndexHierarchy.__setstate__', 'IndexHierarchy.__deepcopy__', 'IndexHierarchy.isin'],
    'static_frame.core.series': ['Series.__init__', 'Series.__setstate__', 'Series.__deepcopy__'],
    'static_frame.core.frame': ['Frame.__init__', 'Frame.__setstate__', 'Frame.__deepcopy__', 'Frame.from_items', 'Frame.from_fields', 'Frame.from_concat'],
}
REQUIRED_ANCHORS = ['util.immutable_filter', 'util.iterable_to_array_1d', 'type_blocks.TypeBlocks.from_blocks', 'type_blocks.TypeBlocks.__setstate__',
                    'index.Index.__setstate__', 'util.array_deepcopy', 'series.Series.__init__', 'frame.Frame.__init__']

_DTYPES = ['bool', 'int64', 'float64', '<U5', 'object', 'M8[D]', 'int8', 'float32', 'complex128']
_SKIP = {'to_xlsx', 'to_hdf5', 'to_parquet', 'to_sqlite', 'to_clipboard', 'to_msgpack', 'to_arrow', 'to_xarray', 'to_pandas', 'interface', 'display_tall',
         'display_wide', 'to_html_datatables', 'mloc', 'memory', 'sample', 'from_pandas', 'to_visidata', 'to_npz', 'to_npy'}
_FOREIGN = {'masked_array'}
_CLASSES = ['Series', 'Frame', 'FrameHE', 'SeriesHE', 'Index', 'IndexDate', 'IndexHierarchy', 'IndexYearMonth']


TECHNIQUE = 'runtime monitoring: call-history checker (random public-interface histories; after every call every live container is re-snapshotted incl. label lookups, and every reachable array is probed for writeability) + caller-alias, grow-only-alias and pickle/deepcopy probes'


def probes(ctx):
    return [{'t': 'history', 'cls': 'Index', 'kind': 'int', 'labels': [1, 5, 9], 'seed': 1, 'ncalls': 1, 'attrs': ['iloc_searchsorted']}]


def generate(ctx):
    rng = ctx.rng
    for _ in range(ctx.n(36000, 600000)):
        r = rng.random()
        if r < 0.68:
            cls = rng.choice(_CLASSES)
            case = {'t': 'history', 'cls': cls, 'seed': rng.randrange(1 << 30), 'ncalls': rng.randint(1, 6)}
            if cls in ('Frame', 'FrameHE'):
                case['spec'] = F.random_spec(rng, max_rows=4, max_cols=5, dtypes=_DTYPES, row_kinds=['auto', 'str', 'int', 'IndexDate', 'hier2'],
                                             col_kinds=['str', 'int', 'auto', 'hier2'])
                case['layout'] = rng.choice(F.layouts(case['spec'].dtypes))
            elif cls in ('Series', 'SeriesHE'):
                case['spec'] = F.random_series_spec(rng, max_n=6, dtypes=_DTYPES, kinds=['auto', 'str', 'int', 'IndexDate', 'hier2', 'mixed'])
            elif cls == 'IndexHierarchy':
                case['labels'] = L.tree_labels(rng.choice([2, 3]), rng.choice([1, 2, 4, 6]), rng)
                if not case['labels']:
                    continue
            elif cls == 'IndexDate':
                case['labels'] = L.flat_labels('IndexDate', rng.randint(0, 6), rng)
            elif cls == 'IndexYearMonth':
                case['labels'] = L.flat_labels('IndexYearMonth', rng.randint(0, 6), rng)
            else:
                k = rng.choice(['int', 'str', 'float', 'mixed', 'range', 'dt64', 'tuple'])
                case['kind'] = k
                case['labels'] = L.flat_labels(k, rng.randint(0, 6), rng)
            yield case
        elif r < 0.70:
            # a grow-only container derived from an immutable one is grown: the immutable source must read as before
            yield {'t': 'static_to_go', 'src': rng.choice(['Frame', 'FrameHE', 'FrameHE', 'Index', 'IndexHierarchy', 'IndexDate']), 'route': rng.randrange(6),
                   'n': rng.randint(1, 4), 'grow': rng.randint(1, 3), 'read_first': rng.random() < 0.5}
        elif r < 0.705:
            # state shared by all indices of the process (the positions allocator) after a large index has been built
            yield {'t': 'positions_after_large_index', 'n_large': rng.choice([1025, 1500, 2049, 5000]), 'n_small': rng.randint(1, 5)}
        elif r < 0.76:
            # an immutable container derived from a grow-only one must not see the growth that follows
            yield {'t': 'go_alias', 'src': rng.choice(['IndexGO', 'IndexGO', 'IndexDateGO', 'FrameGO', 'FrameGO', 'IndexHierarchyGO']),
                   'route': rng.randrange(8), 'kind': rng.choice(['str', 'int', 'str']), 'n': rng.randint(1, 4), 'grow': rng.randint(1, 3),
                   'read_first': rng.random() < 0.5}
        elif r < 0.88:
            yield {'t': 'alias', 'site': rng.choice(ALIAS_SITES), 'dt': rng.choice(['int64', 'float64', 'bool', '<U5', 'object', 'M8[D]']),
                   'n': rng.randint(1, 5), 'seed': rng.randrange(1 << 30), 'readonly_input': rng.random() < 0.15}
        else:
            cls = rng.choice(_CLASSES + ['FrameGO', 'IndexGO', 'IndexHierarchyGO', 'Bus'])
            case = {'t': 'serialize', 'cls': cls, 'seed': rng.randrange(1 << 30), 'how': rng.choice(['pickle', 'deepcopy', 'copy', 'pickle_proto2'])}
            if cls in ('Series', 'SeriesHE'):
                case['spec'] = F.random_series_spec(rng, max_n=6, dtypes=_DTYPES, kinds=['auto', 'str', 'int', 'IndexDate', 'hier2', 'mixed'])
            else:
                case['spec'] = F.random_spec(rng, max_rows=4, max_cols=5, dtypes=_DTYPES, row_kinds=['auto', 'str', 'int', 'IndexDate', 'hier2'],
                                             col_kinds=['str', 'int', 'auto', 'hier2'])
                case['layout'] = rng.choice(F.layouts(case['spec'].dtypes))
            yield case


# --------------------------------------------------------------------------------------
# walking the object graph

def reachable_arrays(obj, limit=4000):
    """all ndarrays reachable from obj through static-frame objects, lists, tuples, dicts and ArrayGO."""
    out, seen, stack = [], set(), [(obj, 'result')]
    while stack and len(seen) < limit:
        x, path = stack.pop()
        if id(x) in seen:
            continue
        seen.add(id(x))
        if isinstance(x, np.ma.MaskedArray):
            continue
        if isinstance(x, np.ndarray):
            if not _PRIVATE_INTERNAL.search(path):
                out.append((x, path))
            if x.dtype == object and x.size <= 64:
                for i, e in enumerate(x.reshape(-1)):
                    if isinstance(e, np.ndarray) or type(e).__module__.startswith('static_frame'):
                        stack.append((e, f'{path}[{i}]'))
            continue
        if isinstance(x, (str, bytes, int, float, complex, bool, type(None), np.generic, type)):
            continue
        if isinstance(x, (list, tuple)):
            for i, e in enumerate(x[:200]):
                stack.append((e, f'{path}[{i}]'))
            continue
        if isinstance(x, dict):
            for k, v in list(x.items())[:200]:
                stack.append((v, f'{path}[{k!r}]'))
            continue
        mod = type(x).__module__ or ''
        if mod.startswith('static_frame') or mod.startswith('automap'):
            names = []
            for klass in type(x).__mro__:
                names.extend(getattr(klass, '__slots__', ()) or ())
            if hasattr(x, '__dict__'):
                names.extend(x.__dict__)
            for name in names:
                try:
                    v = getattr(x, name)
                except Exception:
                    continue
                stack.append((v, f'{path}.{name}'))
    return out


def check_readonly(ctx, result, klass, what, foreign=False, sources=(), supplied=()):
    """every array reachable from a result is read-only (for foreign exports: shares no memory with sources).
    `supplied`: arrays the harness passed in as arguments; an operation that hands such an array back as it is (a key returned
    unchanged) returns the caller's own object, whose flags are the caller's business."""
    for arr, path in reachable_arrays(result):
        if any(arr is a for a in supplied):
            continue
        if foreign:
            for s_arr in sources:
                if s_arr.size and arr.size and np.shares_memory(arr, s_arr) and arr.flags.writeable:
                    ctx.violation('foreign_export_shares_writeable_memory', detail={'call': what, 'path': path}, klass=dict(klass, path=_short(path)))
                    return False
            continue
        if arr.flags.writeable:
            ctx.violation('writeable_array', detail={'call': what, 'path': path, 'dtype': str(arr.dtype), 'shape': arr.shape},
                          klass=dict(klass, path=_short(path)))
            return False
    return True


def _short(path):
    import re
    return re.sub(r'\[[^\]]*\]', '[]', path)[-60:]


# --------------------------------------------------------------------------------------
# building containers

def build(case):
    import static_frame as sf
    cls = case['cls']
    if cls in ('Frame', 'FrameHE', 'FrameGO'):
        return F.build_frame(case['spec'], case['layout'], cls=getattr(sf, cls))
    if cls in ('Series', 'SeriesHE'):
        return F.build_series(case['spec'], cls=getattr(sf, cls))
    if cls in ('IndexHierarchy', 'IndexHierarchyGO'):
        labels = case.get('labels') or L.tree_labels(2, 4, __import__('random').Random(case['seed']))
        return getattr(sf, cls).from_labels(labels)
    if cls in ('IndexDate', 'IndexYearMonth'):
        return getattr(sf, cls)(case.get('labels', ()))
    if cls in ('Index', 'IndexGO'):
        labels = case.get('labels')
        if labels is None:
            labels = list('abc')
        return L.build_index(case.get('kind', 'str'), labels, go=cls == 'IndexGO')
    if cls == 'Bus':
        f = F.build_frame(case['spec'], case['layout'])
        return sf.Bus.from_frames((f.rename('f1'), f.rename('f2')))
    raise KeyError(cls)


# --------------------------------------------------------------------------------------
# argument synthesis

def _IndexBase():
    from static_frame.core.index_base import IndexBase
    return IndexBase


def _fn_identity(x):
    return x


def _fn_const(x):
    return 1


def _fn_label(x):
    return ('m', x)


def _axis_len(c, axis=0):
    try:
        return c.shape[axis]
    except Exception:
        return len(c)


def _positional(c, rng, axis=0):
    n = _axis_len(c, axis) if hasattr(c, 'shape') and len(getattr(c, 'shape', ())) > axis else len(c)
    return K.realize(K.gen_positional(n, rng, allow_repeat=False))


def _some_label(c, rng, axis=0):
    import static_frame as sf
    from static_frame.core.index_base import IndexBase
    idx = c if isinstance(c, IndexBase) else (c.index if axis == 0 else getattr(c, 'columns', c.index))
    labs = canon.index_labels(idx)
    return rng.choice(labs) if labs else 'zz'


def synth(name, c, rng, attr=''):
    """a value for parameter `name` (KeyError -> cannot synthesize)."""
    import static_frame as sf
    if name == 'axis':
        return rng.choice([0, 1]) if isinstance(c, sf.Frame) else 0
    if name == 'skipna':
        return rng.random() < 0.6
    if name in ('ascending', 'drop', 'include_index', 'include_columns', 'exclude_first', 'exclude_last', 'side_left', 'compare_name',
                'compare_dtype', 'compare_class', 'union', 'check_equals', 'consolidate_blocks', 'include_index_name', 'include_columns_name',
                'reorder_for_hierarchy', 'index_column_first', 'merge_hierarchical_labels', 'trim_nadir', 'retain_labels'):
        return rng.random() < 0.5
    if name in ('ddof', 'count', 'limit', 'shift', 'size', 'step', 'decimals', 'index_depth', 'columns_depth', 'label_shift', 'start_shift', 'size_increment',
                'skip_header', 'skip_footer'):
        return rng.choice([0, 1, 2]) if name not in ('size', 'step') else rng.choice([1, 2])
    if name == 'fill_value':
        return rng.choice([0, np.nan, 'x', None, -1.5])
    if name in ('value', 'element', 'lower', 'upper', 'default'):
        return rng.choice([0, 1.5, 'x', None, True])
    if name in ('func', 'mapper', 'key_func') or (name == 'key' and attr.startswith('sort')):
        return rng.choice([_fn_identity, None]) if attr.startswith('sort') else rng.choice([_fn_label, _fn_identity])
    if name == 'key':
        return _some_label(c, rng) if rng.random() < 0.5 else _positional(c, rng)
    if name in ('label', 'column', 'level'):
        return _some_label(c, rng, axis=1 if isinstance(c, sf.Frame) and name != 'level' else 0)
    if name == 'name':
        return rng.choice(['nn', None, 3])
    if name in ('dtype', 'dtypes'):
        return rng.choice([float, object, str, 'int64', bool])
    if name == 'values' and attr.endswith('searchsorted'):
        # an element, a list or an array of the kind of values the receiver is searched in
        import static_frame as sf
        src = np.asarray(c.values)
        if src.ndim != 1 or not len(src):
            src = np.array([1, 2, 3])
        picks = [src[rng.randrange(len(src))] for _ in range(rng.randint(1, 3))]
        form = rng.choice(['element', 'list', 'array', 'array'])
        if form == 'element':
            return picks[0]
        if form == 'list':
            return list(picks)
        arr = np.array(picks, dtype=src.dtype if src.dtype != object else object)
        return arr
    if name in ('other', 'others', 'container', 'containers', 'values', 'items', 'labels'):
        return _other_for(c, rng, name, attr)
    if name in ('left_depth_level', 'right_depth_level'):
        return 0
    if name == 'composite_index':
        return True
    if name in ('index_fields', 'columns_fields', 'data_fields'):
        labs = canon.index_labels(c.columns)
        if not labs:
            raise KeyError(name)
        return rng.choice(labs)
    if name == 'constructor' and attr.startswith('iter_tuple'):
        return tuple
    if name in ('index', 'columns'):
        if attr in ('reindex', 'relabel'):
            idx = c.index if name == 'index' else c.columns
            labs = canon.index_labels(idx)
            if attr == 'reindex' and idx.depth == 1:
                return rng.sample(labs, rng.randint(0, len(labs)))
            return _fn_label if attr == 'relabel' and (name == 'index' or rng.random() < 0.5) else None
        return None
    if name in ('depth_level', 'depth_map'):
        d = (c if isinstance(c, _IndexBase()) else c.index).depth
        if name == 'depth_map':
            order = list(range(d))
            rng.shuffle(order)
            return order
        return rng.randrange(d)
    if name == 'config':
        return None
    if name in ('delimiter',):
        return '|'
    if name == 'fp':
        return io.StringIO()
    if name == 'condition':
        return rng.choice([np.all, np.any])
    if name == 'kind':
        return 'mergesort'
    if name in ('index_constructor', 'columns_constructor', 'index_constructors', 'store_filter', 'out', 'names', 'encoding', 'quote_char',
                'seed', 'show', 'line_terminator', 'quote_double', 'escape_char', 'quoting', 'own_index', 'own_columns', 'own_data',
                'index_name_depth_level', 'columns_name_depth_level', 'depth_reference', 'continuation_token', 'columns_select', 'window_func',
                'window_valid', 'window_sized', 'composite_index_fill_value', 'left_template', 'right_template'):
        raise KeyError(name)
    raise KeyError(name)


def _other_for(c, rng, name, attr):
    import static_frame as sf
    if isinstance(c, _IndexBase()):
        labs = canon.index_labels(c)
        if attr in ('union', 'intersection', 'difference'):
            sub = rng.sample(labs, rng.randint(0, len(labs)))
            if c.depth > 1:
                return [sf.IndexHierarchy.from_labels(sub)] if (sub and K.is_tree(sub)) else [c]
            return [type(c)(sub) if not isinstance(c, sf.Index) or c.dtype != object else sf.Index(np.array(sub + [None], dtype=object)[:-1])]
        if attr == 'isin':
            return rng.sample(labs, rng.randint(0, len(labs)))
        if attr == 'equals':
            return rng.choice([c, c.copy(), 3])
        if attr in ('extend', 'append'):
            raise KeyError(name)
        return c
    if attr == 'equals':
        return rng.choice([c, 3, c.rename('zz')])
    if attr == 'isin':
        vals = [v for v in np.asarray(c.values).reshape(-1)[:3].tolist() if not isinstance(v, (list, np.ndarray))] if c.size else []
        return vals + [1, 'a']
    if attr in ('fillna',):
        return rng.choice([0, 'x', c])
    if attr in ('from_concat', 'from_overlay'):
        return [c, c]
    if attr in ('insert_before', 'insert_after'):
        return sf.Series(np.arange(len(c.index)), index=c.index, name='INS')
    if attr in ('join_inner', 'join_left', 'join_right', 'join_outer'):
        return c.rename('other_frame')
    if attr in ('extend', 'extend_items'):
        raise KeyError(name)
    return c


# --------------------------------------------------------------------------------------
# invoking one public attribute

import re as _re
_PRIVATE_INTERNAL = _re.compile(r'\._levels\.|\._loaded|\._last_accessed|\._map\b|\._store\b|\._config\b')


class Outcome:
    __slots__ = ('kind', 'value', 'note', 'supplied')

    def __init__(self, kind, value=None, note='', supplied=()):
        self.kind, self.value, self.note = kind, value, note
        self.supplied = supplied  # arrays the harness itself passed as arguments


_OPERATORS = ['op:round', 'op:neg', 'op:abs', 'op:invert', 'op:pos', 'op:add', 'op:sub', 'op:mul', 'op:truediv', 'op:eq', 'op:ne', 'op:lt',
              'op:and', 'op:or', 'op:radd', 'op:rmul', 'op:matmul', 'op:len', 'op:iter', 'op:reversed', 'op:contains', 'op:repr', 'op:bool',
              'op:add_self', 'op:eq_self', 'op:hash']


class _Skip(Exception):
    pass


def _operator(c, name, rng):
    import operator as o
    k = name[3:]
    scalar = rng.choice([1, 2.5, True, 'a'])
    if k == 'round':
        return round(c, rng.choice([0, 1]))
    if k in ('neg', 'abs', 'invert', 'pos'):
        return getattr(o, k)(c)
    if k in ('add', 'sub', 'mul', 'truediv', 'eq', 'ne', 'lt'):
        return getattr(o, k)(c, scalar)
    if k == 'and':
        return c & True
    if k == 'or':
        return c | False
    if k == 'radd':
        return scalar + c
    if k == 'rmul':
        return 2 * c
    if k == 'matmul':
        v = np.asarray(c.values)
        if v.dtype.kind not in 'biufc':
            # NumPy 2.5.3 defect, not the library's: a matmul of object arrays that raises part-way releases references it does
            # not own; after enough such calls a shared element is freed and the interpreter segfaults (DESIGN 10.4)
            raise _Skip('matmul of non-numeric arrays')
        return c @ v.T
    if k == 'len':
        return len(c)
    if k == 'iter':
        return [x for _, x in zip(range(4), iter(c))]
    if k == 'reversed':
        return [x for _, x in zip(range(4), reversed(c))]
    if k == 'contains':
        return 'zz' in c
    if k == 'repr':
        return repr(c)
    if k == 'bool':
        return bool(c)
    if k == 'add_self':
        return c + c
    if k == 'eq_self':
        return c == c
    if k == 'hash':
        return hash(c)
    if k == 'array':
        return np.array(c)
    raise KeyError(k)


def invoke(c, name, rng):
    """Access attribute `name` of container c with synthesized arguments. Returns an Outcome:
    kind in {'value', 'raised', 'skipped'}."""
    import static_frame as sf
    if name.startswith('op:'):
        try:
            return Outcome('value', _operator(c, name, rng))
        except _Skip as e:
            return Outcome('skipped', note=str(e))
        except Exception as e:
            return Outcome('raised', e)
    if name in _SKIP or name.startswith('from_') or name.startswith('_'):
        return Outcome('skipped', note='excluded')
    static = inspect.getattr_static(type(c), name, None)
    if isinstance(static, (classmethod, staticmethod)):
        return Outcome('skipped', note='constructor')
    try:
        attr = getattr(c, name)
    except Exception as e:
        return Outcome('raised', e, 'attribute access')
    tname = type(attr).__name__
    try:
        if tname.startswith('Interface') or tname.startswith('IterNode'):
            return Outcome('value', _drive_interface(c, name, attr, rng))
        if not callable(attr):
            return Outcome('value', attr)
        sig = inspect.signature(attr)
        args, kwargs = [], {}
        for p in sig.parameters.values():
            if p.kind in (p.VAR_POSITIONAL, p.VAR_KEYWORD):
                if p.kind == p.VAR_POSITIONAL and p.name in ('others', 'containers'):
                    args.extend(synth(p.name, c, rng, name))
                continue
            required = p.default is inspect._empty
            if required or rng.random() < 0.35:
                try:
                    v = synth(p.name, c, rng, name)
                except KeyError:
                    if required:
                        return Outcome('skipped', note=f'no synthesizer for required parameter {p.name}')
                    continue
                if p.kind == p.KEYWORD_ONLY or not required:
                    kwargs[p.name] = v
                else:
                    args.append(v)
        res = attr(*args, **kwargs)
        if hasattr(res, '__next__'):
            res = [x for _, x in zip(range(4), res)]
        return Outcome('value', res, note=repr((args, kwargs))[:200],
                       supplied=[a for a in list(args) + list(kwargs.values()) if isinstance(a, np.ndarray)])
    except Exception as e:
        return Outcome('raised', e)


def _drive_interface(c, name, attr, rng):
    """selector / iterator / accessor interfaces."""
    import static_frame as sf
    tname = type(attr).__name__
    out = []
    if tname.startswith('IterNode'):
        kwargs = {}
        if 'window' in name:
            kwargs['size'] = rng.choice([1, 2])
        if 'group' in name and 'labels' not in name:
            if isinstance(c, sf.Frame):
                if not len(c.columns):
                    return out
                key = _some_label(c, rng, 1)
                d = attr(key)
            else:
                d = attr()
        elif 'group_labels' in name:
            d = attr(0)
        elif isinstance(c, sf.Frame) and ('element' not in name):
            d = attr(axis=rng.choice([0, 1]), **kwargs) if 'window' not in name else attr(**kwargs)
        else:
            d = attr(**kwargs)
        out.extend(x for _, x in zip(range(3), d))
        mode = rng.random()
        try:
            if mode < 0.4:
                out.append(d.apply(_fn_const))
            elif mode < 0.6:
                out.extend(x for _, x in zip(range(3), d.apply_iter(_fn_const)))
            elif mode < 0.75:
                out.extend(x for _, x in zip(range(3), d.apply_iter_items(_fn_const)))
        except Exception as e:
            out.append(e)
        return out
    if name in ('via_str',):
        return [attr.upper(), attr.len(), attr.startswith('a')]
    if name in ('via_dt',):
        return [attr.year, attr.isoformat()]
    if name in ('via_T',):
        return [attr * 2]
    if name in ('via_fill_value',):
        return [attr(0) + c]
    if name == 'astype':
        if isinstance(c, sf.Frame) and len(c.columns) and rng.random() < 0.5 and c.columns.depth == 1:
            return [attr[_some_label(c, rng, 1)](rng.choice([float, object, str]))]
        return [attr(rng.choice([float, object, str]))]
    if name == 'bloc':
        m = c.notna() if hasattr(c, 'notna') else None
        return [attr[m]]
    two_axis = isinstance(c, sf.Frame)
    key = (_positional(c, rng, 0), _positional(c, rng, 1)) if two_axis else _positional(c, rng)
    target = attr.iloc[key] if hasattr(attr, 'iloc') else attr[key]
    if name == 'assign':
        value = rng.choice([0, 'x', 2.5, None])
        return [target(value)]
    return [target]


# --------------------------------------------------------------------------------------
# history cases

def _is_container(x):
    import static_frame as sf
    return isinstance(x, (sf.Series, sf.Frame, _IndexBase())) and not isinstance(x, (sf.FrameGO, sf.IndexGO, sf.IndexHierarchyGO))


def _container_arrays(c):
    return [a for a, _ in reachable_arrays(c)]


def check(case, ctx):
    ctx.tally('case_type', case['t'])
    if case['t'] == 'history':
        return _check_history(case, ctx)
    if case['t'] == 'alias':
        return _check_alias(case, ctx)
    if case['t'] == 'go_alias':
        return _check_go_alias(case, ctx)
    if case['t'] == 'static_to_go':
        return _check_static_to_go(case, ctx)
    if case['t'] == 'positions_after_large_index':
        return _check_positions_allocator(case, ctx)
    return _check_serialize(case, ctx)


def _index_lookups(idx):
    """label -> position answers of an index, part of what 'did not change' means: the arrays and labels of a hierarchy can stay
    as they were while the offsets that lookups go through were rewritten."""
    try:
        labels = list(idx)[:12]
    except Exception as e:
        return ('iteration_raised', type(e).__name__)
    out = []
    for lab in labels:
        try:
            out.append((cs(lab in idx), cs(idx.loc_to_iloc(lab))))
        except Exception as e:
            out.append(('raised', type(e).__name__))
    return tuple(out)


def _lookups(obj):
    IndexBase = _IndexBase()
    if isinstance(obj, IndexBase):
        return (_index_lookups(obj),)
    out = []
    for a in ('index', 'columns'):
        try:
            i = getattr(obj, a, None)
        except Exception:
            continue
        if isinstance(i, IndexBase):
            out.append(_index_lookups(i))
    return tuple(out)


def _snapx(obj):
    return (canon.snap(obj), _lookups(obj))


def _check_history(case, ctx):
    import random
    import static_frame as sf
    rng = random.Random(case['seed'])
    root = build(case)
    cls = case['cls']
    klass = {'t': 'history', 'cls': cls}
    if not check_readonly(ctx, root, dict(klass, attr='<constructed>'), 'construction'):
        return
    pool = [{'obj': root, 'snap': _snapx(root), 'origin': 'root'}]
    for step in range(case['ncalls']):
        recv = rng.choice(pool)
        c = recv['obj']
        names = [n for n in dir(c) if not n.startswith('_')] + _OPERATORS
        name = case['attrs'][step] if case.get('attrs') else rng.choice(names)
        cname = type(c).__name__
        out = invoke(c, name, rng)
        ctx.tally('interface_coverage', f'{cname}.{name}:{out.kind}')
        if out.kind == 'skipped':
            ctx.tally('skipped_reason', out.note)
            continue
        nontrivial = getattr(c, 'size', None) not in (0, None) or (hasattr(c, '__len__') and len(c) > 0)
        ctx.evaluation((cls, cname, name, out.note, repr(case.get('spec', case.get('labels')))), bool(nontrivial))
        ctx.sample({'class': cname, 'attribute': name, 'args': out.note, 'outcome': out.kind})
        k2 = dict(klass, receiver=cname, attr=name, outcome=out.kind)
        # 1. nothing alive changed (failing calls included)
        for live in pool:
            now = _snapx(live['obj'])
            if now != live['snap']:
                part = 'lookups' if now[0] == live['snap'][0] else 'content'
                ctx.violation('live_container_changed', detail={'call': f'{cname}.{name}({out.note})', 'container': live['origin'], 'part': part,
                                                                'before': canon.brief(live['snap'], 600), 'after': canon.brief(now, 600)}, klass=dict(k2, part=part))
                return
        if out.kind == 'raised':
            continue
        # 2. arrays reachable from the result are read-only
        res = out.value
        foreign = name in _FOREIGN or (name.startswith('to_') and name not in ('to_frame', 'to_frame_he', 'to_series', 'to_pairs', 'to_frame_go'))
        if not check_readonly(ctx, res, k2, f'{cname}.{name}({out.note})', foreign=foreign, sources=_container_arrays(c) if foreign else (),
                              supplied=out.supplied):
            return
        # 3. a returned array that is writeable-protected must really refuse writes
        for arr, path in reachable_arrays(res)[:6]:
            if arr.size and not foreign and not any(arr is a for a in out.supplied):
                try:
                    first = (0,) * arr.ndim
                    arr[first] = arr[first]
                except ValueError:
                    pass
                else:
                    ctx.violation('array_accepts_write', detail={'call': f'{cname}.{name}', 'path': path}, klass=dict(k2, path=_short(path)))
                    return
        # 4. results join the pool
        for r in (res if isinstance(res, list) else [res]):
            if isinstance(r, tuple) and len(r) == 2 and _is_container(r[1]):
                r = r[1]
            if _is_container(r) and len(pool) < 8:
                pool.append({'obj': r, 'snap': _snapx(r), 'origin': f'{cname}.{name}'})


# --------------------------------------------------------------------------------------
# immutable containers derived from grow-only ones

def _check_go_alias(case, ctx):
    import static_frame as sf
    src, n, kind = case['src'], case['n'], case['kind']
    labels = [f'k{i}' for i in range(n)] if kind == 'str' else [10 + 3 * i for i in range(n)]
    fresh = [f'z{i}' for i in range(case['grow'])] if kind == 'str' else [500 + i for i in range(case['grow'])]
    derived = []
    if src in ('IndexGO', 'IndexDateGO'):
        if src == 'IndexDateGO':
            labels = [np.datetime64('2020-01-01') + np.timedelta64(i, 'D') for i in range(n)]
            fresh = [np.datetime64('2021-06-01') + np.timedelta64(i, 'D') for i in range(case['grow'])]
            go = sf.IndexDateGO(labels)
            static_cls = sf.IndexDate
        else:
            go = sf.IndexGO(labels)
            static_cls = sf.Index
        routes = [('static_init', lambda: static_cls(go)), ('series_index', lambda: sf.Series(np.arange(len(go)), index=go)),
                  ('frame_columns', lambda: sf.Frame(np.arange(len(go)).reshape(1, len(go)), columns=go)), ('copy', lambda: static_cls(go.copy())),
                  ('iloc_all', lambda: go.iloc[:]), ('rename', lambda: static_cls(go.rename('r'))),
                  ('frame_index', lambda: sf.Frame(np.arange(len(go)).reshape(len(go), 1), index=go)), ('union', lambda: static_cls(go).union(go))]
        grow = lambda lab: go.append(lab)
    elif src == 'IndexHierarchyGO':
        tree = [('a', x) for x in labels]
        fresh = [('b', x) for x in fresh]
        go = sf.IndexHierarchyGO.from_labels(tree)
        routes = [('static_init', lambda: sf.IndexHierarchy(go)), ('series_index', lambda: sf.Series(np.arange(len(go)), index=go)),
                  ('copy', lambda: sf.IndexHierarchy(go.copy())), ('rename', lambda: sf.IndexHierarchy(go.rename('r'))),
                  ('frame_index', lambda: sf.Frame(np.arange(len(go)).reshape(len(go), 1), index=go)),
                  ('level_drop', lambda: go.level_drop(1)), ('iloc_all', lambda: go.iloc[:]), ('flat', lambda: go.flat())]
        grow = lambda lab: go.append(lab)
    else:
        go = sf.FrameGO(np.arange(2 * n).reshape(2, n), columns=labels)
        routes = [('to_frame', lambda: go.to_frame()), ('to_frame_he', lambda: go.to_frame_he()), ('Frame_init', lambda: sf.Frame(go)),
                  ('reduction', lambda: go.sum()), ('columns_static', lambda: sf.Index(go.columns)), ('iloc_all', lambda: go.iloc[:, :].to_frame()),
                  ('transpose', lambda: go.T.to_frame()), ('row', lambda: go.iloc[0])]
        grow = lambda lab: go.__setitem__(lab, np.array([7, 8]))
    rname, make = routes[case['route'] % len(routes)]
    klass = {'t': 'go_alias', 'src': src, 'route': rname, 'read_first': case['read_first']}
    ctx.evaluation(repr(case), True)
    ctx.tally('go_alias_route', f'{src}.{rname}')
    if case['read_first']:
        go.values if not isinstance(go, sf.Frame) else go.columns.values
    try:
        d = make()
    except Exception as e:
        ctx.tally('go_alias_route_raised', f'{src}.{rname}:{type(e).__name__}')
        return
    IndexBase = _IndexBase()
    if not (_is_container(d) or isinstance(d, IndexBase)):
        return
    if isinstance(d, (sf.FrameGO, sf.IndexGO, sf.IndexHierarchyGO)):
        return  # a grow-only result is not an immutable container
    before = _snapx(d)
    axes = [d] if isinstance(d, IndexBase) else [x for x in (getattr(d, 'index', None), getattr(d, 'columns', None)) if isinstance(x, IndexBase)]
    for lab in fresh:
        grow(lab)
    after = _snapx(d)
    if after != before:
        ctx.violation('growth_of_source_changed_immutable_container', detail={'route': rname, 'before': canon.brief(before, 500), 'after': canon.brief(after, 500)},
                      klass=klass)
        return
    for ax in axes:
        for lab in fresh:
            try:
                inside = lab in ax
            except Exception:
                continue
            if inside:
                ctx.violation('growth_of_source_changed_immutable_container', detail={'route': rname, 'label_now_member': repr(lab)}, klass=dict(klass, via='membership'))
                return


def _check_static_to_go(case, ctx):
    import static_frame as sf
    src, n = case['src'], case['n']
    labels = [f'k{i}' for i in range(n)]
    grow_frame = lambda g, i: g.__setitem__(f'z{i}', np.arange(len(g.index)))
    if src in ('Frame', 'FrameHE'):
        base = sf.Frame(np.arange(2 * n).reshape(2, n), columns=labels, index=('r0', 'r1'), name='nm')
        if src == 'FrameHE':
            base = base.to_frame_he()
        routes = [('to_frame_go', lambda: base.to_frame_go()), ('FrameGO_init', lambda: sf.FrameGO(base)),
                  ('he_to_go', lambda: base.to_frame_he().to_frame_go()), ('to_frame.to_frame_go', lambda: base.to_frame().to_frame_go()),
                  ('copy.to_frame_go', lambda: copy.copy(base).to_frame_go()), ('rename.to_frame_go', lambda: base.rename('x').to_frame_go())]
        grow = grow_frame
    elif src == 'IndexHierarchy':
        base = sf.IndexHierarchy.from_labels([('a', x) for x in labels])
        routes = [('IndexHierarchyGO_init', lambda: sf.IndexHierarchyGO(base)), ('copy_go', lambda: sf.IndexHierarchyGO(base.copy())),
                  ('rename_go', lambda: sf.IndexHierarchyGO(base.rename('x'))), ('frame_go_columns', lambda: sf.FrameGO(np.arange(n).reshape(1, n), columns=base).columns)]
        grow = lambda g, i: g.append(('b', f'z{i}'))
    else:
        if src == 'IndexDate':
            base = sf.IndexDate([np.datetime64('2020-01-01') + np.timedelta64(i, 'D') for i in range(n)])
            go_cls, fresh = sf.IndexDateGO, (lambda i: np.datetime64('2021-06-01') + np.timedelta64(i, 'D'))
        else:
            base = sf.Index(labels)
            go_cls, fresh = sf.IndexGO, (lambda i: f'z{i}')
        routes = [('GO_init', lambda: go_cls(base)), ('copy_go', lambda: go_cls(base.copy())), ('rename_go', lambda: go_cls(base.rename('x'))),
                  ('frame_go_columns', lambda: sf.FrameGO(np.arange(n).reshape(1, n), columns=base).columns)]
        grow = lambda g, i: g.append(fresh(i))
    rname, make = routes[case['route'] % len(routes)]
    klass = {'t': 'static_to_go', 'src': src, 'route': rname, 'read_first': case['read_first']}
    ctx.evaluation(repr(case), True)
    ctx.tally('static_to_go_route', f'{src}.{rname}')
    if case['read_first']:
        base.values
    before = _snapx(base)
    try:
        g = make()
    except Exception as e:
        ctx.tally('static_to_go_route_raised', f'{src}.{rname}:{type(e).__name__}')
        return
    try:
        for i in range(case['grow']):
            grow(g, i)
    except Exception as e:
        ctx.tally('static_to_go_growth_raised', f'{src}.{rname}:{type(e).__name__}')
    try:
        after = _snapx(base)
        coherent = not isinstance(base, sf.Frame) or (len(base.columns) == base.shape[1] == len(base.dtypes) and base.values.shape == base.shape)
    except Exception as e:
        ctx.violation('immutable_source_unusable_after_growth_of_derived', detail={'route': rname, 'exception': type(e).__name__, 'message': str(e)[:200]}, klass=klass)
        return
    if after != before or not coherent:
        ctx.violation('growth_of_derived_changed_immutable_source', detail={'route': rname, 'before': canon.brief(before, 500), 'after': canon.brief(after, 500)},
                      klass=klass)


def _check_positions_allocator(case, ctx):
    import static_frame as sf
    klass = {'t': 'positions_after_large_index'}
    ctx.evaluation(repr(case), True)
    big = sf.Index(np.arange(case['n_large']))
    small = [sf.Index([f'k{i}' for i in range(case['n_small'])]), sf.Series(np.arange(case['n_small'])).index,
             sf.Frame(np.arange(case['n_small'] * 2).reshape(case['n_small'], 2)).columns, sf.IndexHierarchy.from_product(('a', 'b'), (1, 2))]
    for idx in [big] + small:
        pos = idx.positions
        if pos.flags.writeable:
            ctx.violation('writeable_array', detail={'call': f'{type(idx).__name__}.positions after an index of {case["n_large"]} labels', 'path': 'result', 'len': len(idx)},
                          klass=dict(klass, attr='positions'))
            return
        if len(pos) and list(pos[:3]) != list(range(min(3, len(pos)))):
            ctx.violation('live_container_changed', detail={'call': 'positions', 'got': repr(pos[:5])}, klass=klass)
            return


# --------------------------------------------------------------------------------------
# caller-alias probes

ALIAS_SITES = ['Series', 'Series_index', 'Frame_2d', 'Frame_index', 'Frame_columns', 'Frame_from_items', 'Frame_from_fields', 'Frame_from_dict',
               'Frame_from_concat_arrays', 'Index', 'IndexDate', 'IndexHierarchy_from_labels_array', 'IndexHierarchy_from_product', 'TypeBlocks_from_blocks',
               'Series_assign', 'Frame_assign', 'Series_fillna', 'Frame_insert', 'Series_reindex_own', 'Frame_from_records_array', 'Series_from_concat',
               'Frame_from_overlay', 'Series_isin', 'IndexHierarchy_from_index_items', 'Frame_bloc_assign', 'Series_from_items',
               'Frame_from_structured_array', 'Frame_from_structured_array_2d', 'Frame_from_records_structured',
               'Frame_from_structured_array_dtypes_partial', 'Frame_from_structured_array_dtypes_list', 'Frame_from_structured_array_index',
               'Frame_from_structured_array_consolidated', 'Frame_from_records_structured_dtypes_partial']


def _other_value(arr):
    if arr.dtype.kind == 'b':
        return ~arr
    if arr.dtype.kind in 'iuf':
        return arr + 17
    if arr.dtype.kind == 'U':
        return np.array(['ZZ'] * arr.size).reshape(arr.shape)
    if arr.dtype.kind == 'M':
        return arr + np.timedelta64(40, 'D')
    return np.array([('changed', i) for i in range(arr.size)], dtype=object).reshape(arr.shape) if False else _obj_fill(arr)


def _obj_fill(arr):
    a = np.empty(arr.shape, dtype=object)
    a[...] = 'CHANGED'
    return a


def _check_alias(case, ctx):
    import random
    import static_frame as sf
    from static_frame.core.type_blocks import TypeBlocks
    rng = random.Random(case['seed'])
    site, dt, n = case['site'], case['dt'], case['n']
    klass = {'t': 'alias', 'site': site, 'dt': dt, 'readonly_input': case['readonly_input']}
    vals = V.column(dt, n, rng, missing_ok=False)
    if dt in ('int64',):
        vals = [v % 1000 if isinstance(v, int) else v for v in vals]
    arr = V.to_array(vals, dt).copy()
    labels_needed = site in ('Series_index', 'Frame_index', 'Frame_columns', 'Index', 'IndexDate', 'IndexHierarchy_from_labels_array', 'IndexHierarchy_from_product',
                             'IndexHierarchy_from_index_items')
    if labels_needed:
        if site == 'IndexDate':
            arr = np.array([np.datetime64('2020-01-01') + np.timedelta64(i, 'D') for i in range(n)])
        else:
            arr = np.arange(n) * 3 + 1 if dt not in ('<U5',) else np.array([f'k{i}' for i in range(n)])
    arr.flags.writeable = True
    ctx.evaluation(repr(case), True)
    ctx.tally('alias_site', site)
    ctx.sample({'alias_site': site, 'dtype': str(arr.dtype), 'n': n})
    args = [arr]
    try:
        if site == 'Series':
            c = sf.Series(arr)
        elif site == 'Series_index':
            c = sf.Series(np.arange(n), index=arr)
        elif site == 'Series_from_items':
            c = sf.Series.from_items(zip(range(n), arr))
        elif site == 'Frame_2d':
            arr = np.array(arr.reshape(n, 1).repeat(2, axis=1))
            args = [arr]
            c = sf.Frame(arr)
        elif site == 'Frame_index':
            c = sf.Frame(np.arange(n * 2).reshape(n, 2), index=arr)
        elif site == 'Frame_columns':
            c = sf.Frame(np.arange(n * 2).reshape(2, n), columns=arr)
        elif site == 'Frame_from_items':
            c = sf.Frame.from_items([('a', arr), ('b', np.arange(n))])
        elif site == 'Frame_from_fields':
            c = sf.Frame.from_fields([arr, np.arange(n)], columns=('a', 'b'))
        elif site == 'Frame_from_dict':
            c = sf.Frame.from_dict({'a': arr, 'b': np.arange(n)})
        elif site == 'Frame_from_concat_arrays':
            c = sf.Frame.from_concat([sf.Series(np.arange(n), name='x'), sf.Frame.from_items([('a', arr)])], axis=1)
        elif site == 'Frame_from_records_array':
            arr = np.array(arr.reshape(n, 1).repeat(2, axis=1))
            args = [arr]
            c = sf.Frame.from_records(arr)
        elif site == 'Index':
            c = sf.Index(arr)
        elif site == 'IndexDate':
            c = sf.IndexDate(arr)
        elif site == 'IndexHierarchy_from_labels_array':
            arr = np.array([[i // 2, i] for i in range(n)])
            args = [arr]
            c = sf.IndexHierarchy.from_labels(arr)
        elif site == 'IndexHierarchy_from_product':
            other = np.array(['p', 'q'])
            args = [arr, other]
            c = sf.IndexHierarchy.from_product(arr, other)
        elif site == 'IndexHierarchy_from_index_items':
            c = sf.IndexHierarchy.from_index_items([('A', sf.Index(arr))])
        elif site == 'TypeBlocks_from_blocks':
            c = sf.Frame(TypeBlocks.from_blocks([arr, np.arange(n)]))
        elif site == 'Series_assign':
            base = sf.Series(np.zeros(n, dtype=arr.dtype if arr.dtype.kind not in 'UM' else object))
            c = base.assign.iloc[:](arr)
        elif site == 'Frame_assign':
            base = sf.Frame.from_items([('a', np.arange(n)), ('b', np.arange(n))])
            c = base.assign['a'](arr)
        elif site == 'Frame_bloc_assign':
            base = sf.Frame.from_items([('a', np.arange(n)), ('b', np.arange(n))])
            arr = np.array(np.arange(n * 2).reshape(n, 2))
            args = [arr]
            c = base.assign.bloc[base >= 0](arr)
        elif site == 'Series_fillna':
            base = sf.Series([np.nan] * n)
            c = base.fillna(sf.Series(arr))
        elif site == 'Frame_insert':
            base = sf.Frame.from_items([('a', np.arange(n))])
            c = base.insert_after('a', sf.Series(arr, name='z'))
        elif site == 'Series_reindex_own':
            c = sf.Series(arr, index=np.arange(n)).reindex(np.arange(n))
        elif site == 'Series_from_concat':
            c = sf.Series.from_concat([sf.Series(arr), sf.Series(arr, index=np.arange(n) + 100)])
        elif site == 'Frame_from_overlay':
            c = sf.Frame.from_overlay([sf.Frame.from_items([('a', arr)]), sf.Frame.from_items([('a', arr)])])
        elif site == 'Series_isin':
            base = sf.Series(arr.copy())
            c = base.isin(arr)
        elif site in ('Frame_from_structured_array', 'Frame_from_records_structured'):
            rec = np.empty(n, dtype=[('p', arr.dtype), ('q', arr.dtype)])
            rec['p'] = arr
            rec['q'] = arr[::-1]
            args = [rec]
            c = sf.Frame.from_structured_array(rec) if site == 'Frame_from_structured_array' else sf.Frame.from_records(rec)
        elif site.startswith('Frame_from_structured_array_') and site != 'Frame_from_structured_array_2d' or site == 'Frame_from_records_structured_dtypes_partial':
            # options that re-type, consolidate or move SOME fields: every other field must still be detached from the caller's array
            rec = np.empty(n, dtype=[('p', arr.dtype), ('q', arr.dtype), ('r', arr.dtype)])
            rec['p'] = arr
            rec['q'] = arr[::-1]
            rec['r'] = arr
            args = [rec]
            other = object if arr.dtype.kind != 'O' else str
            if site == 'Frame_from_structured_array_dtypes_partial':
                c = sf.Frame.from_structured_array(rec, dtypes={'q': other})
            elif site == 'Frame_from_structured_array_dtypes_list':
                c = sf.Frame.from_structured_array(rec, dtypes=[None, other, None])
            elif site == 'Frame_from_structured_array_index':
                rec['p'] = np.arange(n).astype(arr.dtype) if arr.dtype.kind in 'iuf' else arr
                c = sf.Frame.from_structured_array(rec, index_depth=1, dtypes={'r': other})
            elif site == 'Frame_from_structured_array_consolidated':
                c = sf.Frame.from_structured_array(rec, consolidate_blocks=True, dtypes={'p': other})
            else:
                c = sf.Frame.from_records(rec, dtypes={'q': other})
        elif site == 'Frame_from_structured_array_2d':
            arr = np.array(arr.reshape(n, 1).repeat(2, axis=1))
            args = [arr]
            c = sf.Frame.from_structured_array(arr)
        else:
            raise KeyError(site)
    except Exception as e:
        ctx.tally('alias_construct_raised', f'{site}:{type(e).__name__}')
        return
    if case['readonly_input']:
        # an input that is already read-only may be shared; it then cannot be written by the caller
        return
    before = canon.snap(c)
    if not check_readonly(ctx, c, klass, f'{site}(writeable array)'):
        return
    for a in args:
        for got, path in reachable_arrays(c):
            if got.size and a.size and np.shares_memory(got, a):
                ctx.violation('caller_array_shared', detail={'site': site, 'path': path}, klass=dict(klass, path=_short(path)))
                return
    for a in args:
        if a.dtype.names:
            for nm in a.dtype.names:
                try:
                    a[nm][...] = _other_value(a[nm])
                except Exception:
                    pass
            continue
        try:
            a[...] = _other_value(a)
        except Exception:
            try:
                a[...] = a[::-1] if a.ndim == 1 else a
            except Exception:
                pass
    after = canon.snap(c)
    if after != before:
        ctx.violation('caller_write_visible', detail={'site': site, 'before': canon.brief(before, 400), 'after': canon.brief(after, 400)}, klass=klass)


# --------------------------------------------------------------------------------------
# serialization

def _check_serialize(case, ctx):
    import static_frame as sf
    c = build(case)
    how = case['how']
    cls = case['cls']
    klass = {'t': 'serialize', 'cls': cls, 'how': how}
    ctx.evaluation(repr(case), True)
    ctx.tally('serialize', f'{cls}:{how}')
    # materialise lazy caches on some
    if case['seed'] % 2:
        try:
            c.values
            repr(c)
        except Exception:
            pass
    before = canon.snap(c)
    try:
        if how == 'pickle':
            d = pickle.loads(pickle.dumps(c))
        elif how == 'pickle_proto2':
            d = pickle.loads(pickle.dumps(c, protocol=2))
        elif how == 'deepcopy':
            d = copy.deepcopy(c)
        else:
            d = copy.copy(c)
    except Exception as e:
        ctx.violation('serialization_raised', detail={'exception': type(e).__name__, 'message': str(e)[:200]}, klass=dict(klass, exception=type(e).__name__))
        return
    after = canon.snap(d)
    if after != before:
        ctx.violation('round_trip_changed_content', detail={'before': canon.brief(before, 500), 'after': canon.brief(after, 500)}, klass=klass)
        return
    if canon.snap(c) != before:
        ctx.violation('live_container_changed', detail={'call': how}, klass=klass)
        return
    # read-only status preserved: arrays of the copy and those obtainable through its public accessors
    if not check_readonly(ctx, d, klass, how):
        return
    probes_ = []
    try:
        if isinstance(d, _IndexBase()):
            probes_ = [d.values, d.positions]
        elif isinstance(d, sf.Bus):
            probes_ = [d.index.values, d.index.positions]
        elif isinstance(d, sf.Series):
            probes_ = [d.values, d.index.values, d.index.positions]
        else:
            probes_ = [d.values, d.index.values, d.index.positions, d.columns.values, d.columns.positions] + [a for a in d._blocks._blocks]
    except Exception as e:
        ctx.tally('serialize_probe_raised', type(e).__name__)
    for i, a in enumerate(probes_):
        if isinstance(a, np.ndarray) and a.flags.writeable:
            ctx.violation('writeable_array', detail={'call': how, 'path': f'public accessor #{i}'}, klass=dict(klass, path=f'accessor{i}'))
            return
