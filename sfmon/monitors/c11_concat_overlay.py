"""C11 — concatenation and overlay keep every input cell exactly once, aligned by label."""
import numpy as np

from sfmon import canon
from sfmon.canon import cs
from sfmon.gen import frames as F
from sfmon.gen import labels as L
from sfmon.gen import values as V

PROPERTY = 'C11'
RULE = ('cases = sequences of 0..4 Frames / Series over small label pools (identical, permuted, overlapping, disjoint labels on the '
        'aligned axis; unique or colliding labels on the concatenation axis), dtype mixes and block layouts chosen so that the inputs '
        'are block-compatible, reblock-compatible or incompatible; operations Frame.from_concat (both axes, union / intersection, '
        'explicit index / columns, IndexAutoFactory, generator input, Series inputs), Frame.from_concat_items, Series.from_concat, '
        'Series.from_concat_items, Frame.from_overlay, Series.from_overlay; the reference is the {(row, col): value} map of the inputs; '
        'non-trivial = >= 2 inputs whose aligned-axis label sequences are not identical, or a collision that must raise; distinct = '
        'hash of the case')
EXPLANATION = 'breakdown.vstack_strategy counts how often the inputs were block-compatible / reblock-compatible / incompatible (all three are required)'
EXHAUSTIVE = {'quick': False, 'thorough': False}
ASSUMPTIONS = ['cells compared at value strength modulo NumPy promotion (exactness is C07)', 'order on the aligned axis is not asserted (set algebra: C06); order on the concatenation axis is',
               'ints kept within +-2**31']
TIERS = {'quick': {'shards': 8, 'budget_s': 150, 'min_nontrivial': 15000},
         'thorough': {'shards': 16, 'budget_s': 1500, 'min_nontrivial': 200000}}
HOOKS = ('typeblocks', 'index')
ANCHORS = {
    'static_frame.core.frame': ['Frame.from_concat', 'Frame.from_concat_items', 'Frame.from_overlay'],
    'static_frame.core.series': ['Series.from_concat', 'Series.from_concat_items', 'Series.from_overlay'],
    'static_frame.core.type_blocks': ['TypeBlocks.vstack_blocks_to_blocks', 'TypeBlocks.block_compatible', 'TypeBlocks.reblock_compatible', 'TypeBlocks.fillna_by_values'],
    'static_frame.core.container_util': ['index_many_concat', 'index_many_set'],
    'static_frame.core.util': ['ufunc_set_iter', 'concat_resolved'],
    'static_frame.core.index_hierarchy': ['IndexHierarchy.from_index_items'],
}
REQUIRED_ANCHORS = ['frame.Frame.from_concat', 'frame.Frame.from_concat_items', 'frame.Frame.from_overlay', 'series.Series.from_concat',
                    'series.Series.from_overlay', 'type_blocks.TypeBlocks.vstack_blocks_to_blocks', 'container_util.index_many_set']
REQUIRED_TALLIES = [('vstack_strategy', 'block_compatible'), ('vstack_strategy', 'reblock_compatible'), ('vstack_strategy', 'incompatible')]

_DT = ['int64', 'float64', 'bool', '<U5', 'object', 'M8[D]']
_ROWS = ['a', 'b', 'c', 'd', 'e', 'f', 'g', 'h', 'i', 'j']
_COLS = ['p', 'q', 'r', 's', 't', 'u']


TECHNIQUE = 'runtime monitoring: reference-model oracle (label alignment and cell placement computed on lists) for from_concat / from_concat_items / from_overlay over label relations, block layouts and zero-sized inputs'


def probes(ctx):
    fa = {'rows': ['a'], 'cols': ['p'], 'dtypes': ['int64'], 'cells': [[1]], 'lay': 0}
    fb = {'rows': ['b'], 'cols': ['q'], 'dtypes': ['int64'], 'cells': [[2]], 'lay': 0}
    fz = {'rows': ['c', 'd'], 'cols': [], 'dtypes': [], 'cells': [[], []], 'lay': 0}
    base = {'op': 'frame_concat', 'seed': 1, 'axis': 0, 'fill': None, 'collide': False, 'index_arg': None, 'generator_input': False, 'consolidate': False}
    return [dict(base, union=False, frames=[fa, fb]), dict(base, union=True, frames=[fa, fz])]


def _tame(v):
    if isinstance(v, int) and not isinstance(v, bool) and abs(v) > 2 ** 31:
        return v % 83
    if isinstance(v, (bytes, tuple)):
        return 'bt'
    return v


def _frame_desc(rng, rows, cols, dts=None):
    dts = dts or [rng.choice(_DT) for _ in cols]
    cells = [[_tame(V.element(dt, rng)) for dt in dts] for _ in rows]
    return {'rows': list(rows), 'cols': list(cols), 'dtypes': list(dts), 'cells': cells, 'lay': rng.randrange(1 << 20)}


def generate(ctx):
    rng = ctx.rng
    for _ in range(ctx.n(48000, 700000)):
        op = rng.choice(['frame_concat', 'frame_concat', 'frame_concat', 'frame_concat_items', 'series_concat', 'series_concat_items',
                         'frame_overlay', 'series_overlay', 'frame_concat_series'])
        k = rng.choice([0, 1, 2, 2, 3, 4])
        case = {'op': op, 'seed': rng.randrange(1 << 30)}
        if op in ('frame_concat', 'frame_concat_items', 'frame_concat_series'):
            axis = rng.choice([0, 1])
            case['axis'] = axis
            case['union'] = rng.random() < 0.7
            case['fill'] = rng.choice([np.nan, None, 0, 'fv'])
            collide = rng.random() < 0.15
            aligned_pool = _COLS if axis == 0 else _ROWS
            concat_pool = _ROWS if axis == 0 else _COLS
            base_aligned = rng.sample(aligned_pool, rng.randint(1, 4))
            shared_dts = {lab: rng.choice(_DT) for lab in aligned_pool}
            same_dtypes = rng.random() < 0.6
            frames, used = [], []
            vstack_focus = axis == 0 and rng.random() < 0.35
            if vstack_focus:
                # identical columns, 3..4 inputs, per-input dtype runs over a small pool: exercises every pairwise
                # block / reblock compatibility decision of the row-wise stacking
                k = rng.choice([2, 3, 3, 4])
                base_aligned = rng.sample(aligned_pool, rng.randint(2, 5))
                collide = False
            # leading_empties: the first two or three inputs have nothing on the aligned axis; whatever is accumulated
            # from them is empty, and the labels of the later inputs must still arrive
            lead_empty = 0
            if not vstack_focus and rng.random() < 0.06:
                k = rng.choice([3, 4])
                lead_empty = rng.choice([2, 2, 3])
                ctx.tally('workload', 'concat_leading_empties')
            for i in range(k):
                rel = 'identical' if vstack_focus else rng.choice(['identical', 'identical', 'permuted', 'overlap', 'disjoint'])
                if i < lead_empty:
                    rel = 'empty'
                if rel == 'empty':
                    al = []
                elif rel == 'identical':
                    al = list(base_aligned)
                elif rel == 'permuted':
                    al = list(base_aligned)
                    rng.shuffle(al)
                elif rel == 'overlap':
                    al = rng.sample(base_aligned, rng.randint(0, len(base_aligned))) + rng.sample([x for x in aligned_pool if x not in base_aligned], rng.randint(0, 2))
                    rng.shuffle(al)
                else:
                    al = rng.sample([x for x in aligned_pool if x not in base_aligned], rng.randint(1, 2))
                avail = [x for x in concat_pool if x not in used]
                n = rng.randint(0 if (rng.random() < 0.04 or not avail) else 1, min(3, len(avail)))
                cc = rng.sample(avail, n)
                if collide and used and cc:
                    cc[0] = rng.choice(used)
                used.extend(cc)
                rows, cols = (cc, al) if axis == 0 else (al, cc)
                dts = None
                if vstack_focus:
                    dts, pool3 = [], rng.choice([['int64', 'float64'], ['int64', 'float64', 'bool'], ['float64', '<U5']])
                    while len(dts) < len(cols):
                        dts.extend([rng.choice(pool3)] * rng.choice([1, 2, 3]))
                    dts = dts[:len(cols)]
                    if i and rng.random() < 0.5:
                        dts = list(frames[rng.randrange(len(frames))]['dtypes'])
                elif axis == 0 and same_dtypes:
                    dts = [shared_dts[c] for c in cols]
                frames.append(_frame_desc(rng, rows, cols, dts))
            case['frames'] = frames
            case['collide'] = collide
            case['index_arg'] = rng.choice([None, None, None, 'auto', 'explicit'])
            case['generator_input'] = rng.random() < 0.2
            case['consolidate'] = rng.random() < 0.3
            if op == 'frame_concat_items':
                case['keys'] = rng.sample(['K1', 'K2', 'K3', 'K4', 'K5'], k)
        elif op in ('series_concat', 'series_concat_items'):
            used, series = [], []
            collide = rng.random() < 0.15
            for i in range(k):
                avail = [x for x in _ROWS if x not in used]
                n = rng.randint(0 if (rng.random() < 0.04 or not avail) else 1, min(3, len(avail)))
                labs = rng.sample(avail, n)
                if collide and used and labs:
                    labs[0] = rng.choice(used)
                if op == 'series_concat':
                    used.extend(labs)
                dt = rng.choice(_DT)
                series.append({'labels': labs, 'dtype': dt, 'values': [_tame(V.element(dt, rng)) for _ in labs]})
            case['series'] = series
            case['collide'] = collide and op == 'series_concat'
            case['index_arg'] = rng.choice([None, None, 'auto']) if op == 'series_concat' else None
            if op == 'series_concat_items':
                case['keys'] = rng.sample(['K1', 'K2', 'K3', 'K4', 'K5'], k)
        elif op == 'frame_overlay':
            k = max(1, k)
            lead_empty_o = 0
            if rng.random() < 0.06:
                k, lead_empty_o = rng.choice([3, 4]), 2
                ctx.tally('workload', 'overlay_leading_empties')
            base_r = rng.sample(_ROWS, rng.randint(1, 4))
            base_c = rng.sample(_COLS, rng.randint(1, 3))
            dts = {c: rng.choice(['float64', 'object', 'float64', '<U5', 'int64', 'M8[D]', 'float32', 'M8[D]']) for c in _COLS}
            finer = {'float32': 'float64', 'M8[D]': 'M8[s]'}  # later inputs may hold the same kind in a wider / finer dtype
            frames = []
            aligned_focus = rng.random() < 0.3
            if aligned_focus:
                # every input already carries the union labels in the same order, so no reindex rebuilds the blocks: the
                # fill walks the first input's own block layout (multi-column blocks without a missing cell beside blocks
                # with some), with a row count that differs from the block widths
                ctx.tally('workload', 'overlay_aligned_blocks')
                k = rng.choice([2, 2, 3])
                base_r = rng.sample(_ROWS, rng.choice([1, 2, 4, 5]))
                base_c = rng.sample(_COLS, rng.randint(3, min(6, len(_COLS))))
                run_dts = []
                while len(run_dts) < len(base_c):
                    run_dts.extend([rng.choice(['int64', 'float64', 'float64', 'bool', 'object'])] * rng.choice([1, 2, 3]))
                run_dts = run_dts[:len(base_c)]
            for i in range(k):
                if aligned_focus:
                    fd = _frame_desc(rng, base_r, base_c, run_dts)
                    if i == 0:
                        # NaN-free and NaN-rich columns side by side
                        for j, dt in enumerate(run_dts):
                            if dt == 'float64':
                                dense = rng.random() < 0.4
                                for r in fd['cells']:
                                    r[j] = 1.5 if dense else (V.NAN if rng.random() < 0.6 else r[j])
                    frames.append(fd)
                    continue
                rr = rng.sample(base_r, rng.randint(1, len(base_r))) + rng.sample([x for x in _ROWS if x not in base_r], rng.randint(0, 1))
                cc = rng.sample(base_c, rng.randint(1, len(base_c))) + rng.sample([x for x in _COLS if x not in base_c], rng.randint(0, 1))
                rng.shuffle(rr)
                if i < lead_empty_o:
                    rr = []
                frames.append(_frame_desc(rng, rr, cc, [(finer.get(dts[c], dts[c]) if i and rng.random() < 0.4 else dts[c]) for c in cc]))
            case['frames'] = frames
            case['union'] = rng.random() < 0.7
        else:
            k = max(1, k)
            base = rng.sample(_ROWS, rng.randint(1, 5))
            dt = rng.choice(['float64', 'object', 'M8[D]', 'float64'])
            series = []
            lead_empty_s = 0
            if rng.random() < 0.1:
                k, lead_empty_s = rng.choice([3, 4]), rng.choice([2, 2, 3])
                ctx.tally('workload', 'overlay_leading_empties')
            for i in range(k):
                labs = rng.sample(base, rng.randint(1, len(base))) + rng.sample([x for x in _ROWS if x not in base], rng.randint(0, 1))
                rng.shuffle(labs)
                if i < lead_empty_s:
                    labs = []
                d = dt if rng.random() < 0.8 else rng.choice(['int64', '<U5'])
                series.append({'labels': labs, 'dtype': d, 'values': [_tame(V.element(d, rng)) for _ in labs]})
            if not lead_empty_s and rng.random() < 0.3:
                # hierarchical labels (depth 2): the set operation on hierarchies may return the labels in another order than
                # any input holds them, also when the first input already holds every label
                ctx.tally('workload', 'series_overlay_hierarchical')
                if rng.random() < 0.5 and len(series) > 1:
                    series[0]['labels'] = list(base) + [x for s_ in series[1:] for x in s_['labels'] if x not in base][:1]
                    series[0]['labels'] = list(dict.fromkeys(series[0]['labels'] + [x for s_ in series[1:] for x in s_['labels']]))
                    rng.shuffle(series[0]['labels'])
                    series[0]['values'] = [_tame(V.element(series[0]['dtype'], rng)) for _ in series[0]['labels']]
                outer = rng.choice([1, 2, 3])
                for s_ in series:
                    tl = [('xyz'[_ROWS.index(x) % outer], x) for x in s_['labels']]
                    first = {}
                    for t in tl:
                        first.setdefault(t[0], len(first))
                    order = sorted(range(len(tl)), key=lambda j: first[tl[j][0]])  # from_labels wants each outer label contiguous
                    s_['labels'] = [tl[j] for j in order]
                    s_['values'] = [s_['values'][j] for j in order]
                    s_['hier'] = True
            case['series'] = series
            case['union'] = rng.random() < 0.7
        yield case


# --------------------------------------------------------------------------------------

def _build_frame(d, cls=None):
    import random
    spec = F.FrameSpec(d['rows'], d['cols'], 'str', 'str', d['dtypes'], d['cells'], None)
    if not d['cols']:
        return F.build_frame(spec, [], cls=cls), []
    lays = F.layouts(d['dtypes'])
    lay = lays[d['lay'] % len(lays)]
    return F.build_frame(spec, lay, cls=cls), lay


def _go_independence(case, ctx):
    """the same inputs as grow-only frames: the result is a new grow-only frame; growing it must not show in any input and growing
    an input must not show in it (the concatenated / overlaid labels may be equal to an input's, never the same object)."""
    import static_frame as sf
    descs = case['frames']
    if len(descs) < 1 or case.get('collide'):
        return
    try:
        inputs = [_build_frame(d, cls=sf.FrameGO)[0] for d in descs]
        if case['op'] == 'frame_overlay':
            out = sf.FrameGO.from_overlay(inputs, union=case['union'])
        else:
            out = sf.FrameGO.from_concat(inputs, axis=case['axis'], union=case['union'], fill_value=case['fill'])
    except Exception as e:
        ctx.tally('go_independence', 'construction_raised:' + type(e).__name__)
        return
    if not isinstance(out, sf.FrameGO):
        return
    klass = {'op': case['op'], 'axis': case.get('axis'), 'union': case['union'], 'n': len(descs), 'grow_only_inputs': True}
    ctx.tally('go_independence', 'checked')
    before = [canon.snap(f) for f in inputs]
    try:
        out['__result_growth__'] = np.arange(len(out.index))
    except Exception as e:
        ctx.tally('go_independence', 'growth_raised:' + type(e).__name__)
        return
    for i, f in enumerate(inputs):
        try:
            same = canon.snap(f) == before[i] and len(f.columns) == f.shape[1]
        except Exception:
            same = False
        if not same:
            ctx.violation('input_changed_by_growth_of_result', detail={'input': i, 'columns': [repr(c) for c in f.columns][:8], 'shape': f.shape}, klass=klass)
            return
    snap_out = canon.snap(out)
    for f in inputs[:2]:
        try:
            f['__input_growth__'] = np.arange(len(f.index))
        except Exception:
            continue
    try:
        same = canon.snap(out) == snap_out and len(out.columns) == out.shape[1]
    except Exception:
        same = False
    if not same:
        ctx.violation('result_changed_by_growth_of_input', detail={'columns': [repr(c) for c in out.columns][:8], 'shape': out.shape}, klass=klass)


def _build_series(d, name=None):
    import static_frame as sf
    if d.get('hier'):
        return sf.Series(V.to_array(d['values'], d['dtype']), index=sf.IndexHierarchy.from_labels(d['labels']), name=name)
    return sf.Series(V.to_array(d['values'], d['dtype']), index=sf.Index(d['labels']) if d['labels'] else sf.Index((), dtype='<U1'), name=name)


def _cell_eq(g, e):
    if canon.leq(g, e):
        return True
    if e[0] in ('int', 'float', 'bool', 'complex') and g[0] in ('int', 'float', 'complex'):
        try:
            x = canon._num(e) if e[0] != 'bool' else None
            if x is None:
                return False
            return complex(x) == complex(canon._num(g))
        except Exception:
            return False
    if _missing(e) and _missing(g):
        return True
    return False


def _missing(c):
    return c == ('None', None) or (c[0] == 'float' and c[1] == canon.NAN) or (c[0] in ('dt64', 'td64') and c[2] == canon.NAT)


def _grid(out):
    rows = [cs(x) for x in canon.index_labels(out.index)]
    cols = [cs(x) for x in canon.index_labels(out.columns)]
    g = {}
    for j, arr in enumerate(canon.frame_columns(out)):
        cells = canon.arr_cells(arr)
        for i, r in enumerate(rows):
            g[(r, cols[j])] = cells[i]
    return rows, cols, g


def check(case, ctx):
    ctx.tally('operation', case['op'])
    op = case['op']
    if op in ('frame_concat', 'frame_overlay') and case['seed'] % 3 == 0:
        _go_independence(case, ctx)
    if op in ('frame_concat', 'frame_concat_items', 'frame_concat_series'):
        return _check_frame_concat(case, ctx)
    if op in ('series_concat', 'series_concat_items'):
        return _check_series_concat(case, ctx)
    if op == 'frame_overlay':
        return _check_frame_overlay(case, ctx)
    return _check_series_overlay(case, ctx)


def _strategy(frames, axis):
    """classification of the inputs for the axis-0 vstack path."""
    if axis != 0 or len(frames) < 2:
        return None
    first = frames[0]._blocks
    if all(first.block_compatible(f._blocks, axis=1) for f in frames[1:]):
        return 'block_compatible'
    if all(first.reblock_compatible(f._blocks) for f in frames[1:]):
        return 'reblock_compatible'
    return 'incompatible'


def _check_frame_concat(case, ctx):
    import static_frame as sf
    op, axis, union, fill = case['op'], case['axis'], case['union'], case['fill']
    descs = case['frames']
    frames = [_build_frame(d)[0] for d in descs]
    klass = {'op': op, 'axis': axis, 'union': union, 'n': len(descs), 'index_arg': case['index_arg'], 'collide': case['collide']}
    aligned = [tuple(d['cols'] if axis == 0 else d['rows']) for d in descs]
    nontrivial = len(descs) >= 2 and (len(set(aligned)) > 1 or case['collide'])
    ctx.evaluation(repr(case), nontrivial)
    ctx.sample({'op': op, 'axis': axis, 'union': union, 'shapes': [[len(d['rows']), len(d['cols'])] for d in descs]})
    identical_cols = len(set(aligned)) <= 1
    if axis == 0 and identical_cols:
        st = _strategy(frames, 0)
        if st:
            ctx.tally('vstack_strategy', st)
            klass['strategy'] = st
    kwargs = {'axis': axis, 'union': union, 'fill_value': fill, 'consolidate_blocks': case['consolidate']}
    concat_labels = []
    for d in descs:
        concat_labels.extend(d['rows'] if axis == 0 else d['cols'])
    n_concat = len(concat_labels)
    replaced = None
    if op == 'frame_concat' and case['index_arg'] == 'auto':
        kwargs['index' if axis == 0 else 'columns'] = sf.IndexAutoFactory
        replaced = list(range(n_concat))
    elif op == 'frame_concat' and case['index_arg'] == 'explicit':
        replaced = [f'X{i}' for i in range(n_concat)]
        kwargs['index' if axis == 0 else 'columns'] = replaced
    inputs = frames
    if op == 'frame_concat_series':
        # Series inputs stand for one row (axis 0) / one column (axis 1) named by the Series name
        inputs, descs2 = [], []
        for d, f in zip(descs, frames):
            if len(d['rows' if axis == 0 else 'cols']) == 1 and d['cols'] and d['rows']:
                s = f.iloc[0] if axis == 0 else f.iloc[:, 0]
                inputs.append(s)
            else:
                inputs.append(f)
        # the model is unchanged: a Series is the 1-row / 1-column frame it was taken from
    src = (x for x in inputs) if case['generator_input'] else list(inputs)
    try:
        if op == 'frame_concat_items':
            kw = {k: v for k, v in kwargs.items() if k not in ('index', 'columns')}
            out = sf.Frame.from_concat_items(list(zip(case['keys'], inputs)), **kw)
        else:
            out = sf.Frame.from_concat(src, **kwargs)
        exc = None
    except Exception as e:
        out, exc = None, e
    # expectations
    collision = len({cs(x) for x in concat_labels}) < n_concat and replaced is None and op != 'frame_concat_items'
    if collision:
        if exc is None:
            ctx.violation('duplicate_labels_produced', detail={'labels': concat_labels, 'got': canon.brief(canon.snap(out), 400)}, klass=klass)
        elif not isinstance(exc, sf.ErrorInit):
            ctx.violation('duplicate_labels_wrong_error', detail={'exception': type(exc).__name__, 'message': str(exc)[:200]}, klass=dict(klass, exception=type(exc).__name__))
        else:
            ctx.tally('expected_errors', type(exc).__name__)
        return
    if not descs:
        ctx.tally('outcome_zero_inputs', 'raised:' + type(exc).__name__ if exc else 'returned')
        return
    if op == 'frame_concat_items' and len({cs(x) for x in concat_labels}) < n_concat and False:
        pass
    # aligned axis labels
    sets = [set(cs(x) for x in a) for a in aligned]
    if union:
        al = []
        for a in aligned:
            for x in a:
                if cs(x) not in [cs(y) for y in al]:
                    al.append(x)
    else:
        al = [x for x in aligned[0] if all(cs(x) in s for s in sets)]
    if exc is not None:
        empty_intersection = (not union) and not al
        ctx.violation('valid_concat_raised', detail={'exception': type(exc).__name__, 'message': str(exc)[:300]},
                      klass=dict(klass, exception=type(exc).__name__, empty_intersection=empty_intersection,
                                 zero_sized_input=any(not d['rows'] or not d['cols'] for d in descs)))
        return
    rows, cols, G = _grid(out)
    if op == 'frame_concat_items':
        exp_concat = []
        for key, d in zip(case['keys'], descs):
            exp_concat.extend(('tuple', (cs(key), cs(x))) for x in (d['rows'] if axis == 0 else d['cols']))
    else:
        exp_concat = [cs(x) for x in (replaced if replaced is not None else concat_labels)]
    got_concat, got_aligned = (rows, cols) if axis == 0 else (cols, rows)
    if got_concat != exp_concat:
        ctx.violation('concat_axis_labels', detail={'expected': exp_concat, 'got': got_concat}, klass=klass)
        return
    exp_al = [cs(x) for x in al]
    if sorted(map(repr, got_aligned)) != sorted(map(repr, exp_al)) or len(got_aligned) != len(exp_al):
        ctx.violation('aligned_axis_labels', detail={'expected': exp_al, 'got': got_aligned}, klass=klass)
        return
    if len(set(aligned)) <= 1 and got_aligned != exp_al:
        ctx.violation('aligned_axis_identical_inputs_reordered', detail={'expected': exp_al, 'got': got_aligned}, klass=klass)
        return
    # cells
    pos = 0
    for d in descs:
        own_concat = d['rows'] if axis == 0 else d['cols']
        own_aligned = d['cols'] if axis == 0 else d['rows']
        oa = {cs(x): j for j, x in enumerate(own_aligned)}
        for i, lab in enumerate(own_concat):
            clab = exp_concat[pos]
            pos += 1
            for a in exp_al:
                key = (clab, a) if axis == 0 else (a, clab)
                g = G[key]
                if a in oa:
                    r, c = (i, oa[a]) if axis == 0 else (oa[a], i)
                    e = cs(d['cells'][r][c])
                    if not _cell_eq(g, e):
                        ctx.violation('cell_lost_or_moved', detail={'cell': key, 'expected': e, 'got': g}, klass=klass)
                        return
                else:
                    if not _cell_eq(g, cs(fill)):
                        ctx.violation('fill_cell_wrong', detail={'cell': key, 'expected_fill': cs(fill), 'got': g}, klass=klass)
                        return
    if out.shape != (len(rows), len(cols)):
        ctx.violation('shape_incoherent', detail={'shape': out.shape}, klass=klass)


def _check_series_concat(case, ctx):
    import static_frame as sf
    op = case['op']
    descs = case['series']
    series = [_build_series(d) for d in descs]
    klass = {'op': op, 'n': len(descs), 'collide': case['collide'], 'index_arg': case['index_arg']}
    ctx.evaluation(repr(case), len(descs) >= 2)
    labels = [x for d in descs for x in d['labels']]
    values = [cs(v) for d in descs for v in d['values']]
    try:
        if op == 'series_concat_items':
            out = sf.Series.from_concat_items(list(zip(case['keys'], series)))
        elif case['index_arg'] == 'auto':
            out = sf.Series.from_concat(series, index=sf.IndexAutoFactory)
        else:
            out = sf.Series.from_concat(series)
        exc = None
    except Exception as e:
        out, exc = None, e
    collision = len({cs(x) for x in labels}) < len(labels) and case['index_arg'] is None and op == 'series_concat'
    if collision:
        if exc is None:
            ctx.violation('duplicate_labels_produced', detail={'labels': labels}, klass=klass)
        elif not isinstance(exc, sf.ErrorInit):
            ctx.violation('duplicate_labels_wrong_error', detail={'exception': type(exc).__name__}, klass=dict(klass, exception=type(exc).__name__))
        return
    if not descs:
        return
    if exc is not None:
        ctx.violation('valid_concat_raised', detail={'exception': type(exc).__name__, 'message': str(exc)[:300]},
                      klass=dict(klass, exception=type(exc).__name__, zero_sized_input=any(not d['labels'] for d in descs)))
        return
    if op == 'series_concat_items':
        exp_labels = [('tuple', (cs(k), cs(x))) for k, d in zip(case['keys'], descs) for x in d['labels']]
    elif case['index_arg'] == 'auto':
        exp_labels = [cs(i) for i in range(len(labels))]
    else:
        exp_labels = [cs(x) for x in labels]
    got_labels = [cs(x) for x in canon.index_labels(out.index)]
    got_values = canon.arr_cells(out.values)
    if got_labels != exp_labels:
        ctx.violation('concat_axis_labels', detail={'expected': exp_labels, 'got': got_labels}, klass=klass)
        return
    if len(got_values) != len(values) or not all(_cell_eq(g, e) for g, e in zip(got_values, values)):
        ctx.violation('cell_lost_or_moved', detail={'expected': values, 'got': got_values}, klass=klass)


def _overlay_value(cands):
    """first non-missing value in input order (else the last missing marker)."""
    for v in cands:
        if not canon.is_missing(v):
            return cs(v)
    return ('float', canon.NAN)


def _check_frame_overlay(case, ctx):
    import static_frame as sf
    descs = case['frames']
    frames = [_build_frame(d)[0] for d in descs]
    union = case['union']
    klass = {'op': 'frame_overlay', 'n': len(descs), 'union': union, 'zero_row_input': any(not d['rows'] for d in descs),
             'empty_intersection': (not union) and (not set.intersection(*[set(d['rows']) for d in descs]) or not set.intersection(*[set(d['cols']) for d in descs]))}
    ctx.evaluation(repr(case), len(descs) >= 2)
    try:
        out = sf.Frame.from_overlay(frames, union=union)
    except Exception as e:
        ctx.violation('valid_overlay_raised', detail={'exception': type(e).__name__, 'message': str(e)[:300]}, klass=dict(klass, exception=type(e).__name__))
        return

    def axis_labels(key):
        seqs = [d[key] for d in descs]
        if union:
            out_ = []
            for s in seqs:
                for x in s:
                    if x not in out_:
                        out_.append(x)
            return out_
        return [x for x in seqs[0] if all(x in s for s in seqs)]

    er, ec = axis_labels('rows'), axis_labels('cols')
    rows, cols, G = _grid(out)
    if sorted(map(repr, rows)) != sorted(repr(cs(x)) for x in er) or sorted(map(repr, cols)) != sorted(repr(cs(x)) for x in ec):
        ctx.violation('aligned_axis_labels', detail={'expected_rows': er, 'got_rows': rows, 'expected_cols': ec, 'got_cols': cols}, klass=klass)
        return
    for r in er:
        for c in ec:
            cands = []
            for d in descs:
                if r in d['rows'] and c in d['cols']:
                    cands.append(d['cells'][d['rows'].index(r)][d['cols'].index(c)])
            e = _overlay_value(cands)
            g = G[(cs(r), cs(c))]
            if not _cell_eq(g, e):
                ctx.violation('overlay_cell', detail={'cell': (r, c), 'candidates': [cs(x) for x in cands], 'expected': e, 'got': g}, klass=klass)
                return


def _check_series_overlay(case, ctx):
    import static_frame as sf
    descs = case['series']
    series = [_build_series(d) for d in descs]
    union = case['union']
    klass = {'op': 'series_overlay', 'n': len(descs), 'union': union, 'dtypes': sorted({d['dtype'] for d in descs}),
             'empty_intersection': (not union) and not set.intersection(*[set(d['labels']) for d in descs])}
    ctx.evaluation(repr(case), len(descs) >= 2)
    try:
        out = sf.Series.from_overlay(series, union=union)
    except Exception as e:
        ctx.violation('valid_overlay_raised', detail={'exception': type(e).__name__, 'message': str(e)[:300]}, klass=dict(klass, exception=type(e).__name__))
        return
    seqs = [d['labels'] for d in descs]
    if union:
        labs = []
        for s in seqs:
            for x in s:
                if x not in labs:
                    labs.append(x)
    else:
        labs = [x for x in seqs[0] if all(x in s for s in seqs)]
    got = dict(zip([cs(x) for x in canon.index_labels(out.index)], canon.arr_cells(out.values)))
    if set(got) != {cs(x) for x in labs} or len(out) != len(labs):
        ctx.violation('aligned_axis_labels', detail={'expected': labs, 'got': list(got)}, klass=klass)
        return
    for lab in labs:
        cands = [d['values'][d['labels'].index(lab)] for d in descs if lab in d['labels']]
        e = _overlay_value(cands)
        if not _cell_eq(got[cs(lab)], e):
            ctx.violation('overlay_cell', detail={'label': lab, 'candidates': [cs(x) for x in cands], 'expected': e, 'got': got[cs(lab)]}, klass=klass)
            return
