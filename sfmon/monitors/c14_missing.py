"""C14 — missing-value operations act per cell exactly as specified: isna / notna / dropna / fillna
(element, label-aligned container) / fillna_forward / fillna_backward / fillna_leading /
fillna_trailing / count on Frame and Series, judged against the per-line list model
sfmon.model.c14_refna."""
import itertools

import numpy as np

from sfmon import canon
from sfmon.canon import cs, is_missing, leq, veq
from sfmon.gen import frames as F
from sfmon.gen import labels as L
from sfmon.gen import values as V
from sfmon.model import c14_refna as R

PROPERTY = 'C14'
RULE = ('enumerated part: tables = (shape r x c with 1 <= r, c <= 3, column types in {float64, object, M8[D], int64, bool, <U2}^c, '
        'every subset of the cells of the float/object/datetime columns made missing (NaN / None-or-NaN by cell parity / NaT)); each '
        'table is built in EVERY block layout and every layout receives the whole battery: fillna_forward/backward x limit 0..3 x '
        'axis 0,1; fillna_leading/trailing x axis 0,1 x 2 fill values; isna; notna; dropna x axis x all/any; count x axis x skipna; '
        'fillna(element); plus every missing pattern of Series of length 1..6 (float/object/M8[D]) x limit 0..n. Sampled part: '
        'seeded Frames up to 6x6 (13 dtypes incl. float32/complex128/M8[s]/m8[D], 7 row and 5 column index kinds incl. hierarchies, '
        'Frame/FrameGO, random layout, a few zero-row / zero-column frames) and Series up to 9 with 5 operations each incl. '
        'fillna(Frame/Series) with partially covering, reordered labels, limits up to n+1 and 16 fill values. One evaluation = (table, layout, operation with its '
        'arguments); non-trivial = the table holds at least one missing cell; distinct = hash of (table, layout, operation family '
        'in directional/sided/mark/drop/fill/count) — the limit / axis / value variants of a family count once')
EXPLANATION = ('thorough: the enumerated part is complete for every shape <= 3x3; quick: complete for the shapes 1x1, 1x2, 2x1, 2x2, 1x3, '
               '3x1, 3x2 (every row pattern x layout x limit of a 3-column row is in 1x3) plus a seeded 1/8 sample of the 2x3 and 1/40 of '
               'the 3x3 tables; Series part complete in both tiers. Completeness '
               'is over (shape, column-type word, missing pattern, block layout, operation battery) with one fixed non-missing value '
               'per cell and the None/NaN object marker fixed by cell parity; breakdown.exh_shape_complete counts the tables of the completely '
               'enumerated shapes (9, 81, 729, 15, 225, 3375, 27, 729, 19683 for 1x1..3x3); a run whose enumeration is cut short by the '
               'budget reports a harness error and is inconclusive')
EXHAUSTIVE = {'quick': True, 'thorough': True}
ASSUMPTIONS = ['reference model: per-column / per-row Python lists (sfmon/model/c14_refna.py); limit counts consecutive missing cells since the last non-missing one, 0 = unlimited',
               'filled cells compared at value strength (NumPy promotion of the filled column is allowed; datetime64 may be presented as the equal datetime object after object widening); '
               'cells that must not change compared exactly, modulo the same presentation change when the column dtype was widened; a missing cell that must stay missing may hold any missing marker after widening',
               'dtypes of untouched columns are not judged here (block-granular widening is keyed under C03/C08); names are not judged (isna/dropna do not propagate them by design)',
               'datetime64[ns] columns are left out (object widening turns them into ints: keyed under C07); ints kept within +-2**31 (C07)',
               'label-aligned fill: container labels are of the same kind as the target labels; cells the container does not cover stay as they are']
TIERS = {'quick': {'shards': 8, 'budget_s': 300, 'min_nontrivial': 100000},
         'thorough': {'shards': 16, 'budget_s': 3000, 'min_nontrivial': 1500000}}
ANCHORS = {
    'static_frame.core.util': ['isna_array', 'binary_transition', 'slices_from_targets', 'isin_array', 'dtype_to_fill_value'],
    'static_frame.core.type_blocks': ['TypeBlocks._fillna_sided_axis_0', 'TypeBlocks._fillna_sided_axis_1',
                                      'TypeBlocks._fillna_directional_axis_0', 'TypeBlocks._fillna_directional_axis_1',
                                      'TypeBlocks.dropna_to_keep_locations', 'TypeBlocks.fillna', 'TypeBlocks.isna', 'TypeBlocks.notna',
                                      'TypeBlocks._assign_from_boolean_blocks_by_unit', 'TypeBlocks.fillna_leading',
                                      'TypeBlocks.fillna_trailing', 'TypeBlocks.fillna_forward', 'TypeBlocks.fillna_backward'],
    'static_frame.core.series': ['Series.isna', 'Series.notna', 'Series.dropna', 'Series.fillna', 'Series._fillna_directional',
                                 'Series._fillna_sided', 'Series.count', 'Series._reindex_other_like_iloc'],
    'static_frame.core.frame': ['Frame.isna', 'Frame.notna', 'Frame.dropna', 'Frame.fillna', 'Frame.count', 'Frame.fillna_forward',
                                'Frame.fillna_backward', 'Frame.fillna_leading', 'Frame.fillna_trailing'],
}
REQUIRED_ANCHORS = ['util.isna_array', 'util.binary_transition', 'util.slices_from_targets',
                    'type_blocks.TypeBlocks._fillna_sided_axis_0', 'type_blocks.TypeBlocks._fillna_sided_axis_1',
                    'type_blocks.TypeBlocks._fillna_directional_axis_0', 'type_blocks.TypeBlocks._fillna_directional_axis_1',
                    'type_blocks.TypeBlocks.dropna_to_keep_locations', 'type_blocks.TypeBlocks._assign_from_boolean_blocks_by_unit',
                    'series.Series.fillna', 'series.Series._fillna_directional', 'series.Series._fillna_sided',
                    'series.Series.dropna', 'series.Series.count', 'frame.Frame.fillna', 'frame.Frame.dropna', 'frame.Frame.count']
REQUIRED_TALLIES = [('bridge', 'axis1_fill_source_in_another_block'), ('bridge', 'axis1_run_crossing_blocks_cut_by_limit'),
                    ('bridge', 'axis1_sided_run_crossing_blocks'), ('container_fill', 'frame:partly_covered'),
                    ('container_fill', 'series:partly_covered'), ('exh_shape_complete', '1x3'), ('exh_shape_complete', '3x2'), ('exh_tables', '3x3')]

NAN = float('nan')

# --------------------------------------------------------------------------------------
# enumerated tables

_EXH_DT = {'f': 'float64', 'o': 'object', 'd': 'M8[D]', 'i': 'int64', 'b': 'bool', 's': '<U2'}
_EXH_MISSABLE = 'fod'
_EXH_VALUES = (-7.25, np.datetime64('1999-12-31', 'D'))
_DAY0 = np.datetime64('2020-01-01', 'D')


TECHNIQUE = 'runtime monitoring: reference implementation of the missing-value operations on cell grids (sfmon/model/c14_refna.py) compared cell by cell over all block layouts'


def _exh_value(t, r, c):
    k = 10 * r + c
    if t == 'f':
        return k + 0.5
    if t == 'o':
        return (k + 1, f'r{r}c{c}', k + 0.25)[(r * 3 + c) % 3]
    if t == 'd':
        return _DAY0 + np.timedelta64(k, 'D')
    if t == 'i':
        return 100 + k
    if t == 'b':
        return (r + c) % 2 == 0
    return f'{r}{c}'


def _exh_missing(t, r, c):
    if t == 'f':
        return NAN
    if t == 'd':
        return np.datetime64('NaT', 'D')
    return None if (r + c) % 2 == 0 else NAN


def _exh_spec(nr, nc, types, mask):
    cells = [[_exh_value(types[c], r, c) for c in range(nc)] for r in range(nr)]
    bit = 0
    for r in range(nr):
        for c in range(nc):
            if types[c] in _EXH_MISSABLE:
                if (mask >> bit) & 1:
                    cells[r][c] = _exh_missing(types[c], r, c)
                bit += 1
    return F.FrameSpec(list(range(nr)), list('abcdefgh')[:nc], 'auto', 'str', [_EXH_DT[t] for t in types], cells, 'x')


def _exh_tables(shapes):
    for nr, nc in shapes:
        for types in itertools.product('fodibs', repeat=nc):
            m = sum(1 for t in types if t in _EXH_MISSABLE)
            for mask in range(1 << (nr * m)):
                yield {'kind': 'exh', 'nr': nr, 'nc': nc, 'types': ''.join(types), 'mask': mask}


_EXH_OPS = ([(d, lim, ax) for d in ('forward', 'backward') for lim in (0, 1, 2, 3) for ax in (0, 1)]
            + [(d, ('exh', vi), ax) for d in ('leading', 'trailing') for vi in (0, 1) for ax in (0, 1)]
            + [('isna',), ('notna',)]
            + [('dropna', ax, cond) for ax in (0, 1) for cond in ('all', 'any')]
            + [('count', ax, sk) for ax in (0, 1) for sk in (True, False)]
            + [('fillna', ('exh', 0))])


def _exh_wide_rows():
    """one-row float frames of 6 and 7 columns, every missing pattern: a row long enough for two separate runs of missing cells inside
    one block plus a neighbouring block (the state a directional fill carries from block to block is decided by the run next to
    the edge it leaves by, which differs from the last run it filled only in rows of five or more cells)."""
    for nc in (6, 7):
        for mask in range(1 << nc):
            yield {'kind': 'exh', 'nr': 1, 'nc': nc, 'types': 'f' * nc, 'mask': mask, 'wide': True}


def _wide_layouts(nc):
    lays = [[(j, j + 1, False) for j in range(nc)], [(0, nc, True)]]
    for k in range(1, nc):
        lays.append([(0, k, True), (k, nc, True)])
        lays.append([(0, k, True)] + [(j, j + 1, False) for j in range(k, nc)])
        lays.append([(j, j + 1, False) for j in range(k)] + [(k, nc, True)])
    return lays


def _exh_series_cases():
    for n in range(1, 7):
        for t in _EXH_MISSABLE:
            for mask in range(1 << n):
                yield {'kind': 'exh_series', 'n': n, 'type': t, 'mask': mask}


# --------------------------------------------------------------------------------------
# sampled workloads

_MISSABLE = ['float64', 'object', 'M8[D]', 'float32', 'complex128', 'M8[s]', 'm8[D]']
_NEVER = ['int64', 'bool', '<U5', 'int8', 'uint8', 'S5']
_DTYPES = _MISSABLE + _MISSABLE[:3] + _NEVER
_ROWK = ['auto', 'int', 'str', 'negint', 'IndexDate', 'hier2', 'float']
_COLK = ['str', 'int', 'auto', 'negint', 'hier2']
_FILL_VALUES = [0, -1, 3, 1.5, 1e10, 'fv', '', True, False, np.datetime64('2001-06-15', 'D'), np.timedelta64(3, 'D'), 2 + 1j,
                None, NAN, float('inf'), np.datetime64('2001-06-15T12:30:00', 's')]


def _tame_value(v):
    if isinstance(v, int) and not isinstance(v, bool) and abs(v) > 2 ** 31:
        return v % 97
    return v


def _missing_marker(dt, rng):
    if dt == 'object':
        return rng.choice([None, None, NAN, NAN, np.datetime64('NaT')])
    if dt.startswith('complex'):
        return rng.choice([complex(NAN, 0), complex(1, NAN)])
    if dt[:2] in ('M8', 'm8'):
        return V.normalize(dt, 'NaT')
    return NAN


def _column_with_missing(dt, n, p, rng):
    out = []
    for _ in range(n):
        if dt in _MISSABLE and rng.random() < p:
            out.append(_missing_marker(dt, rng))
        elif dt == 'object' and rng.random() < 0.15:
            out.append(rng.choice([(1, 2), ('a',), (3, 4, 5)]))  # a cell NumPy would read as a sequence wherever a cell is assigned into a slice
        else:
            out.append(_tame_value(V.element(dt, rng, missing_ok=False)))
    return out


_P = [0.0, 0.15, 0.3, 0.3, 0.5, 0.5, 0.7, 0.9, 1.0]


def _frame_spec(rng, max_rows=6, max_cols=6, min_rows=0, min_cols=0, row_kinds=_ROWK, col_kinds=_COLK):
    spec = F.random_spec(rng, max_rows=max_rows, max_cols=max_cols, min_rows=min_rows, min_cols=min_cols, dtypes=_DTYPES,
                         row_kinds=row_kinds, col_kinds=col_kinds, missing_ok=False)
    nr, nc = spec.shape
    p = rng.choice(_P)
    cols = [_column_with_missing(spec.dtypes[j], nr, p, rng) for j in range(nc)]
    spec.cells = [[cols[j][r] for j in range(nc)] for r in range(nr)]
    return spec


def _covering_labels(labels, kind, rng):
    """labels for a fill container: a (possibly empty / complete) subset of the target's labels plus
    labels the target does not hold, shuffled."""
    keep = [l for l in labels if rng.random() < rng.choice([0.3, 0.7, 1.0])]
    extra_kind = 'int' if kind == 'auto' else kind
    extra = L.labels_for(extra_kind, rng.randint(0, 2), rng)
    have = {cs(l) for l in labels}
    out = keep + [e for e in extra if cs(e) not in have]
    seen, uniq = set(), []
    for l in out:
        if cs(l) not in seen:
            seen.add(cs(l))
            uniq.append(l)
    if kind.startswith('hier'):
        uniq.sort(key=lambda t: tuple(repr(cs(x)) for x in t))  # a hierarchy needs contiguous outer labels; still not the target's order
    else:
        rng.shuffle(uniq)
    return uniq, ('int' if kind == 'auto' else kind)


_FILL_DTYPES = ['int64', 'float64', 'object', '<U5', 'bool', 'M8[D]']


def _fill_frame_spec(spec, rng):
    rows, rk = _covering_labels(spec.rows, spec.row_kind, rng)
    cols, ck = _covering_labels(spec.cols, spec.col_kind, rng)
    homog = rng.random() < 0.5
    dt0 = rng.choice(_FILL_DTYPES)
    dts = [dt0 if homog else rng.choice(_FILL_DTYPES) for _ in cols]
    cells = [[_tame_value(V.element(dts[j], rng, missing_ok=rng.random() < 0.3)) for j in range(len(cols))] for _ in rows]
    return F.FrameSpec(rows, cols, rk, ck, dts, cells, None)


def _fill_series_spec(spec, rng):
    labels, kind = _covering_labels(spec.labels, spec.kind, rng)
    dt = rng.choice(_FILL_DTYPES)
    return F.SeriesSpec(labels, kind, dt, [_tame_value(V.element(dt, rng, missing_ok=rng.random() < 0.3)) for _ in labels], None)


def _frame_op(spec, rng):
    nr, nc = spec.shape
    r = rng.random()
    if r < 0.34:
        return (rng.choice(['forward', 'backward']), rng.randint(0, max(nr, nc) + 1), rng.choice([0, 1, 1]))
    if r < 0.54:
        return (rng.choice(['leading', 'trailing']), rng.choice(_FILL_VALUES), rng.choice([0, 1, 1]))
    if r < 0.64:
        return ('fillna', rng.choice(_FILL_VALUES))
    if r < 0.78:
        return ('fillna_frame', _fill_frame_spec(spec, rng))
    if r < 0.88:
        return ('dropna', rng.choice([0, 1]), rng.choice(['all', 'any']))
    if r < 0.94:
        return ('count', rng.choice([0, 1]), rng.random() < 0.8)
    return (rng.choice(['isna', 'notna']),)


def _series_op(spec, rng):
    n = len(spec.labels)
    r = rng.random()
    if r < 0.3:
        return (rng.choice(['forward', 'backward']), rng.randint(0, n + 1))
    if r < 0.5:
        return (rng.choice(['leading', 'trailing']), rng.choice(_FILL_VALUES))
    if r < 0.6:
        return ('fillna', rng.choice(_FILL_VALUES))
    if r < 0.8:
        return ('fillna_series', _fill_series_spec(spec, rng))
    if r < 0.88:
        return ('dropna',)
    if r < 0.94:
        return ('count', rng.random() < 0.8)
    return (rng.choice(['isna', 'notna']),)


def probes(ctx):
    """one literal case per known finding."""
    f1 = F.FrameSpec(['r0', 'r1'], ['a'], 'str', 'str', ['float64'], [[NAN], [1.5]], None)
    f0c = F.FrameSpec(['r0', 'r1'], [], 'str', 'str', [], [[], []], None)
    f0r = F.FrameSpec([], ['a', 'b'], 'str', 'str', ['float64', 'float64'], [], None)
    f2 = F.FrameSpec(['r0', 'r1'], ['a', 'b'], 'str', 'str', ['float64', 'object'], [[NAN, 'x'], [1.5, None]], None)
    disjoint_rows = F.FrameSpec(['q0', 'q1'], ['a', 'b'], 'str', 'str', ['float64', 'float64'], [[7.0, 8.0], [9.0, 10.0]], None)
    return [
        {'kind': 'frame', 'spec': f1, 'layout': [(0, 1, False)], 'go': False, 'ops': [('dropna', 1, 'all')]},
        {'kind': 'frame', 'spec': f0c, 'layout': [], 'go': False, 'ops': [('isna',), ('forward', 0, 0), ('dropna', 0, 'any')]},
        {'kind': 'frame', 'spec': f0r, 'layout': [(0, 1, False), (1, 2, False)], 'go': False, 'ops': [('leading', 0.0, 0)]},
        {'kind': 'frame', 'spec': f2, 'layout': [(0, 1, False), (1, 2, False)], 'go': False, 'ops': [('fillna_frame', disjoint_rows)]},
        {'kind': 'series', 'spec': F.SeriesSpec([('A', 1), ('A', 2), ('B', 1)], 'hier2', 'float64', [NAN, 1.0, NAN], None),
         'ops': [('fillna_series', F.SeriesSpec([('A', 1), ('B', 1)], 'hier2', 'float64', [10.0, 20.0], None))]},
    ]


_QUICK_COMPLETE = [(1, 1), (1, 2), (2, 1), (2, 2), (1, 3), (3, 1), (3, 2)]
_QUICK_SAMPLED = {(2, 3): 8, (3, 3): 40}


def generate(ctx):
    rng = ctx.rng
    finished = False
    try:
        for case in _enumerated(ctx, rng):
            yield case
        finished = True
    finally:
        if not finished:
            # the runner stopped consuming (budget expired): the EXHAUSTIVE claim does not hold for this run
            ctx.harness_errors.append('C14: the enumerated part was cut short before completion; exhaustiveness not established')
    for _ in range(ctx.n(20000, 400000)):
        if rng.random() < 0.72:
            zero = rng.random() < 0.025
            spec = _frame_spec(rng, min_rows=0 if zero else 1, min_cols=0 if zero else 1, max_rows=2 if zero else 6, max_cols=2 if zero else 6)
            lays = F.layouts(spec.dtypes)
            yield {'kind': 'frame', 'spec': spec, 'layout': rng.choice(lays), 'go': rng.random() < 0.15,
                   'ops': [_frame_op(spec, rng) for _ in range(5)]}
        else:
            spec = F.random_series_spec(rng, max_n=9, dtypes=_MISSABLE + _MISSABLE[:3] + ['int64', 'bool', '<U5'],
                                        kinds=_ROWK + ['mixed'], missing_ok=False)
            spec.values = _column_with_missing(spec.dtype, len(spec.labels), rng.choice(_P), rng)
            yield {'kind': 'series', 'spec': spec, 'ops': [_series_op(spec, rng) for _ in range(5)]}


def _enumerated(ctx, rng):
    if ctx.tier == 'quick':
        for case in list(_exh_tables(_QUICK_COMPLETE))[ctx.shard::ctx.nshards]:
            yield case
        for shape, frac in _QUICK_SAMPLED.items():
            share = list(_exh_tables([shape]))[ctx.shard::ctx.nshards]
            for i in sorted(rng.sample(range(len(share)), len(share) // frac)):
                yield dict(share[i], sampled=True)
    else:
        for case in list(_exh_tables([(nr, nc) for nr in (1, 2, 3) for nc in (1, 2, 3)]))[ctx.shard::ctx.nshards]:
            yield case
    for case in list(_exh_series_cases())[ctx.shard::ctx.nshards]:
        yield case
    for case in list(_exh_wide_rows())[ctx.shard::ctx.nshards]:
        yield case


# --------------------------------------------------------------------------------------
# judging

_FAMILY = {'forward': 'directional', 'backward': 'directional', 'leading': 'sided', 'trailing': 'sided', 'isna': 'mark',
           'notna': 'mark', 'dropna': 'drop', 'fillna': 'fill', 'fillna_frame': 'fill', 'fillna_series': 'fill', 'count': 'count'}


def _value_of(v):
    if isinstance(v, tuple) and len(v) == 2 and v[0] == 'exh':
        return _EXH_VALUES[v[1]]
    return v


def _vkind(v):
    return cs(v)[0]


def _call(fn):
    try:
        return fn(), None
    except Exception as e:  # judged by the caller
        return None, e


def _feq(e, g):
    return e == g or veq(e, g) or leq(e, g)


class _Table:
    """the input as plain lists with what every judgement needs precomputed once per table."""
    __slots__ = ('cells', 'rows', 'cols', 'nr', 'nc', 'dtypes', 'ocs', 'omiss', 'n_missing', 'colkind', 'npdtypes')

    def __init__(self, cells, rows, cols, dtypes):
        self.cells, self.rows, self.cols, self.dtypes = cells, rows, cols, dtypes
        self.nr, self.nc = len(rows), len(cols)
        self.ocs = [[cs(v) for v in row] for row in cells]
        self.omiss = [[is_missing(v) for v in row] for row in cells]
        self.n_missing = sum(sum(r) for r in self.omiss)
        self.npdtypes = [np.dtype(object if d == 'object' else d) for d in dtypes]
        self.colkind = [d.kind for d in self.npdtypes]


def _fill_model(t, exp, filled):
    """('fill', expected table, filled cells, per-column canonical cells for the exact fast path)."""
    return ('fill', exp, filled, [[cs(exp[r][c]) for r in range(t.nr)] for c in range(t.nc)])


def _model_frame(t, op):
    """expected outcome of one operation on table t, from the list model."""
    k = op[0]
    if k in ('forward', 'backward'):
        lim, ax = op[1], op[2]
        exp, filled = R.apply_lines(t.cells, t.nr, t.nc, ax, lambda line: R.directional_line(line, k == 'forward', lim))
        return _fill_model(t, exp, filled)
    if k in ('leading', 'trailing'):
        val, ax = _value_of(op[1]), op[2]
        exp, filled = R.apply_lines(t.cells, t.nr, t.nc, ax, lambda line: R.sided_line(line, k == 'leading', val))
        return _fill_model(t, exp, filled)
    if k == 'fillna':
        exp, filled = R.fill_element(t.cells, _value_of(op[1]))
        return _fill_model(t, exp, filled)
    if k == 'fillna_frame':
        fs = op[1]
        exp, filled = R.fill_container(t.cells, t.rows, t.cols, fs.rows, fs.cols, fs.cells)
        return _fill_model(t, exp, filled)
    if k == 'isna':
        return ('mark', R.isna_table(t.cells))
    if k == 'notna':
        return ('mark', [[not b for b in row] for row in R.isna_table(t.cells)])
    if k == 'dropna':
        return ('drop', op[1], R.dropna_keep(t.cells, t.nr, t.nc, op[1], op[2]))
    if k == 'count':
        return ('count', op[1], R.count(t.cells, t.nr, t.nc, op[1], op[2]))
    raise KeyError(k)


def _run_frame(f, op):
    k = op[0]
    if k == 'forward':
        return f.fillna_forward(op[1], axis=op[2])
    if k == 'backward':
        return f.fillna_backward(op[1], axis=op[2])
    if k == 'leading':
        return f.fillna_leading(_value_of(op[1]), axis=op[2])
    if k == 'trailing':
        return f.fillna_trailing(_value_of(op[1]), axis=op[2])
    if k == 'fillna':
        return f.fillna(_value_of(op[1]))
    if k == 'fillna_frame':
        return f.fillna(F.build_frame(op[1]))
    if k == 'isna':
        return f.isna()
    if k == 'notna':
        return f.notna()
    if k == 'dropna':
        return f.dropna(axis=op[1], condition=np.all if op[2] == 'all' else np.any)
    if k == 'count':
        return f.count(axis=op[1], skipna=op[2])
    raise KeyError(k)


def _shape_class(nr, nc):
    if nr == 0 or nc == 0:
        return 'empty'
    if nr == 1 and nc == 1:
        return '1x1'
    if nc == 1:
        return '1col'
    if nr == 1:
        return '1row'
    return 'general'


def _op_klass(kind, op, extra):
    k = {'kind': kind, 'op': op[0]}
    if op[0] in ('forward', 'backward'):
        k['limit'] = op[1]
        if kind == 'frame':
            k['axis'] = op[2]
    elif op[0] in ('leading', 'trailing', 'fillna'):
        k['value_kind'] = _vkind(_value_of(op[1]))
        k['value_missing'] = is_missing(_value_of(op[1]))
        if kind == 'frame' and op[0] != 'fillna':
            k['axis'] = op[2]
    elif op[0] == 'dropna' and kind == 'frame':
        k['axis'], k['condition'] = op[1], op[2]
    elif op[0] == 'count':
        k['skipna'] = op[-1]
        if kind == 'frame':
            k['axis'] = op[1]
    elif op[0] == 'fillna_frame':
        fs = op[1]
        k['container_shape_class'] = _shape_class(*fs.shape)
        k['container_dtypes_homogeneous'] = len(set(fs.dtypes)) <= 1
    elif op[0] == 'fillna_series':
        k['container_len'] = len(op[1].labels)
        k['container_dtype'] = op[1].dtype
    k.update(extra)
    return k


def _labels_same(a, b):
    """two index objects present the same labels (identity short-cuts: indices are immutable)."""
    if a is b:
        return True
    return canon.snap_index(a)['labels'] == canon.snap_index(b)['labels']


def _cell_fill_verdict(t, r, c, exp, filled, g, widened):
    """None when cell (r, c) of a fill result is as specified, else the name of the failure."""
    o = t.ocs[r][c]
    if not t.omiss[r][c]:
        if g == o or (widened and _feq(o, g)):
            return None
        return 'non_missing_cell_altered'
    if (r, c) in filled:
        e = cs(exp[r][c])
        if _feq(e, g):
            return None
        if _is_missing_cs(e):
            # the fill value is itself a missing marker: the cell stays missing, NumPy's object / dtype
            # conversion may present another marker (NaT -> None)
            return None if _is_missing_cs(g) else 'filled_value_wrong'
        return 'missing_cell_not_filled' if _is_missing_cs(g) else 'filled_value_wrong'
    if g == o or (widened and _is_missing_cs(g)):
        return None
    return 'cell_filled_beyond_specification'


def _is_missing_cs(c):
    k = c[0]
    if k == 'None':
        return True
    if k == 'float':
        return c[1] == canon.NAN
    if k == 'complex':
        return canon.NAN in c[1]
    if k in ('dt64', 'td64'):
        return c[2] == canon.NAT
    return False


def _judge_fill(ctx, t, f, out, model, klass, block_of):
    import static_frame as sf
    _, exp, filled, exp_cs = model
    if not isinstance(out, sf.Frame) or tuple(out.shape) != (t.nr, t.nc):
        ctx.violation('fill_changed_shape', detail={'got': canon.brief(canon.snap(out))}, klass=klass)
        return
    if not (_labels_same(out.index, f.index) and _labels_same(out.columns, f.columns)):
        ctx.violation('fill_changed_labels', detail={'got': canon.brief(canon.snap(out))}, klass=klass)
        return
    cols = canon.frame_columns(out) if t.nc else []
    for c in range(t.nc):
        arr = cols[c]
        got = canon.arr_cells(arr)
        if got == exp_cs[c]:
            continue  # exactly the model's cells
        widened = arr.dtype != t.npdtypes[c]
        for r in range(t.nr):
            bad = _cell_fill_verdict(t, r, c, exp, filled, got[r], widened)
            if bad:
                kl = dict(klass, col_dtype_kind=t.colkind[c], col_widened=bool(widened))
                if block_of is not None:
                    kl['col_block_width'] = block_of.count(block_of[c])
                ctx.violation(bad, detail={'cell': (r, c), 'input': t.ocs[r][c],
                                           'expected': cs(exp[r][c]), 'got': got[r], 'result_dtype': str(arr.dtype),
                                           'input_table': [[canon.brief(v, 40) for v in row] for row in t.cells]},
                              klass=kl)
                return


def _judge_mark(ctx, t, f, out, exp, klass):
    import static_frame as sf
    if not isinstance(out, sf.Frame) or tuple(out.shape) != (t.nr, t.nc) or not (
            _labels_same(out.index, f.index) and _labels_same(out.columns, f.columns)):
        ctx.violation('mark_changed_shape_or_labels', detail={'got': canon.brief(canon.snap(out))}, klass=klass)
        return
    cols = canon.frame_columns(out) if t.nc else []
    for c in range(t.nc):
        got = canon.arr_cells(cols[c])
        for r in range(t.nr):
            if got[r] != ('bool', exp[r][c]):
                ctx.violation('isna_flag_wrong', detail={'cell': (r, c), 'input': t.ocs[r][c], 'expected': exp[r][c], 'got': got[r]},
                              klass=dict(klass, col_dtype_kind=t.colkind[c], cell_kind=t.ocs[r][c][0]))
                return


def _judge_drop(ctx, t, f, out, axis, keep, klass):
    import static_frame as sf
    rows = keep if axis == 0 else list(range(t.nr))
    cols = keep if axis == 1 else list(range(t.nc))
    klass = dict(klass, kept=len(keep), of=t.nr if axis == 0 else t.nc)
    if not isinstance(out, sf.Frame):
        ctx.violation('dropna_result_not_a_frame', detail={'got': canon.brief(canon.snap(out))}, klass=klass)
        return
    fi, fc = canon.snap_index(f.index)['labels'], canon.snap_index(f.columns)['labels']
    gi, gc = canon.snap_index(out.index)['labels'], canon.snap_index(out.columns)['labels']
    ei, ec = tuple(fi[r] for r in rows), tuple(fc[c] for c in cols)
    if gi != ei or gc != ec or tuple(out.shape) != (len(rows), len(cols)):
        ctx.violation('dropna_removed_wrong_lines', detail={'expected_index': ei, 'expected_columns': ec, 'got_index': gi, 'got_columns': gc,
                                                            'got_shape': tuple(out.shape), 'input_isna': R.isna_table(t.cells)}, klass=klass)
        return
    gcols = canon.frame_columns(out) if cols else []
    for j, c in enumerate(cols):
        got = canon.arr_cells(gcols[j])
        want = [t.ocs[r][c] for r in rows]
        if got != want:
            ctx.violation('dropna_altered_kept_cells', detail={'column': c, 'expected': want, 'got': got}, klass=klass)
            return


def _judge_count(ctx, t, f, out, axis, exp, klass):
    import static_frame as sf
    if not isinstance(out, sf.Series):
        ctx.violation('count_wrong', detail={'got': canon.brief(canon.snap(out))}, klass=klass)
        return
    want_labels = canon.snap_index(f.columns if axis == 0 else f.index)['labels']
    got = canon.snap(out)
    if got['index']['labels'] != want_labels or list(got['values']) != [('int', n) for n in exp]:
        ctx.violation('count_wrong', detail={'expected': exp, 'expected_labels': want_labels, 'got': canon.brief(got, 800)}, klass=klass)


def _bridge_tallies(ctx, t, op, block_of):
    """workload classes of the axis-1 carry logic, read off the model."""
    k = op[0]
    if k in ('forward', 'backward'):
        lim = op[1]
        fwd = k == 'forward'
        for r in range(t.nr):
            order = range(t.nc) if fwd else range(t.nc - 1, -1, -1)
            src, run_blocks, run = None, set(), 0
            for c in order:
                if t.omiss[r][c]:
                    run += 1
                    run_blocks.add(block_of[c])
                    if src is not None:
                        if (lim == 0 or run <= lim) and block_of[src] != block_of[c]:
                            ctx.tally('bridge', 'axis1_fill_source_in_another_block')
                        if lim and run == lim + 1 and (len(run_blocks) > 1 or block_of[src] not in run_blocks):
                            ctx.tally('bridge', 'axis1_run_crossing_blocks_cut_by_limit')
                else:
                    src, run_blocks, run = c, set(), 0
    elif k in ('leading', 'trailing'):
        for r in range(t.nr):
            order = range(t.nc) if k == 'leading' else range(t.nc - 1, -1, -1)
            blocks = set()
            for c in order:
                if not t.omiss[r][c]:
                    break
                blocks.add(block_of[c])
            if len(blocks) > 1:
                ctx.tally('bridge', 'axis1_sided_run_crossing_blocks')


def _common(labels, other):
    """how many of `labels` the other label list holds: 'none' (also when there are no labels) / 'some' / 'all'."""
    have = {cs(x) for x in other}
    n = sum(1 for l in labels if cs(l) in have)
    return 'none' if n == 0 else 'all' if n == len(labels) else 'some'


def _frame_battery(ctx, t, f, lay, ops, models, case_id, extra_klass):
    """run and judge a list of operations on one built frame."""
    block_of = []
    for b, (a, z, _) in enumerate(lay):
        block_of.extend([b] * (z - a))
    lname = F.layout_name(lay)
    nontrivial = t.n_missing > 0
    base = dict(extra_klass, nblocks=len(lay), multi_block=len(lay) > 1, shape_class=_shape_class(t.nr, t.nc),
                zero_rows=t.nr == 0, zero_cols=t.nc == 0, single_1d_block=len(lay) == 1 and not lay[0][2],
                any_2d_block=any(two for _, _, two in lay), all_missing=t.n_missing == t.nr * t.nc and t.nr * t.nc > 0)
    fps = {}
    for i, op in enumerate(ops):
        fam = _FAMILY[op[0]]
        if fam not in fps:
            fps[fam] = canon.fp((case_id, lname, fam))
        ctx.evaluation(fps[fam], nontrivial)
        model = models[i] if models is not None else _model_frame(t, op)
        if len(op) > 2 and op[0] in ('forward', 'backward', 'leading', 'trailing') and op[2] == 1 and len(lay) > 1:
            _bridge_tallies(ctx, t, op, block_of)
        out, exc = _call(lambda: _run_frame(f, op))
        klass = _op_klass('frame', op, base)
        if op[0] == 'fillna_frame':
            klass['container_common_rows'], klass['container_common_cols'] = _common(t.rows, op[1].rows), _common(t.cols, op[1].cols)
        if exc is not None:
            ctx.violation('valid_call_raised', detail={'exception': type(exc).__name__, 'message': str(exc)[:300], 'op': canon.brief(op, 300),
                                                       'layout': lname, 'dtypes': t.dtypes},
                          klass=dict(klass, exception=type(exc).__name__))
            continue
        if model[0] == 'fill':
            _judge_fill(ctx, t, f, out, model, klass, block_of)
        elif model[0] == 'mark':
            _judge_mark(ctx, t, f, out, model[1], klass)
        elif model[0] == 'drop':
            _judge_drop(ctx, t, f, out, model[1], model[2], klass)
        else:
            _judge_count(ctx, t, f, out, model[1], model[2], klass)


def check(case, ctx):
    kind = case['kind']
    if kind == 'exh':
        return _check_exh(case, ctx)
    if kind == 'exh_series':
        return _check_exh_series(case, ctx)
    if kind == 'frame':
        return _check_frame(case, ctx)
    return _check_series(case, ctx)


def _check_exh(case, ctx):
    nr, nc, types, mask = case['nr'], case['nc'], case['types'], case['mask']
    spec = _exh_spec(nr, nc, types, mask)
    t = _Table(spec.cells, spec.rows, spec.cols, spec.dtypes)
    models = [_model_frame(t, op) for op in _EXH_OPS]
    shape = f'{nr}x{nc}'
    ctx.tally('exh_tables', shape)
    if not case.get('sampled') and not case.get('wide'):
        ctx.tally('exh_shape_complete', shape)
    ctx.tally('exh_missing_cells', t.n_missing)
    lays = F.layouts(spec.dtypes) if not case.get('wide') else _wide_layouts(nc)
    for lay in lays:
        f = F.build_frame(spec, lay)
        ctx.tally('exh_layouts', F.layout_name(lay) if not case.get('wide') else 'wide_row')
        _frame_battery(ctx, t, f, lay, _EXH_OPS, models, ('exh', nr, nc, types, mask), {'exh': True})
    for op in _EXH_OPS:
        ctx.tally('ops', 'frame.' + op[0], len(lays))
    if mask == 0 and types in ('fo', 'fdi'):
        ctx.sample({'exh_table': [[canon.brief(v, 30) for v in row] for row in spec.cells], 'dtypes': spec.dtypes,
                    'layouts': [F.layout_name(l) for l in lays], 'ops': len(_EXH_OPS)})


def _check_frame(case, ctx):
    import static_frame as sf
    spec, lay = case['spec'], case['layout']
    f = F.build_frame(spec, lay, cls=sf.FrameGO if case.get('go') else None)
    t = _Table(spec.cells, spec.rows, spec.cols, spec.dtypes)
    ctx.tally('frame_shape_class', _shape_class(t.nr, t.nc))
    ctx.tally('frame_blocks', len(lay))
    ctx.tally('frame_cls', 'FrameGO' if case.get('go') else 'Frame')
    ctx.tally('index_kind', f'{spec.row_kind}/{spec.col_kind}')
    for d in set(spec.dtypes):
        ctx.tally('dtype', d)
    for op in case['ops']:
        ctx.tally('ops', 'frame.' + op[0])
        if op[0] == 'fillna_frame':
            cr, cc = _common(spec.rows, op[1].rows), _common(spec.cols, op[1].cols)
            ctx.tally('container_fill', 'frame:' + ('nothing_covered' if 'none' in (cr, cc) else 'fully_covered' if (cr, cc) == ('all', 'all')
                                                    else 'partly_covered'))
            ctx.tally('container_overlap', f'rows={cr},cols={cc}')
    if not ctx.current_is_probe:
        ctx.sample({'frame': spec.brief(), 'layout': F.layout_name(lay), 'ops': [canon.brief(o, 80) for o in case['ops']]})
    _frame_battery(ctx, t, f, lay, case['ops'], None, ('frame', repr(spec), case.get('go')),
                   {'exh': False, 'row_kind': spec.row_kind, 'col_kind': spec.col_kind, 'go': bool(case.get('go'))})


# --------------------------------------------------------------------------------------
# Series

def _model_series(values, labels, op):
    k = op[0]
    if k in ('forward', 'backward'):
        return ('fill',) + R.directional_line(values, k == 'forward', op[1])
    if k in ('leading', 'trailing'):
        return ('fill',) + R.sided_line(values, k == 'leading', _value_of(op[1]))
    if k == 'fillna':
        v = _value_of(op[1])
        pos = {i for i, x in enumerate(values) if is_missing(x)}
        return ('fill', [v if i in pos else x for i, x in enumerate(values)], pos)
    if k == 'fillna_series':
        fs = op[1]
        exp, filled = R.fill_container([[v] for v in values], labels, ['c'], fs.labels, ['c'], [[v] for v in fs.values])
        return ('fill', [row[0] for row in exp], {r for r, _ in filled})
    if k == 'isna':
        return ('mark', [is_missing(v) for v in values])
    if k == 'notna':
        return ('mark', [not is_missing(v) for v in values])
    if k == 'dropna':
        return ('drop', [i for i, v in enumerate(values) if not is_missing(v)])
    if k == 'count':
        return ('count', sum(1 for v in values if not (op[1] and is_missing(v))))
    raise KeyError(k)


def _run_series(s, op):
    k = op[0]
    if k == 'forward':
        return s.fillna_forward(op[1])
    if k == 'backward':
        return s.fillna_backward(op[1])
    if k == 'leading':
        return s.fillna_leading(_value_of(op[1]))
    if k == 'trailing':
        return s.fillna_trailing(_value_of(op[1]))
    if k == 'fillna':
        return s.fillna(_value_of(op[1]))
    if k == 'fillna_series':
        return s.fillna(F.build_series(op[1]))
    if k == 'isna':
        return s.isna()
    if k == 'notna':
        return s.notna()
    if k == 'dropna':
        return s.dropna()
    if k == 'count':
        return s.count(skipna=op[1])
    raise KeyError(k)


def _series_battery(ctx, spec, ops, case_id, extra_klass):
    import static_frame as sf
    s = F.build_series(spec)
    values, labels, n = spec.values, spec.labels, len(spec.labels)
    t = _Table([[v] for v in values], labels, ['c'], [spec.dtype])
    base = dict(extra_klass, n=min(n, 3), index_kind=spec.kind, dtype_kind=t.colkind[0],
                all_missing=n > 0 and t.n_missing == n)
    in_labels = canon.snap_index(s.index)['labels']
    fps = {}
    for op in ops:
        fam = _FAMILY[op[0]]
        if fam not in fps:
            fps[fam] = canon.fp((case_id, 'series', fam))
        ctx.evaluation(fps[fam], t.n_missing > 0)
        ctx.tally('ops', 'series.' + op[0])
        model = _model_series(values, labels, op)
        klass = _op_klass('series', op, base)
        if op[0] == 'fillna_series':
            klass['container_common_labels'] = _common(labels, op[1].labels)
        out, exc = _call(lambda: _run_series(s, op))
        if exc is not None:
            ctx.violation('valid_call_raised', detail={'exception': type(exc).__name__, 'message': str(exc)[:300], 'op': canon.brief(op, 300)},
                          klass=dict(klass, exception=type(exc).__name__))
            continue
        if model[0] == 'count':
            if cs(out) != ('int', model[1]):
                ctx.violation('count_wrong', detail={'expected': model[1], 'got': cs(out)}, klass=klass)
            continue
        if not isinstance(out, sf.Series):
            ctx.violation('result_not_a_series', detail={'got': canon.brief(canon.snap(out))}, klass=klass)
            continue
        got_labels = in_labels if out.index is s.index else canon.snap_index(out.index)['labels']
        got = canon.arr_cells(out.values)
        if model[0] == 'drop':
            keep = model[1]
            if got_labels != tuple(in_labels[i] for i in keep) or got != [t.ocs[i][0] for i in keep]:
                ctx.violation('dropna_removed_wrong_lines', detail={'expected_positions': keep, 'got_labels': got_labels, 'got': got},
                              klass=dict(klass, kept=len(keep), of=n))
            continue
        if got_labels != in_labels or len(got) != n:
            ctx.violation('fill_changed_labels' if model[0] == 'fill' else 'mark_changed_shape_or_labels',
                          detail={'got_labels': got_labels, 'got': got}, klass=klass)
            continue
        if model[0] == 'mark':
            if got != [('bool', b) for b in model[1]]:
                ctx.violation('isna_flag_wrong', detail={'input': [t.ocs[i][0] for i in range(n)], 'expected': model[1], 'got': got}, klass=klass)
            continue
        exp, filled = [[v] for v in model[1]], {(i, 0) for i in model[2]}
        widened = bool(out.values.dtype != t.npdtypes[0])
        for i in range(n):
            bad = _cell_fill_verdict(t, i, 0, exp, filled, got[i], widened)
            if bad:
                ctx.violation(bad, detail={'position': i, 'input': [t.ocs[j][0] for j in range(n)], 'expected': cs(exp[i][0]), 'got': got[i],
                                           'result_dtype': str(out.values.dtype)},
                              klass=dict(klass, col_dtype_kind=t.colkind[0], col_widened=widened))
                break


def _check_exh_series(case, ctx):
    n, ty, mask = case['n'], case['type'], case['mask']
    values = [_exh_missing(ty, i, 0) if (mask >> i) & 1 else _exh_value(ty, i, 0) for i in range(n)]
    spec = F.SeriesSpec([f'k{i}' for i in range(n)], 'str', _EXH_DT[ty], values, 's')
    ops = ([(d, lim) for d in ('forward', 'backward') for lim in range(n + 1)]
           + [(d, ('exh', vi)) for d in ('leading', 'trailing') for vi in (0, 1)]
           + [('isna',), ('notna',), ('dropna',), ('count', True), ('count', False), ('fillna', ('exh', 0))])
    ctx.tally('exh_series', f'n={n}')
    _series_battery(ctx, spec, ops, ('exh_series', n, ty, mask), {'exh': True})


def _check_series(case, ctx):
    spec = case['spec']
    ctx.tally('series_dtype', spec.dtype)
    ctx.tally('series_index_kind', spec.kind)
    for op in case['ops']:
        if op[0] == 'fillna_series':
            cov = _common(spec.labels, op[1].labels)
            ctx.tally('container_fill', 'series:' + {'none': 'nothing_covered', 'all': 'fully_covered', 'some': 'partly_covered'}[cov])
    if not ctx.current_is_probe:
        ctx.sample({'series': spec.brief(), 'ops': [canon.brief(o, 80) for o in case['ops']]})
    _series_battery(ctx, spec, case['ops'], ('series', repr(spec)), {'exh': False})
