"""C08 — functional updates change only what they address (assign / drop / mask / astype /
relabel / rename / insert_before|after on Frame and Series); the receiver is left untouched."""
import numpy as np

from sfmon import canon
from sfmon.canon import cs, veq
from sfmon.gen import frames as F
from sfmon.gen import keys as K
from sfmon.gen import labels as L
from sfmon.gen import values as V

PROPERTY = 'C08'
RULE = ('cases = (FrameSpec|SeriesSpec, block layout, interface in assign/drop/mask/astype/relabel/rename/insert, route in '
        'iloc/loc/getitem/bloc, key descriptors, value shape in scalar/array/series/frame/apply) from seeded generators; the '
        'reference is a copy of the spec table with exactly the addressed cells / rows / columns / labels changed; non-trivial = '
        'the keys address a proper non-empty part of a container with >= 2 positions on a keyed axis; distinct = hash of the case')
EXPLANATION = 'every case also re-snapshots the receiver after the call (it must be unchanged)'
EXHAUSTIVE = {'quick': False, 'thorough': False}
ASSUMPTIONS = ['arrays are placed positionally in key order (NumPy semantics); labelled values by label; addressed cells a labelled value does not cover may hold the original or the fill value',
               'astype reference = numpy astype of the isolated column', 'ints kept within +-2**31 so that NumPy float promotion (C07) is not reported here']
TIERS = {'quick': {'shards': 8, 'budget_s': 150, 'min_nontrivial': 4000},
         'thorough': {'shards': 16, 'budget_s': 1500, 'min_nontrivial': 50000}}
HOOKS = ('typeblocks',)
ANCHORS = {
    'static_frame.core.frame': ['FrameAssignILoc.__call__', 'FrameAssignBLoc.__call__', 'Frame._drop_iloc', 'Frame._extract_iloc_mask',
                                'Frame._reindex_other_like_iloc', 'Frame._insert', 'Frame.relabel', 'Frame.rename', 'FrameAsType.__call__'],
    'static_frame.core.series': ['SeriesAssign.__call__', 'Series._drop_iloc', 'Series._extract_iloc_mask', 'Series.relabel', 'Series.astype'],
    'static_frame.core.container_util': ['key_to_ascending_key', 'get_block_match'],
    'static_frame.core.type_blocks': ['TypeBlocks._assign_from_iloc_by_unit', 'TypeBlocks._assign_from_iloc_by_blocks',
                                      'TypeBlocks._assign_from_boolean_blocks_by_unit', 'TypeBlocks._drop_blocks', 'TypeBlocks._mask_blocks',
                                      'TypeBlocks._astype_blocks', 'TypeBlocks._astype_blocks_from_dtypes', 'TypeBlocks._key_to_block_slices'],
}
REQUIRED_ANCHORS = ['frame.FrameAssignILoc.__call__', 'frame.FrameAssignBLoc.__call__', 'type_blocks.TypeBlocks._drop_blocks',
                    'type_blocks.TypeBlocks._mask_blocks', 'type_blocks.TypeBlocks._astype_blocks',
                    'type_blocks.TypeBlocks._assign_from_iloc_by_unit', 'type_blocks.TypeBlocks._assign_from_iloc_by_blocks',
                    'series.SeriesAssign.__call__', 'container_util.key_to_ascending_key']

_DTYPES = ['bool', 'int64', 'float64', '<U5', 'object', 'int8', 'float32', 'M8[D]', 'complex128']
_VAL_DTYPES = ['bool', 'int64', 'float64', '<U5', 'object', 'int8']
_ROWK = ['auto', 'int', 'str', 'negint', 'IndexDate', 'float', 'hier2']
_COLK = ['str', 'int', 'auto', 'negint', 'hier2']
_HIER_OK = ('label', 'labels', 'bools', 'iloc', 'null')


TECHNIQUE = 'runtime monitoring: reference-model oracle for functional updates (addressed cells = value, every other cell / label / dtype unchanged, receiver snapshot unchanged, grow-only result and receiver independent)'


def _tame_value(v):
    if isinstance(v, int) and not isinstance(v, bool) and abs(v) > 2 ** 31:
        return v % 97
    return v


def _tame(spec):
    spec.cells = [[_tame_value(v) for v in row] for row in spec.cells]
    return spec


def _tame_series(spec):
    spec.values = [_tame_value(v) for v in spec.values]
    return spec


def _val(rng, dt=None):
    dt = dt or rng.choice(_VAL_DTYPES)
    for _ in range(20):
        v = _tame_value(V.element(dt, rng))
        if not isinstance(v, bytes):  # str/bytes mixing is outside the claim
            return v
    return 0


def _label_key(labels, kind, rng):
    for _ in range(50):
        d = K.gen_label(labels, kind, rng, allow_absent=False)
        if kind.startswith('hier') and d[0] not in _HIER_OK:
            continue
        if d[0] in ('dtstr', 'dt64', 'dateobj', 'dtslice', 'dtlabels', 'serieskey', 'indexkey'):
            continue
        if d[0] == 'lslice' and d[3] is not None and d[3] < 0:
            continue  # descending label slices: known finding owned by C04
        if d[0] == 'iloc' and d[1][0] in ('list', 'array') and len(set(x % max(1, len(labels)) for x in d[1][1])) != len(d[1][1]):
            continue
        return d
    return ('null',)


def _pos_key(n, rng):
    return K.gen_positional(n, rng, allow_repeat=False)


def probes(ctx):
    spec = F.FrameSpec([0, 1, 2], ['a', 'b', 'c'], 'auto', 'str', ['int64', 'int64', 'int64'], [[1, 2, 3], [4, 5, 6], [7, 8, 9]], 'nm')
    two_d = [(0, 3, True)]
    return [
        {'kind': 'frame', 'spec': spec, 'layout': two_d, 'iface': 'mask', 'route': 'iloc', 'rowkey': ('int', 0), 'colkey': ('int', 1)},
        {'kind': 'frame', 'spec': spec, 'layout': two_d, 'iface': 'assign_bloc', 'mask': [[True, False, False]] * 3, 'v': 'x', 'mask_shuffle': False},
    ] + [
        {'kind': 'frame', 'spec': spec, 'layout': two_d, 'iface': 'assign', 'route': 'iloc', 'rowkey': ('null',), 'colkey': ('list', [2, 0]),
         'vshape': 'array', 'vseed': vs, 'fill': None} for vs in range(4)
    ]


def generate(ctx):
    rng = ctx.rng
    for _ in range(ctx.n(26000, 400000)):
        r = rng.random()
        if r < 0.03:
            # relabel by whole levels of a hierarchy (depth 3 mostly: the level tree then has inner nodes below the dropped level)
            depth = rng.choice([3, 3, 3, 2])
            labels = L.tree_labels(depth, rng.randint(2, 9), rng)
            yield {'kind': 'level_relabel', 'iface': 'level_relabel', 'labels': labels, 'depth': depth, 'container': rng.choice(['series', 'frame', 'frame_columns']),
                   'op': rng.choice(['drop_outer', 'drop_outer', 'drop_outer_2', 'drop_inner', 'add']), 'twice': rng.random() < 0.5}
            continue
        if r < 0.72:
            spec = _tame(F.random_spec(rng, max_rows=5, max_cols=6, min_rows=1, min_cols=1, dtypes=_DTYPES, row_kinds=_ROWK, col_kinds=_COLK))
            lay = rng.choice(F.layouts(spec.dtypes))
            iface = rng.choice(['assign', 'assign', 'assign', 'drop', 'mask', 'astype', 'relabel', 'rename', 'insert', 'assign_bloc'])
            case = {'kind': 'frame', 'spec': spec, 'layout': lay, 'iface': iface, 'go': rng.random() < 0.3}
            nr, nc = spec.shape
            if iface in ('assign', 'drop', 'mask'):
                route = rng.choice(['iloc', 'iloc', 'loc', 'getitem'])
                case['route'] = route
                if route == 'iloc':
                    case['rowkey'], case['colkey'] = _pos_key(nr, rng), _pos_key(nc, rng)
                    if rng.random() < 0.12:
                        case['colkey'] = None
                elif route == 'loc':
                    case['rowkey'], case['colkey'] = _label_key(spec.rows, spec.row_kind, rng), _label_key(spec.cols, spec.col_kind, rng)
                    if rng.random() < 0.12:
                        case['colkey'] = None
                else:
                    ck = _label_key(spec.cols, spec.col_kind, rng)
                    if ck[0] in ('boolseries', 'iloc'):
                        ck = ('null',)
                    case['rowkey'], case['colkey'] = None, ck
                if iface == 'assign' and route == 'iloc' and nr >= 1 and nc >= 2 and rng.random() < 0.12:
                    # one row, several columns in an order other than ascending, a labelled (Series) value: the value is aligned by
                    # label while the blocks are written in ascending column order -- both sites have to agree on the order
                    perm = rng.sample(range(nc), rng.randint(2, nc))
                    if perm == sorted(perm):
                        perm.reverse()
                    case['rowkey'] = ('int', rng.randrange(nr))
                    case['colkey'] = rng.choice([('list', perm), ('array', perm), ('slice', None, None, -1), ('slice', nc - 1, 0, -1), ('slice', None, None, -2)])
                    case['focus'] = 'row_series_descending_columns'
                if iface == 'assign':
                    shapes = ['scalar', 'scalar', 'array', 'array', 'series', 'frame']
                    if case.get('focus'):
                        shapes = ['series', 'series', 'apply_identity'] if not (spec.row_kind.startswith('hier') or spec.col_kind.startswith('hier')) else ['series']
                    if not (spec.row_kind.startswith('hier') or spec.col_kind.startswith('hier')):
                        shapes += ['apply_identity', 'apply_const']
                    case['vshape'] = rng.choice(shapes)
                    case['vseed'] = rng.randrange(1 << 30)
                    case['fill'] = rng.choice([np.nan, None, 0, 'fv'])
            elif iface == 'assign_bloc':
                case['mask'] = [[rng.random() < 0.4 for _ in range(nc)] for _ in range(nr)]
                if rng.random() < 0.3 and nc:
                    # nothing addressed in some leading / trailing columns
                    for row in case['mask']:
                        for j in range(rng.randint(1, nc)):
                            row[j if rng.random() < 0.5 else nc - 1 - j] = False
                case['v'] = _val(rng)
                case['mask_shuffle'] = rng.random() < 0.4
                case['bvalue'] = rng.choice(['scalar', 'scalar', 'array', 'frame', 'frame', 'frame', 'series'])
                case['vseed'] = rng.randrange(1 << 30)
            elif iface == 'astype':
                if spec.col_kind.startswith('hier') or not nc:
                    continue
                k = rng.randint(1, nc)
                picked = sorted(rng.sample(range(nc), k))
                case['cols'] = picked if rng.random() < 0.8 else None  # None = whole frame
                case['single'] = rng.random() < 0.25 and len(picked) == 1
                case['dt'] = rng.choice(['float64', 'object', 'str', 'int64', 'bool', 'complex128', 'float32'])
                if rng.random() < 0.35 and case['cols']:
                    # the dtype some addressed column already has (nothing to do for that column, everything to do for the others)
                    present = [spec.dtypes[c] for c in picked if spec.dtypes[c] in ('float64', 'object', 'int64', 'bool', 'complex128', 'float32')]
                    if present:
                        case['dt'] = rng.choice(present)
                if rng.random() < 0.4:
                    lay = case['layout'] = F.layout_max_consolidated(spec.dtypes)
                wide = [(a, b) for a, b, two_d in lay if two_d and b - a >= 3 and b < nc and spec.dtypes[a] in ('float64', 'int64', 'bool', 'object', 'complex128', 'float32')]
                if wide and rng.random() < 0.5:
                    # two separate columns of one block that already has the requested dtype, and a column of a later block
                    a, b = rng.choice(wide)
                    case['cols'] = [a, b - 1] + sorted(rng.sample(range(b, nc), rng.randint(1, nc - b)))
                    case['single'] = False
                    case['dt'] = spec.dtypes[a]
                    picked = case['cols']
                if rng.random() < 0.35:
                    # one call with a dtype per addressed column: a mapping by label, or one entry per column with None for "leave as is"
                    case['form'] = rng.choice(['mapping', 'iterable'])
                    case['cols'] = picked
                    case['single'] = False
                    case['dts'] = [rng.choice(['float64', 'float64', 'object', 'str', 'int64', 'bool', 'complex128', 'float32']) for _ in picked]
            elif iface == 'relabel':
                case['axis'] = rng.choice(['index', 'columns', 'both'])
                case['how'] = rng.choice(['func', 'dict', 'list'])
            elif iface == 'rename':
                case['name'] = rng.choice(['nn', 3, None, ('a', 1)])
            elif iface == 'insert':
                if spec.col_kind not in ('str', 'int', 'negint') or not nc:
                    continue
                case['at'] = rng.randrange(nc)
                case['after'] = rng.random() < 0.5
                case['what'] = rng.choice(['series', 'frame'])
                dt = rng.choice(_VAL_DTYPES)
                case['new'] = [(f'NEW{j}', dt, [_tame_value(v) for v in V.column(dt, nr, rng)]) for j in range(1 if case['what'] == 'series' else rng.randint(1, 2))]
            yield case
        else:
            spec = _tame_series(F.random_series_spec(rng, max_n=8, min_n=1, dtypes=_DTYPES, kinds=_ROWK + ['mixed', 'tuple']))
            iface = rng.choice(['assign', 'assign', 'drop', 'mask', 'astype', 'relabel', 'rename'])
            case = {'kind': 'series', 'spec': spec, 'iface': iface}
            n = len(spec.labels)
            if iface in ('assign', 'drop', 'mask'):
                route = rng.choice(['iloc', 'loc', 'getitem'])
                case['route'] = route
                case['key'] = _pos_key(n, rng) if route == 'iloc' else _label_key(spec.labels, spec.kind, rng)
                if iface == 'assign':
                    case['vshape'] = rng.choice(['scalar', 'array', 'series'] + ([] if spec.kind.startswith('hier') else ['apply_const', 'apply_reversed']))
                    case['vseed'] = rng.randrange(1 << 30)
                    case['fill'] = rng.choice([np.nan, None, 0, 'fv'])
            elif iface == 'astype':
                case['dt'] = rng.choice(['float64', 'object', 'str', 'int64', 'bool'])
            elif iface == 'relabel':
                case['how'] = rng.choice(['func', 'dict', 'list'])
            elif iface == 'rename':
                case['name'] = rng.choice(['nn', 3, None])
            yield case


# --------------------------------------------------------------------------------------

def _resolve(route, n, labels, desc):
    if desc is None:
        return K.Resolved(list(range(n)))
    if route == 'iloc':
        return K.resolve_positional(n, desc)
    return K.resolve_label(labels, desc)


def _call(fn):
    try:
        return fn(), None
    except Exception as e:
        return None, e


def check(case, ctx):
    ctx.tally('iface', f"{case['kind']}.{case['iface']}")
    if case['kind'] == 'frame':
        return _check_frame(case, ctx)
    if case['kind'] == 'level_relabel':
        return _check_level_relabel(case, ctx)
    ctx.__dict__['_c08_last'] = None
    _check_series(case, ctx)
    last = ctx.__dict__.get('_c08_last')
    if last is not None:
        _result_lookups(ctx, last[1], last[3])


def _check_level_relabel(case, ctx):
    """relabel_level_drop / relabel_level_add: the result carries the remaining (or extended) labels over the same values; the receiver
    still holds what it held, and still finds every one of its labels at its position (also when the call was refused)."""
    import static_frame as sf
    labels, depth, op = [tuple(t) for t in case['labels']], case['depth'], case['op']
    n = len(labels)
    klass = {'t': 'level_relabel', 'op': op, 'depth': depth, 'container': case['container']}
    ctx.evaluation(repr(case), n >= 2)
    ih = sf.IndexHierarchy.from_labels(labels, depth_reference=depth)
    vals = np.arange(n) * 10
    if case['container'] == 'series':
        c = sf.Series(vals, index=ih, name='s')
    elif case['container'] == 'frame':
        c = sf.Frame.from_items([('p', vals), ('q', vals + 1)], index=ih)
    else:
        c = sf.Frame(np.vstack([vals, vals + 1]), index=('p', 'q'), columns=ih)
    axis = 'columns' if case['container'] == 'frame_columns' else 'index'
    count = {'drop_outer': 1, 'drop_outer_2': 2, 'drop_inner': -1}.get(op)
    if count is not None and abs(count) >= depth:
        return
    if op == 'add':
        want = [('ADDED',) + t for t in labels]
    elif count > 0:
        want = [t[count:] for t in labels]
    else:
        want = [t[:count] for t in labels]
    if op != 'add':
        want = [t[0] if len(t) == 1 else t for t in want]
        valid = len({cs(t) for t in want}) == n and (not isinstance(want[0], tuple) or K.is_tree(want))
        for c_ in range(1, (count if count > 0 else 0) + 1):
            if valid and depth - c_ >= 2:
                # levels are dropped one at a time; the promoted level is the concatenation of the children of each dropped parent: a label
                # held under two parents is refused as a duplicate rather than merged (same reading as C02's level_drop derivation)
                parents = {}
                for t in labels:
                    parents.setdefault(cs(t[c_]), set()).add(cs(t[:c_]))
                valid = all(len(v) == 1 for v in parents.values())
    else:
        valid = True
    before = canon.snap(c)
    ctx.tally('level_relabel', f'{op}:{"valid" if valid else "refused"}')
    for _ in range(2 if case['twice'] else 1):
        if case['container'] == 'series':
            out, exc = _call(lambda: (c.relabel_level_add('ADDED') if op == 'add' else c.relabel_level_drop(count)))
        else:
            out, exc = _call(lambda: (c.relabel_level_add(**{axis: 'ADDED'}) if op == 'add' else c.relabel_level_drop(**{axis: count})))
        if canon.snap(c) != before:
            ctx.violation('receiver_changed', detail={'before': canon.brief(before, 500), 'after': canon.brief(canon.snap(c), 500)}, klass=klass)
            return
        src = getattr(c, axis)
        for pos, lab in enumerate(labels):
            try:
                p = src.loc_to_iloc(lab)
                cell = (c.loc[lab] if case['container'] == 'series' else (c.loc[lab, 'p'] if axis == 'index' else c.loc['p', lab]))
            except Exception as e:
                ctx.violation('receiver_label_lookup_raised', detail={'label': repr(lab), 'position': pos, 'exception': type(e).__name__, 'message': str(e)[:200]},
                              klass=dict(klass, exception=type(e).__name__))
                return
            if not isinstance(p, (int, np.integer)) or int(p) != pos or int(cell) != pos * 10:
                ctx.violation('receiver_label_found_elsewhere', detail={'label': repr(lab), 'position': pos, 'loc_to_iloc': repr(p), 'cell': repr(cell),
                                                                        'labels': repr(labels)[:400]}, klass=klass)
                return
        if not valid:
            if exc is None:
                got = canon.index_labels(getattr(out, axis))
                if len({cs(x) for x in got}) != len(got):
                    ctx.violation('update_mismatch:labels_or_shape', detail={'duplicate_labels_accepted': repr(got)[:300]}, klass=klass)
            return
        if exc is not None:
            ctx.violation('valid_update_raised', detail={'exception': type(exc).__name__, 'message': str(exc)[:300], 'labels': repr(labels)[:300]},
                          klass=dict(klass, exception=type(exc).__name__))
            return
        res = getattr(out, axis)
        got = [cs(x) for x in canon.index_labels(res)]
        if not canon.seq_eq(got, [cs(x) for x in want], canon.leq):
            ctx.violation('update_mismatch:labels_or_shape', detail={'expected': [cs(x) for x in want], 'got': got}, klass=klass)
            return
        if (out.values != c.values).any():
            ctx.violation('update_mismatch:unaddressed_cell', detail={'got': repr(out.values.tolist())[:300]}, klass=klass)
            return
        for pos, lab in enumerate(want):
            try:
                p = res.loc_to_iloc(lab)
            except Exception as e:
                ctx.violation('result_label_lookup_raised', detail={'axis': axis, 'label': repr(lab), 'position': pos, 'exception': type(e).__name__},
                              klass=dict(klass, axis_checked=axis))
                return
            if not isinstance(p, (int, np.integer)) or int(p) != pos:
                ctx.violation('result_label_found_elsewhere', detail={'axis': axis, 'label': repr(lab), 'position': pos, 'loc_to_iloc': repr(p)},
                              klass=dict(klass, axis_checked=axis))
                return


def _result_lookups(ctx, out, klass):
    """the container an update returns must find its own labels where they are: a result whose label -> position answers still
    describe the receiver (or nothing) gives wrong rows to every later selection by label."""
    from static_frame.core.index_base import IndexBase
    if out is None:
        return
    for axis_name in ('index', 'columns'):
        ax = getattr(out, axis_name, None)
        if not isinstance(ax, IndexBase):
            continue
        labs = canon.index_labels(ax)
        for pos in sorted({0, len(labs) - 1, len(labs) // 2}) if labs else ():
            lab = labs[pos]
            try:
                if lab != lab or (isinstance(lab, tuple) and any(x != x for x in lab)):
                    continue
            except Exception:
                continue
            try:
                p = ax.loc_to_iloc(lab)
            except Exception as e:
                ctx.violation('result_label_lookup_raised', detail={'axis': axis_name, 'label': repr(lab), 'position': pos, 'exception': type(e).__name__},
                              klass=dict(klass, axis_checked=axis_name))
                return
            if not isinstance(p, (int, np.integer)) or int(p) != pos:
                ctx.violation('result_label_found_elsewhere', detail={'axis': axis_name, 'label': repr(lab), 'position': pos, 'loc_to_iloc': repr(p)},
                              klass=dict(klass, axis_checked=axis_name))
                return


def _key(case, f_or_s, rk, ck):
    route = case['route']
    if case['kind'] == 'series':
        return K.realize(rk)
    if route == 'getitem':
        return K.realize(ck)
    if ck is None:
        k = K.realize(rk)
        if isinstance(k, tuple):
            # a bare tuple would be read as (row key, column key); for drop a null column slice would drop every column
            return [k] if case['iface'] == 'drop' else (k, slice(None))
        return k
    return (K.realize(rk), K.realize(ck))


def _sel(obj, case):
    """the selector interface object for the case's route."""
    route = case['route']
    return obj if route == 'getitem' else getattr(obj, route)


def _base_klass(case):
    k = {'kind': case['kind'], 'iface': case['iface'], 'route': case.get('route'), 'vshape': case.get('vshape')}
    if case['kind'] == 'frame':
        rk, ck = case.get('rowkey'), case.get('colkey')
        k['rowkey'] = rk[0] if rk else None
        k['colkey'] = ck[0] if ck else None
        for ax, d in (('row', rk), ('col', ck)):
            inner = d[1] if d and d[0] == 'iloc' else d
            if inner and inner[0] in ('list', 'array'):
                k[f'{ax}_list_ascending'] = list(inner[1]) == sorted(inner[1])
    else:
        d = case.get('key')
        k['rowkey'] = d[0] if d else None
    return k


def _frame_model(spec):
    return [[cs(v) for v in row] for row in spec.cells]


def _assert_receiver(ctx, before, obj, klass, out=None):
    ctx.__dict__['_c08_last'] = (obj, out, before, klass)  # for the grow-only independence check at the end of the case
    after = canon.snap(obj)
    if after != before:
        ctx.violation('receiver_changed', detail={'before': canon.brief(before, 600), 'after': canon.brief(after, 600)}, klass=klass)
        return False
    return True


def _shares_block(lay, addressed, j):
    """column j is stored in the same block as some addressed column."""
    for a, b, _ in lay:
        if a <= j < b:
            return any(a <= c < b for c in addressed)
    return False


def _check_frame(case, ctx):
    ctx.__dict__['_c08_last'] = None
    _check_frame_inner(case, ctx)
    last = ctx.__dict__.get('_c08_last')
    if last is not None:
        _result_lookups(ctx, last[1], last[3])
        _go_independence(ctx, *last)


def _go_independence(ctx, obj, out, before, klass):
    """a functional update of a grow-only frame returns another grow-only frame: growing either must not show in the other."""
    import static_frame as sf
    if not (isinstance(obj, sf.FrameGO) and isinstance(out, sf.FrameGO)) or out is obj:
        return
    ctx.tally('go_independence', 'checked')
    out_before = canon.snap(out)
    try:
        out['__c08_result_growth__'] = np.arange(len(out.index))
    except Exception as e:
        ctx.tally('go_independence', 'growth_raised:' + type(e).__name__)
        return
    if canon.snap(obj) != before or len(obj.columns) != obj.shape[1]:
        ctx.violation('receiver_changed_by_growth_of_result', detail={'columns': len(obj.columns), 'shape': obj.shape,
                                                                       'after': canon.brief(canon.snap(obj), 500)}, klass=klass)
        return
    try:
        obj['__c08_receiver_growth__'] = np.arange(len(obj.index))
    except Exception as e:
        ctx.tally('go_independence', 'growth_raised:' + type(e).__name__)
        return
    now = canon.snap(out)
    if len(out.columns) != out.shape[1] or len(now['columns']['labels']) != len(out_before['columns']['labels']) + 1:
        ctx.violation('result_changed_by_growth_of_receiver', detail={'columns': len(out.columns), 'shape': out.shape}, klass=klass)


def _check_frame_inner(case, ctx):
    import static_frame as sf
    spec, lay, iface = case['spec'], case['layout'], case['iface']
    f = F.build_frame(spec, lay, cls=sf.FrameGO if case.get('go') else None)
    before = canon.snap(f)
    nr, nc = spec.shape
    klass = _base_klass(case)
    klass['row_kind'], klass['col_kind'] = spec.row_kind, spec.col_kind
    ctx.sample({'frame': spec.brief(), 'layout': F.layout_name(lay), 'iface': iface, 'route': case.get('route'),
                'rowkey': repr(case.get('rowkey')), 'colkey': repr(case.get('colkey')), 'vshape': case.get('vshape')})
    if iface in ('assign', 'drop', 'mask'):
        route = case['route']
        rres = _resolve(route, nr, spec.rows, case['rowkey'])
        cres = _resolve(route, nc, spec.cols, case['colkey'])
        if rres.error or cres.error or not rres.judged or not cres.judged:
            return
        R, C = rres.positions, cres.positions
        nontrivial = (nr >= 2 and 0 < len(R) < nr) or (nc >= 2 and 0 < len(C) < nc) or (len(R) and len(C) and nr * nc >= 2)
        ctx.evaluation(('frame', repr(spec), repr(lay), iface, route, case['rowkey'], case['colkey'], case.get('vshape'), case.get('vseed')), nontrivial)
        ctx.tally('keykind', f"{(case['rowkey'] or ('none',))[0]} x {(case['colkey'] or ('none',))[0]}")
        klass['rows_addressed'], klass['cols_addressed'] = len(R), len(C)
        key = _key(case, f, case['rowkey'], case['colkey'])
        if iface == 'drop':
            out, exc = _call(lambda: _sel(f.drop, case)[key])
            ok_r = _assert_receiver(ctx, before, f, klass, out)
            if exc is not None:
                ctx.violation('valid_update_raised', detail={'exception': type(exc).__name__, 'message': str(exc)[:300]}, klass=dict(klass, exception=type(exc).__name__))
                return
            if route == 'getitem':
                keep_r, keep_c = list(range(nr)), [c for c in range(nc) if c not in set(C)]
            elif case['colkey'] is None:
                keep_r, keep_c = [r for r in range(nr) if r not in set(R)], list(range(nc))
            else:
                keep_r, keep_c = [r for r in range(nr) if r not in set(R)], [c for c in range(nc) if c not in set(C)]
            _compare_frame(ctx, spec, out, keep_r, keep_c, None, klass, lay, addressed_cols=set())
            return
        if iface == 'mask':
            out, exc = _call(lambda: _sel(f.mask, case)[key])
            _assert_receiver(ctx, before, f, klass, out)
            if exc is not None:
                ctx.violation('valid_update_raised', detail={'exception': type(exc).__name__, 'message': str(exc)[:300]}, klass=dict(klass, exception=type(exc).__name__))
                return
            got = canon.snap(out)
            exp_cols = tuple(tuple(cs((r in set(R)) and (c in set(C))) for r in range(nr)) for c in range(nc))
            ok = (got['k'] == 'Frame' and got['index']['labels'] == before['index']['labels'] and got['columns']['labels'] == before['columns']['labels']
                  and got['cols'] == exp_cols and all(d == 'bool' for d in got['dtypes']))
            if not ok:
                ctx.violation('mask_mismatch', detail={'expected_true_rows': R, 'expected_true_cols': C, 'got': canon.brief(got, 900)}, klass=klass)
            elif got['name'] != before['name']:
                ctx.violation('mask_name_not_preserved', detail={'expected': before['name'], 'got': got['name']}, klass=klass)
            return
        return _check_frame_assign(case, ctx, f, before, R, C, rres, cres, key, klass)
    ctx.evaluation(('frame', repr(spec), repr(lay), repr({k: v for k, v in case.items() if k not in ('spec', 'layout')})), nr * nc >= 1)
    if iface == 'assign_bloc':
        return _check_assign_bloc(case, ctx, f, before, klass)
    if iface == 'astype':
        return _check_astype(case, ctx, f, before, klass)
    if iface == 'relabel':
        return _check_relabel(case, ctx, f, before, klass)
    if iface == 'rename':
        out = f.rename(case['name'])
        _assert_receiver(ctx, before, f, klass, out)
        got = canon.snap(out)
        exp = dict(before, name=cs(case['name']))
        if got != exp:
            ctx.violation('rename_mismatch', detail={'got': canon.brief(got, 600)}, klass=klass)
        return
    if iface == 'insert':
        return _check_insert(case, ctx, f, before, klass)
    raise KeyError(iface)


def _compare_frame(ctx, spec, out, rows, cols, model, klass, lay, addressed_cols, what='update_mismatch'):
    """out must hold exactly rows x cols of the (possibly updated) model with labels, name and,
    for columns not addressed, the exact dtype."""
    got = canon.snap(out)
    model = model if model is not None else _frame_model(spec)
    exp_index = tuple(cs(spec.rows[r]) for r in rows)
    exp_columns = tuple(cs(spec.cols[c]) for c in cols)
    if got['k'] != 'Frame' or got['index']['labels'] != exp_index or got['columns']['labels'] != exp_columns or got['name'] != cs(spec.name) \
            or got['shape'] != (len(rows), len(cols)):
        ctx.violation(what + ':labels_or_shape', detail={'expected_index': exp_index, 'expected_columns': exp_columns, 'got': canon.brief(got, 900)}, klass=klass)
        return False
    for jj, c in enumerate(cols):
        exp_col = [model[r][c] for r in rows]
        got_col = got['cols'][jj]
        addressed = c in addressed_cols
        if addressed:
            if not canon.seq_eq(list(got_col), exp_col, _cell_eq):
                ctx.violation(what + ':cells', detail={'column': c, 'expected': exp_col, 'got': list(got_col)}, klass=dict(klass, column_addressed=True))
                return False
        else:
            exp_dt = str(spec.col_array(c).dtype)
            if list(got_col) != exp_col and not canon.seq_eq(list(got_col), exp_col, _cell_eq):
                ctx.violation(what + ':unaddressed_cells', detail={'column': c, 'expected': exp_col, 'got': list(got_col)}, klass=dict(klass, column_addressed=False))
                return False
            if got['dtypes'][jj] != exp_dt or list(got_col) != exp_col:
                ctx.violation(what + ':unaddressed_dtype', detail={'column': c, 'expected_dtype': exp_dt, 'got_dtype': got['dtypes'][jj]},
                              klass=dict(klass, column_addressed=False, shares_block_with_addressed=_shares_block(lay, addressed_cols, c)))
                return False
    return True


def _cell_eq(g, e):
    """stored cell vs supplied/original element at value strength; a datetime64 may be presented as
    the equal date object and NaT as None when its column was widened to object."""
    if veq(g, e) or canon.leq(g, e):
        return True
    if e[0] in ('dt64', 'td64') and e[2] == canon.NAT and g[0] == 'None':
        return True
    return False


def _make_value(case, spec, R, C, rres, cres):
    """Build the assigned value and the expected per-cell content: returns (value, {(r, c): canonical | None})
    where None marks an addressed cell the labelled value does not cover."""
    import random
    import static_frame as sf
    rng = random.Random(case['vseed'])
    vs = case['vshape']
    exp = {}
    if vs == 'scalar':
        v = _val(rng)
        for r in R:
            for c in C:
                exp[(r, c)] = cs(v)
        return v, exp
    dt = rng.choice(_VAL_DTYPES)
    if vs == 'array':
        if rres.reduce and cres.reduce:
            return None, None
        if rres.reduce:
            vals = [_val(rng, dt) for _ in C]
            for j, c in enumerate(C):
                exp[(R[0], c)] = cs(vals[j])
            return V.to_array(vals, dt), exp
        if cres.reduce:
            vals = [_val(rng, dt) for _ in R]
            for i, r in enumerate(R):
                exp[(r, C[0])] = cs(vals[i])
            return V.to_array(vals, dt), exp
        grid = [[_val(rng, dt) for _ in C] for _ in R]
        arr = np.empty((len(R), len(C)), dtype=object if dt == 'object' else dt)
        for i, r in enumerate(R):
            for j, c in enumerate(C):
                arr[i, j] = grid[i][j]
                exp[(r, c)] = cs(grid[i][j])
        return arr, exp
    if vs == 'series':
        # labelled along the multi axis (the other must be reduced)
        if rres.reduce == cres.reduce:
            return None, None
        axis_labels = spec.cols if rres.reduce else spec.rows
        pos = C if rres.reduce else R
        if any(isinstance(l, tuple) for l in axis_labels):
            return None, None
        cover = [p for p in pos if rng.random() < 0.8]
        order = list(cover)
        rng.shuffle(order)
        vals = {p: _val(rng, dt) for p in order}
        labs = [axis_labels[p] for p in order] + ([f'X{len(order)}'] if rng.random() < 0.3 and all(isinstance(l, str) for l in axis_labels) else [])
        data = [vals[p] for p in order] + ([_val(rng, dt)] if len(labs) > len(order) else [])
        s = sf.Series(V.to_array(data, dt), index=K._index_for(labs) if labs else sf.Index((), dtype=object))
        for p in pos:
            cell = (R[0], p) if rres.reduce else (p, C[0])
            exp[cell] = cs(vals[p]) if p in vals else None
        return s, exp
    if vs == 'frame':
        if rres.reduce or cres.reduce:
            return None, None
        if any(isinstance(l, tuple) for l in spec.rows) or any(isinstance(l, tuple) for l in spec.cols):
            return None, None
        cr = [r for r in R if rng.random() < 0.85]
        cc = [c for c in C if rng.random() < 0.85]
        orr, occ = list(cr), list(cc)
        rng.shuffle(orr)
        rng.shuffle(occ)
        if not orr or not occ:
            return None, None
        grid = {(r, c): _val(rng, dt) for r in orr for c in occ}
        arr = np.empty((len(orr), len(occ)), dtype=object if dt == 'object' else dt)
        for i, r in enumerate(orr):
            for j, c in enumerate(occ):
                arr[i, j] = grid[(r, c)]
        fv = sf.Frame(arr, index=K._index_for([spec.rows[r] for r in orr]), columns=K._index_for([spec.cols[c] for c in occ]))
        for r in R:
            for c in C:
                exp[(r, c)] = cs(grid[(r, c)]) if (r, c) in grid else None
        return fv, exp
    return None, None


def _const5(sel):
    return 5


def _reversed_sel(sel):
    import static_frame as sf
    return sel.iloc[::-1] if isinstance(sel, sf.Series) else sel


def _identity(sel):
    return sel


def _check_frame_assign(case, ctx, f, before, R, C, rres, cres, key, klass):
    spec, lay = case['spec'], case['layout']
    nr, nc = spec.shape
    model = _frame_model(spec)
    vs = case['vshape']
    iface_obj = _sel(f.assign, case)
    fill = case['fill']
    if vs in ('apply_identity', 'apply_const'):
        if vs == 'apply_const':
            exp = {(r, c): cs(5) for r in R for c in C}
            out, exc = _call(lambda: iface_obj[key].apply(_const5))
        else:
            exp = {}
            out, exc = _call(lambda: iface_obj[key].apply(_identity))
    else:
        value, exp = _make_value(case, spec, R, C, rres, cres)
        if exp is None:
            return
        labelled = vs in ('series', 'frame')
        if labelled:
            out, exc = _call(lambda: iface_obj[key](value, fill_value=fill))
        else:
            out, exc = _call(lambda: iface_obj[key](value))
    _assert_receiver(ctx, before, f, klass, out)
    ctx.tally('assign_value_shape', vs)
    if exc is not None:
        if not R or not C:
            ctx.tally('not_judged', 'assign_to_empty_selection_raised')
            ctx.violation('valid_update_raised', detail={'exception': type(exc).__name__, 'message': str(exc)[:300]},
                          klass=dict(klass, exception=type(exc).__name__, empty_selection=True))
            return
        ctx.violation('valid_update_raised', detail={'exception': type(exc).__name__, 'message': str(exc)[:300]},
                      klass=dict(klass, exception=type(exc).__name__, empty_selection=False))
        return
    got = canon.snap(out)
    if got['k'] != 'Frame' or got['index']['labels'] != before['index']['labels'] or got['columns']['labels'] != before['columns']['labels'] \
            or got['name'] != before['name'] or got['shape'] != (nr, nc):
        ctx.violation('update_mismatch:labels_or_shape', detail={'got': canon.brief(got, 900)}, klass=klass)
        return
    addressed_cols = set(C)
    klass['cols_ascending'] = list(C) == sorted(C)
    klass['rows_ascending'] = list(R) == sorted(R)
    for c in range(nc):
        for r in range(nr):
            g = got['cols'][c][r]
            if (r, c) in exp:
                e = exp[(r, c)]
                if e is None:
                    if not (_cell_eq(g, model[r][c]) or _cell_eq(g, cs(fill)) or (canon.is_missing(fill) and g in (('float', 'nan'), ('None', None)))):
                        ctx.violation('update_mismatch:uncovered_cell', detail={'cell': (r, c), 'got': g, 'original': model[r][c], 'fill': cs(fill)}, klass=klass)
                        return
                elif not _cell_eq(g, e):
                    ctx.violation('update_mismatch:addressed_cell', detail={'cell': (r, c), 'expected': e, 'got': g,
                                                                            'addressed_rows': R, 'addressed_cols': C}, klass=klass)
                    return
            else:
                if not _cell_eq(g, model[r][c]):
                    ctx.violation('update_mismatch:unaddressed_cell', detail={'cell': (r, c), 'expected': model[r][c], 'got': g,
                                                                              'addressed_rows': R, 'addressed_cols': C}, klass=klass)
                    return
        if c not in addressed_cols or vs == 'apply_identity':
            exp_dt = str(spec.col_array(c).dtype)
            if got['dtypes'][c] != exp_dt and vs != 'apply_identity':
                ctx.violation('update_mismatch:unaddressed_dtype', detail={'column': c, 'expected_dtype': exp_dt, 'got_dtype': got['dtypes'][c]},
                              klass=dict(klass, shares_block_with_addressed=_shares_block(lay, addressed_cols, c)))
                return


def _check_assign_bloc(case, ctx, f, before, klass):
    import random
    import static_frame as sf
    spec, lay, mask, v = case['spec'], case['layout'], case['mask'], case['v']
    nr, nc = spec.shape
    if spec.row_kind.startswith('hier') or spec.col_kind.startswith('hier') or not nr or not nc:
        return
    bvalue = case.get('bvalue', 'scalar')
    klass['bvalue'] = bvalue
    ctx.tally('assign_bloc_value', bvalue)
    rng = random.Random(case.get('vseed', 0))
    m = sf.Frame(np.array(mask, dtype=bool).reshape(nr, nc), index=f.index, columns=f.columns)
    if case['mask_shuffle'] and nr > 1:
        m = m.iloc[::-1]
    model = _frame_model(spec)
    exp = {}  # (r, c) -> canonical expected for addressed cells (None = may keep the original)
    dt = rng.choice(_VAL_DTYPES)
    if bvalue == 'scalar':
        value = v
        for r in range(nr):
            for c in range(nc):
                if mask[r][c]:
                    exp[(r, c)] = cs(v)
    elif bvalue == 'array':
        grid = [[_val(rng, dt) for _ in range(nc)] for _ in range(nr)]
        value = np.empty((nr, nc), dtype=object if dt == 'object' else dt)
        for r in range(nr):
            for c in range(nc):
                value[r, c] = grid[r][c]
                if mask[r][c]:
                    exp[(r, c)] = cs(grid[r][c])
    elif bvalue == 'frame':
        rows = [r for r in range(nr) if rng.random() < 0.85] or [0]
        cols = [c for c in range(nc) if rng.random() < 0.85] or [0]
        rng.shuffle(rows)
        rng.shuffle(cols)
        dts = [rng.choice(_VAL_DTYPES) for _ in cols]
        grid = {(r, c): _val(rng, dts[j]) for r in rows for j, c in enumerate(cols)}
        vspec = F.FrameSpec([spec.rows[r] for r in rows], [spec.cols[c] for c in cols], spec.row_kind if spec.row_kind != 'auto' else 'int',
                            spec.col_kind if spec.col_kind != 'auto' else 'int', dts, [[grid[(r, c)] for c in cols] for r in rows], None)
        vlay = rng.choice(F.layouts(dts))
        try:
            value = F.build_frame(vspec, vlay)
        except Exception:
            return
        klass['value_layout_blocks'] = len(vlay)
        for r in range(nr):
            for c in range(nc):
                if mask[r][c]:
                    exp[(r, c)] = cs(grid[(r, c)]) if (r, c) in grid else ('keep',)
    else:
        items = [((spec.rows[r], spec.cols[c]), _val(rng, dt)) for r in range(nr) for c in range(nc) if mask[r][c]]
        if not items:
            return
        rng.shuffle(items)
        idx = np.empty(len(items), dtype=object)
        for i, (lab, _) in enumerate(items):
            idx[i] = lab
        value = sf.Series(V.to_array([x for _, x in items], dt), index=sf.Index(idx))
        pos_r = {cs(x): i for i, x in enumerate(spec.rows)}
        pos_c = {cs(x): i for i, x in enumerate(spec.cols)}
        for (rl, cl), x in items:
            exp[(pos_r[cs(rl)], pos_c[cs(cl)])] = cs(x)
    out, exc = _call(lambda: f.assign.bloc[m](value))
    _assert_receiver(ctx, before, f, klass, out)
    if exc is not None:
        ctx.violation('valid_update_raised', detail={'exception': type(exc).__name__, 'message': str(exc)[:300]}, klass=dict(klass, exception=type(exc).__name__))
        return
    got = canon.snap(out)
    if got['index']['labels'] != before['index']['labels'] or got['columns']['labels'] != before['columns']['labels'] or got['name'] != before['name'] \
            or got['shape'] != (nr, nc):
        ctx.violation('update_mismatch:labels_or_shape', detail={'got': canon.brief(got, 600)}, klass=klass)
        return
    addressed = {c for c in range(nc) if any(mask[r][c] for r in range(nr))}
    for c in range(nc):
        for r in range(nr):
            e = exp.get((r, c))
            g = got['cols'][c][r]
            if e is None or e == ('keep',):
                if not _cell_eq(g, model[r][c]):
                    ctx.violation('update_mismatch:' + ('unaddressed_cell' if e is None else 'uncovered_cell'),
                                  detail={'cell': (r, c), 'expected': model[r][c], 'got': g}, klass=klass)
                    return
            elif not _cell_eq(g, e):
                ctx.violation('update_mismatch:addressed_cell', detail={'cell': (r, c), 'expected': e, 'got': g}, klass=klass)
                return
        if c not in addressed and got['dtypes'][c] != str(spec.col_array(c).dtype):
            ctx.violation('update_mismatch:unaddressed_dtype', detail={'column': c, 'got_dtype': got['dtypes'][c]},
                          klass=dict(klass, shares_block_with_addressed=_shares_block(lay, addressed, c)))
            return


def _np_astype(arr, dt):
    return arr.astype(str if dt == 'str' else dt)


def _check_astype(case, ctx, f, before, klass):
    spec, lay, dt = case['spec'], case['layout'], case['dt']
    nr, nc = spec.shape
    cols = case['cols']
    target = list(range(nc)) if cols is None else cols
    klass['dt'] = dt
    # reference per addressed column (NumPy casting of the isolated column)
    ref, ref_exc = {}, None
    form = case.get('form', 'getitem')
    per_col = dict(zip(cols, case['dts'])) if form != 'getitem' else {c: dt for c in target}
    klass['form'] = form
    if form != 'getitem':
        klass['dt'] = 'per_column'
    ctx.tally('astype_form', form)
    for c in target:
        try:
            import warnings
            with warnings.catch_warnings():
                warnings.simplefilter('ignore')
                ref[c] = _np_astype(spec.col_array(c), per_col[c])
        except Exception as e:
            ref_exc = e
            break
    as_spec = lambda d: str if d == 'str' else d
    if form == 'mapping':
        out, exc = _call(lambda: f.astype({spec.cols[c]: as_spec(d) for c, d in per_col.items()}))
    elif form == 'iterable':
        out, exc = _call(lambda: f.astype([as_spec(per_col[c]) if c in per_col else None for c in range(nc)]))
    elif cols is None:
        out, exc = _call(lambda: f.astype(str if dt == 'str' else dt))
    else:
        labs = [spec.cols[c] for c in cols]
        k = labs[0] if case['single'] else labs
        out, exc = _call(lambda: f.astype[k](str if dt == 'str' else dt))
    _assert_receiver(ctx, before, f, klass, out)
    if ref_exc is not None:
        if exc is None:
            ctx.violation('astype_invalid_cast_returned_data', detail={'reference_exception': type(ref_exc).__name__}, klass=klass)
        return
    if exc is not None:
        ctx.violation('valid_update_raised', detail={'exception': type(exc).__name__, 'message': str(exc)[:300]}, klass=dict(klass, exception=type(exc).__name__))
        return
    got = canon.snap(out)
    if got['index']['labels'] != before['index']['labels'] or got['columns']['labels'] != before['columns']['labels'] or got['name'] != before['name']:
        ctx.violation('update_mismatch:labels_or_shape', detail={'got': canon.brief(got, 600)}, klass=klass)
        return
    for c in range(nc):
        if c in ref:
            e = tuple(canon.arr_cells(ref[c]))
            if got['cols'][c] != e or np.dtype(got['dtypes'][c]).kind != ref[c].dtype.kind:
                ctx.violation('astype_mismatch', detail={'column': c, 'expected': e, 'expected_dtype': str(ref[c].dtype), 'got': got['cols'][c], 'got_dtype': got['dtypes'][c]}, klass=klass)
                return
            if got['dtypes'][c] != str(ref[c].dtype):
                ctx.violation('astype_dtype_width', detail={'column': c, 'expected_dtype': str(ref[c].dtype), 'got_dtype': got['dtypes'][c]},
                              klass=dict(klass, shares_block_with_addressed=True))
                return
        else:
            if got['cols'][c] != before['cols'][c] or got['dtypes'][c] != before['dtypes'][c]:
                ctx.violation('update_mismatch:unaddressed_dtype' if got['cols'][c] == before['cols'][c] else 'update_mismatch:unaddressed_cell',
                              detail={'column': c, 'expected_dtype': before['dtypes'][c], 'got_dtype': got['dtypes'][c]},
                              klass=dict(klass, shares_block_with_addressed=_shares_block(lay, set(target), c)))
                return


def _relabel_func(x):
    return ('R', x)


def _falsy_target(labels):
    held = {cs(l) for l in labels}
    # (None only: a falsy number or string among labels of another type is NumPy's / C07's subject, not this property's)
    for t in (['RELABELLED', None][len(labels) % 2], 'RELABELLED'):
        if cs(t) not in held and not any(t == l for l in labels if not isinstance(l, tuple)):
            return t
    return 'RELABELLED2'


def _check_relabel(case, ctx, f, before, klass):
    spec = case['spec']
    how, axis = case['how'], case['axis']
    kw, exp_index, exp_columns = {}, list(spec.rows), list(spec.cols)
    for ax, labels in (('index', spec.rows), ('columns', spec.cols)):
        if axis not in (ax, 'both'):
            continue
        if any(isinstance(l, tuple) for l in labels) or any(isinstance(l, np.datetime64) for l in labels):
            return
        if how == 'func':
            kw[ax] = _relabel_func
            new = [_relabel_func(l) for l in labels]
        elif how == 'dict':
            if not labels:
                return
            # the new label may be None: a mapping's value is the label, whatever it is
            target = _falsy_target(labels)
            kw[ax] = {labels[0]: target}
            new = [target] + list(labels[1:])
            klass['relabel_target'] = repr(target)
        else:
            new = [f'L{i}' for i in range(len(labels))]
            kw[ax] = new
        if ax == 'index':
            exp_index = new
        else:
            exp_columns = new
    out, exc = _call(lambda: f.relabel(**kw))
    _assert_receiver(ctx, before, f, klass, out)
    if exc is not None:
        ctx.violation('valid_update_raised', detail={'exception': type(exc).__name__, 'message': str(exc)[:300]}, klass=dict(klass, exception=type(exc).__name__))
        return
    got = canon.snap(out)
    ok = (got['index']['labels'] == tuple(cs(x) for x in exp_index) and got['columns']['labels'] == tuple(cs(x) for x in exp_columns)
          and got['cols'] == before['cols'] and got['dtypes'] == before['dtypes'] and got['name'] == before['name'])
    if not ok:
        ctx.violation('relabel_mismatch', detail={'expected_index': repr(exp_index), 'expected_columns': repr(exp_columns), 'got': canon.brief(got, 800)}, klass=klass)


def _check_insert(case, ctx, f, before, klass):
    import static_frame as sf
    spec = case['spec']
    nr, nc = spec.shape
    at, after = case['at'], case['after']
    new = case['new']
    if case['what'] == 'series':
        name, dt, vals = new[0]
        container = sf.Series(V.to_array(vals, dt), index=f.index, name=name)
    else:
        container = sf.Frame.from_items(((name, V.to_array(vals, dt)) for name, dt, vals in new), index=f.index)
    if nr >= 2 and (at + nr + len(new)) % 2 == 0:
        # the same labels in reversed order: the insertion aligns by label, so the expectation below is unchanged
        container = container.iloc[::-1]
        klass['inserted_index'] = 'reversed'
    fn = f.insert_after if after else f.insert_before
    out, exc = _call(lambda: fn(spec.cols[at], container))
    _assert_receiver(ctx, before, f, klass, out)
    if exc is not None:
        ctx.violation('valid_update_raised', detail={'exception': type(exc).__name__, 'message': str(exc)[:300]}, klass=dict(klass, exception=type(exc).__name__))
        return
    pos = at + 1 if after else at
    got = canon.snap(out)
    exp_columns = list(before['columns']['labels'])
    exp_cols = list(before['cols'])
    exp_dtypes = list(before['dtypes'])
    for j, (name, dt, vals) in enumerate(new):
        exp_columns.insert(pos + j, cs(name))
        exp_cols.insert(pos + j, tuple(cs(v) for v in vals))
        exp_dtypes.insert(pos + j, str(V.to_array(vals, dt).dtype))
    ok = (got['columns']['labels'] == tuple(exp_columns) and got['cols'] == tuple(exp_cols) and got['dtypes'] == tuple(exp_dtypes)
          and got['index']['labels'] == before['index']['labels'] and got['name'] == before['name'])
    if not ok:
        ctx.violation('insert_mismatch', detail={'expected_columns': exp_columns, 'got': canon.brief(got, 800)}, klass=klass)


# --------------------------------------------------------------------------------------
# Series

def _check_series(case, ctx):
    import random
    import static_frame as sf
    spec, iface = case['spec'], case['iface']
    s = F.build_series(spec)
    before = canon.snap(s)
    n = len(spec.labels)
    klass = _base_klass(case)
    klass['row_kind'] = spec.kind
    model = [cs(v) for v in spec.values]
    ctx.sample({'series': spec.brief(), 'iface': iface, 'route': case.get('route'), 'key': repr(case.get('key'))})
    if iface in ('assign', 'drop', 'mask'):
        route = case['route']
        res = _resolve(route, n, spec.labels, case['key'])
        if res.error or not res.judged:
            return
        P = res.positions
        ctx.evaluation(('series', repr(spec), iface, route, case['key'], case.get('vshape'), case.get('vseed')), n >= 2 and 0 < len(P) < n)
        key = K.realize(case['key'])
        if iface == 'drop':
            out, exc = _call(lambda: _sel(s.drop, case)[key])
            _assert_receiver(ctx, before, s, klass, out)
            if exc is not None:
                ctx.violation('valid_update_raised', detail={'exception': type(exc).__name__, 'message': str(exc)[:300]}, klass=dict(klass, exception=type(exc).__name__))
                return
            keep = [i for i in range(n) if i not in set(P)]
            got = canon.snap(out)
            ok = (got['k'] == 'Series' and got['index']['labels'] == tuple(cs(spec.labels[i]) for i in keep)
                  and got['values'] == tuple(model[i] for i in keep) and got['name'] == before['name'] and got['dtype'] == before['dtype'])
            if not ok:
                ctx.violation('drop_mismatch', detail={'expected_kept': keep, 'got': canon.brief(got, 700)}, klass=klass)
            return
        if iface == 'mask':
            out, exc = _call(lambda: _sel(s.mask, case)[key])
            _assert_receiver(ctx, before, s, klass, out)
            if exc is not None:
                ctx.violation('valid_update_raised', detail={'exception': type(exc).__name__, 'message': str(exc)[:300]}, klass=dict(klass, exception=type(exc).__name__))
                return
            got = canon.snap(out)
            ok = (got['k'] == 'Series' and got['index']['labels'] == before['index']['labels'] and got['dtype'] == 'bool'
                  and got['values'] == tuple(cs(i in set(P)) for i in range(n)))
            if not ok:
                ctx.violation('mask_mismatch', detail={'expected_true': P, 'got': canon.brief(got, 700)}, klass=klass)
            elif got['name'] != before['name']:
                ctx.violation('mask_name_not_preserved', detail={'expected': before['name'], 'got': got['name']}, klass=klass)
            return
        # assign
        rng = random.Random(case['vseed'])
        vs = case['vshape']
        exp = {}
        dt = rng.choice(_VAL_DTYPES)
        same_kind_other_unit = spec.dtype.startswith('M8') and rng.random() < 0.6
        if same_kind_other_unit:
            # a value of the same kind in a finer (or the same) unit: the addressed cells must hold exactly the instants supplied
            # (not ns: a datetime64[ns] value that meets a non-datetime fill goes through NumPy's object conversion, which yields an
            # int -- C07's recorded finding, not an update defect)
            dt = rng.choice(['M8[s]', 'M8[D]', 'M8[s]'])
            ctx.tally('assign_value_kind', 'datetime_other_unit')
        fill = case['fill']
        iface_obj = _sel(s.assign, case)
        if vs == 'scalar':
            v = _val(rng, dt if same_kind_other_unit else None)
            exp = {p: cs(v) for p in P}
            out, exc = _call(lambda: iface_obj[key](v))
        elif vs == 'apply_const':
            exp = {p: cs(5) for p in P}
            out, exc = _call(lambda: iface_obj[key].apply(_const5))
        elif vs == 'apply_reversed':
            # the function hands the selected cells back under their own labels but in another order: a labelled value is
            # aligned by label, so every cell keeps its value
            exp = {}
            out, exc = _call(lambda: iface_obj[key].apply(_reversed_sel))
        elif vs == 'array':
            if res.reduce:
                return
            vals = [_val(rng, dt) for _ in P]
            exp = {p: cs(vals[i]) for i, p in enumerate(P)}
            out, exc = _call(lambda: iface_obj[key](V.to_array(vals, dt)))
        else:
            if res.reduce or any(isinstance(l, tuple) for l in spec.labels):
                return
            cover = [p for p in P if rng.random() < 0.8]
            order = list(cover)
            rng.shuffle(order)
            vals = {p: _val(rng, dt) for p in order}
            labs = [spec.labels[p] for p in order]
            if not labs:
                return
            value = sf.Series(V.to_array([vals[p] for p in order], dt), index=K._index_for(labs))
            exp = {p: (cs(vals[p]) if p in vals else None) for p in P}
            out, exc = _call(lambda: iface_obj[key](value, fill_value=fill))
        _assert_receiver(ctx, before, s, klass, out)
        ctx.tally('assign_value_shape', 'series.' + vs)
        if exc is not None:
            ctx.violation('valid_update_raised', detail={'exception': type(exc).__name__, 'message': str(exc)[:300]},
                          klass=dict(klass, exception=type(exc).__name__, empty_selection=not P))
            return
        got = canon.snap(out)
        if got['k'] != 'Series' or got['index']['labels'] != before['index']['labels'] or got['name'] != before['name']:
            ctx.violation('update_mismatch:labels_or_shape', detail={'got': canon.brief(got, 600)}, klass=klass)
            return
        for i in range(n):
            g = got['values'][i]
            if i in exp:
                e = exp[i]
                if e is None:
                    if not (_cell_eq(g, model[i]) or _cell_eq(g, cs(fill)) or (canon.is_missing(fill) and g in (('float', 'nan'), ('None', None)))):
                        ctx.violation('update_mismatch:uncovered_cell', detail={'position': i, 'got': g, 'original': model[i]}, klass=klass)
                        return
                elif not _cell_eq(g, e):
                    ctx.violation('update_mismatch:addressed_cell', detail={'position': i, 'expected': e, 'got': g, 'addressed': P}, klass=klass)
                    return
            elif not _cell_eq(g, model[i]):
                ctx.violation('update_mismatch:unaddressed_cell', detail={'position': i, 'expected': model[i], 'got': g, 'addressed': P}, klass=klass)
                return
        return
    ctx.evaluation(('series', repr(spec), repr({k: v for k, v in case.items() if k != 'spec'})), n >= 1)
    if iface == 'astype':
        dt = case['dt']
        arr = V.to_array(spec.values, spec.dtype)
        try:
            import warnings
            with warnings.catch_warnings():
                warnings.simplefilter('ignore')
                ref = _np_astype(arr, dt)
            ref_exc = None
        except Exception as e:
            ref, ref_exc = None, e
        out, exc = _call(lambda: s.astype(str if dt == 'str' else dt))
        _assert_receiver(ctx, before, s, klass, out)
        if ref_exc is not None:
            if exc is None:
                ctx.violation('astype_invalid_cast_returned_data', detail={'reference_exception': type(ref_exc).__name__}, klass=klass)
            return
        if exc is not None:
            ctx.violation('valid_update_raised', detail={'exception': type(exc).__name__, 'message': str(exc)[:300]}, klass=dict(klass, exception=type(exc).__name__))
            return
        got = canon.snap(out)
        if got['values'] != tuple(canon.arr_cells(ref)) or got['dtype'] != str(ref.dtype) or got['index']['labels'] != before['index']['labels'] or got['name'] != before['name']:
            ctx.violation('astype_mismatch', detail={'expected': canon.arr_cells(ref), 'expected_dtype': str(ref.dtype), 'got': canon.brief(got, 600)}, klass=dict(klass, dt=dt))
        return
    if iface == 'relabel':
        how = case['how']
        labels = spec.labels
        if any(isinstance(l, (tuple, np.datetime64)) for l in labels):
            return
        if how == 'func':
            arg, new = _relabel_func, [_relabel_func(l) for l in labels]
        elif how == 'dict':
            if not labels:
                return
            target = _falsy_target(labels)
            klass['relabel_target'] = repr(target)
            arg, new = {labels[0]: target}, [target] + list(labels[1:])
        else:
            new = [f'L{i}' for i in range(n)]
            arg = new
        out, exc = _call(lambda: s.relabel(arg))
        _assert_receiver(ctx, before, s, klass, out)
        if exc is not None:
            ctx.violation('valid_update_raised', detail={'exception': type(exc).__name__, 'message': str(exc)[:300]}, klass=dict(klass, exception=type(exc).__name__))
            return
        got = canon.snap(out)
        if got['index']['labels'] != tuple(cs(x) for x in new) or got['values'] != before['values'] or got['dtype'] != before['dtype'] or got['name'] != before['name']:
            ctx.violation('relabel_mismatch', detail={'expected': repr(new), 'got': canon.brief(got, 600)}, klass=klass)
        return
    if iface == 'rename':
        out = s.rename(case['name'])
        _assert_receiver(ctx, before, s, klass, out)
        got = canon.snap(out)
        if got != dict(before, name=cs(case['name'])):
            ctx.violation('rename_mismatch', detail={'got': canon.brief(got, 600)}, klass=klass)
        return
    raise KeyError(iface)
