"""C03 — block-manager transparency and structural coherence of Frame.

Coherence: every read route returns the spec's cell / the column's dtype and
shape == (len(index), len(columns)).  Metamorphic: for one FrameSpec, every block layout
must give the same outcome descriptor (values, labels, per-column dtypes, raised error class)
for every operation of the catalogue; the all-1-D layout is the reference.
TypeBlocks structural invariants are evaluated at every TypeBlocks.__init__/append/extend exit.
"""
import pickle

import numpy as np

from sfmon import canon
from sfmon.canon import cs
from sfmon.gen import frames as F
from sfmon.gen import keys as K
from sfmon.gen import values as V

PROPERTY = 'C03'
RULE = ('cases = (FrameSpec with 0..5 rows and 0..6 columns over mixed dtype kinds, list of (operation, arguments) drawn once per '
        'spec); every case is executed on ALL block layouts of the spec (compositions of adjacent equal-dtype columns into 2-D '
        'blocks, width-1 pieces as 1-D or n x 1) when there are <= 40, otherwise on 40 sampled ones incl. all-1-D and fully '
        'consolidated; one evaluation = (spec, operation) compared across its layouts, non-trivial when >= 2 layouts exist; '
        'coherence evaluations compare every read route with the spec cell by cell')
EXPLANATION = 'layout enumeration is complete for specs with <= 40 layouts (counted under breakdown.layout_enumeration)'
EXHAUSTIVE = {'quick': False, 'thorough': False}
ASSUMPTIONS = ['the outcome descriptor is the canonical snapshot (labels, per-column dtypes, cells, name, class) or the exception class name',
               'arguments are drawn once per spec and reused for every layout']
TIERS = {'quick': {'shards': 8, 'budget_s': 150, 'min_nontrivial': 2000},
         'thorough': {'shards': 16, 'budget_s': 1500, 'min_nontrivial': 30000}}
HOOKS = ('typeblocks',)
REQUIRED_HOOKS = ('TypeBlocks.__init__',)
ANCHORS = {
    'static_frame.core.type_blocks': [
        'TypeBlocks._key_to_block_slices', 'TypeBlocks._indices_to_contiguous_pairs', 'TypeBlocks._cols_to_slice',
        'TypeBlocks._slice_blocks', 'TypeBlocks._extract_array', 'TypeBlocks._blocks_to_array', 'TypeBlocks._extract',
        'TypeBlocks._drop_blocks', 'TypeBlocks._mask_blocks', 'TypeBlocks._astype_blocks', 'TypeBlocks._shift_blocks',
        'TypeBlocks._assign_from_iloc_by_unit', 'TypeBlocks._assign_from_iloc_by_blocks', 'TypeBlocks._assign_from_boolean_blocks_by_unit',
        'TypeBlocks._ufunc_blocks', 'TypeBlocks._block_shape_slices', 'TypeBlocks.ufunc_axis_skipna', 'TypeBlocks.consolidate_blocks',
        'TypeBlocks._reblock', 'TypeBlocks.group', 'TypeBlocks.sort', 'TypeBlocks.transpose', 'TypeBlocks.isna', 'TypeBlocks.fillna',
        'TypeBlocks.fillna_forward', 'TypeBlocks.fillna_leading', 'TypeBlocks.dropna_to_keep_locations', 'TypeBlocks.equals',
        'TypeBlocks.iloc_searchsorted', 'TypeBlocks.axis_values', 'TypeBlocks.element_items', 'TypeBlocks.resize_blocks',
        'TypeBlocks.extract_bloc', 'TypeBlocks._fillna_directional_axis_1', 'TypeBlocks._fillna_sided_axis_1', 'TypeBlocks._apply_binary_operator',
        'TypeBlocks.display', 'TypeBlocks.__setstate__'],
}
REQUIRED_ANCHORS = ['type_blocks.TypeBlocks._slice_blocks', 'type_blocks.TypeBlocks._key_to_block_slices',
                    'type_blocks.TypeBlocks._drop_blocks', 'type_blocks.TypeBlocks._astype_blocks', 'type_blocks.TypeBlocks._shift_blocks',
                    'type_blocks.TypeBlocks._blocks_to_array']

_DTYPES = ['bool', 'int64', 'float64', '<U5', 'object', 'M8[D]', 'int8', 'uint8', 'float32', 'complex128', '<U1']
_MAX_LAYOUTS = 40


# --------------------------------------------------------------------------------------
# outcome descriptors

TECHNIQUE = 'runtime monitoring: metamorphic oracle over the complete enumeration of block layouts of one FrameSpec (every layout must give the outcome of the all-1-D layout for ~60 operations) + structural coherence of every read route'


def descr(x, depth=0):
    import static_frame as sf
    from static_frame.core.index_base import IndexBase
    if isinstance(x, BaseException):
        return ('exc', type(x).__name__)
    if isinstance(x, (sf.Series, sf.Frame, IndexBase)):
        return ('snap', _freeze(canon.snap(x)))
    if isinstance(x, np.ma.MaskedArray):
        return ('masked', descr(np.asarray(x.data)), descr(np.asarray(x.mask)))
    if isinstance(x, np.ndarray):
        return ('snap', _freeze(canon.snap(x)))
    if isinstance(x, dict):
        return ('dict', tuple((descr(k, depth + 1), descr(v, depth + 1)) for k, v in x.items()))
    if isinstance(x, (list, tuple)):
        if depth < 4 and any(isinstance(e, (sf.Series, sf.Frame, IndexBase, np.ndarray, tuple, list)) for e in x):
            return (type(x).__name__, tuple(descr(e, depth + 1) for e in x))
        return ('elements', cs(x))
    if hasattr(x, '__next__'):
        return ('iter', tuple(descr(e, depth + 1) for e in x))
    return ('element', cs(x))


def _freeze(d):
    if isinstance(d, dict):
        return tuple(sorted((k, _freeze(v)) for k, v in d.items()))
    if isinstance(d, (list, tuple)):
        return tuple(_freeze(v) for v in d)
    return d


def outcome(fn, f, a):
    try:
        return descr(fn(f, a))
    except Exception as e:  # the error class is part of the descriptor
        return ('exc', type(e).__name__)


# --------------------------------------------------------------------------------------
# operation catalogue: name -> (draw(spec, rng) -> args | None, run(frame, args))

def _pos(n, rng):
    return K.gen_positional(n, rng)


def _col_label(spec, rng):
    return rng.choice(spec.cols) if spec.cols else None


def _value_for(dt, rng):
    return V.element(dt, rng)


def _d_iloc(spec, rng):
    return {'r': _pos(spec.shape[0], rng), 'c': _pos(spec.shape[1], rng)}


def _r_iloc(f, a):
    return f.iloc[K.realize(a['r']), K.realize(a['c'])]


def _d_iloc_norepeat(spec, rng):
    return {'r': K.gen_positional(spec.shape[0], rng, allow_repeat=False), 'c': K.gen_positional(spec.shape[1], rng, allow_repeat=False)}


def _r_drop_iloc(f, a):
    return f.drop.iloc[K.realize(a['r']), K.realize(a['c'])]


def _r_mask_iloc(f, a):
    return f.mask.iloc[K.realize(a['r']), K.realize(a['c'])]


def _r_masked_array(f, a):
    return f.masked_array.iloc[K.realize(a['r']), K.realize(a['c'])]


def _d_loc(spec, rng):
    if spec.row_kind.startswith('hier') or spec.col_kind.startswith('hier'):
        return None
    return {'r': K.gen_label(spec.rows, spec.row_kind, rng), 'c': K.gen_label(spec.cols, spec.col_kind, rng)}


def _r_loc(f, a):
    return f.loc[K.realize(a['r']), K.realize(a['c'])]


def _d_getitem(spec, rng):
    if spec.col_kind.startswith('hier'):
        return None
    for _ in range(10):
        k = K.gen_label(spec.cols, spec.col_kind, rng)
        if k[0] not in ('boolseries', 'iloc'):
            return {'c': k}
    return None


def _r_getitem(f, a):
    return f[K.realize(a['c'])]


def _d_assign_scalar(spec, rng):
    dt = rng.choice(_DTYPES)
    return {'r': _pos(spec.shape[0], rng), 'c': _pos(spec.shape[1], rng), 'v': _value_for(dt, rng)}


def _r_assign_scalar(f, a):
    return f.assign.iloc[K.realize(a['r']), K.realize(a['c'])](a['v'])


def _d_assign_cols_array(spec, rng):
    nr, nc = spec.shape
    if not nc:
        return None
    c = rng.randrange(nc)
    dt = rng.choice(_DTYPES)
    return {'c': c, 'dt': dt, 'vals': V.column(dt, nr, rng)}


def _r_assign_cols_array(f, a):
    return f.assign.iloc[:, a['c']](V.to_array(a['vals'], a['dt']))


def _d_shift(spec, rng):
    return {'index': rng.randint(-3, 3), 'columns': rng.randint(-3, 3), 'fill': rng.choice([np.nan, None, 0, 'x', -1.5])}


def _r_shift(f, a):
    return f.shift(a['index'], a['columns'], fill_value=a['fill'])


def _d_roll(spec, rng):
    return {'index': rng.randint(-3, 3), 'columns': rng.randint(-3, 3), 'inc_i': rng.random() < 0.5, 'inc_c': rng.random() < 0.5}


def _r_roll(f, a):
    return f.roll(a['index'], a['columns'], include_index=a['inc_i'], include_columns=a['inc_c'])


def _d_none(spec, rng):
    return {}


def _d_astype_all(spec, rng):
    return {'dt': rng.choice(['float64', 'object', 'str', 'int64', 'bool', 'complex128', 'float32'])}


def _r_astype_all(f, a):
    return f.astype(str if a['dt'] == 'str' else a['dt'])


def _d_astype_cols(spec, rng):
    if spec.col_kind.startswith('hier') or not spec.cols:
        return None
    k = rng.randint(1, len(spec.cols))
    picked = rng.sample(range(len(spec.cols)), k)
    cols = [c for i, c in enumerate(spec.cols) if i in picked]
    return {'c': cols if rng.random() < 0.7 else cols[0], 'dt': rng.choice(['float64', 'object', 'str', 'int64', 'bool'])}


def _r_astype_cols(f, a):
    return f.astype[a['c']](str if a['dt'] == 'str' else a['dt'])


def _d_astype_cols_present_dtype(spec, rng):
    """target dtype = the dtype some of the selected columns already have (those blocks may be passed through untouched), selection of
    non-adjacent columns: what a block that needs no conversion does to the pending targets must not depend on where the blocks end"""
    if spec.col_kind.startswith('hier') or len(spec.cols) < 3:
        return None
    counts = {}
    for dt in spec.dtypes:
        counts[dt] = counts.get(dt, 0) + 1
    cands = [dt for dt, c in counts.items() if c >= 2 and dt in ('float64', 'int64', 'bool', 'object', 'float32', 'int8', 'uint8', 'complex128')]
    if not cands:
        return None
    dt = rng.choice(cands)
    same = [i for i, d in enumerate(spec.dtypes) if d == dt]
    others = [i for i, d in enumerate(spec.dtypes) if d != dt]
    picked = set(rng.sample(same, rng.randint(2, len(same))))
    if len(same) >= 3 and rng.random() < 0.6:
        picked.discard(same[1])  # leave a gap inside the run of equal dtypes
    picked.update(rng.sample(others, rng.randint(0, len(others))))
    return {'c': [c for i, c in enumerate(spec.cols) if i in picked], 'dt': dt}


def _d_fillna_frame(spec, rng):
    """fill from a Frame with the same labels: cell (r, c) is filled from the fill frame's cell (r, c), whatever blocks the target has"""
    nr, nc = spec.shape
    if not nr or not nc or spec.row_kind.startswith('hier') or spec.col_kind.startswith('hier'):
        return None
    return {'cells': [[rng.choice([7, 8.5, 'z', True]) for _ in range(nc)] for _ in range(nr)], 'same_kind': rng.random() < 0.5,
            'numbers': [[float(10 * i + j) for j in range(nc)] for i in range(nr)]}


def _r_fillna_frame(f, a):
    import static_frame as sf
    cells = a['numbers'] if a['same_kind'] else a['cells']
    fill = sf.Frame.from_records(cells, index=f.index, columns=f.columns)
    return f.fillna(fill)


def _d_binop_scalar(spec, rng):
    return {'op': rng.choice(['add', 'sub', 'mul', 'truediv', 'floordiv', 'eq', 'ne', 'lt', 'ge', 'and_', 'or_', 'radd', 'rsub', 'pow']),
            'v': rng.choice([1, 2, 0, -1, 1.5, True, 'a', None])}


def _r_binop_scalar(f, a):
    import operator as o
    op = a['op']
    if op == 'radd':
        return a['v'] + f
    if op == 'rsub':
        return a['v'] - f
    return getattr(o, op)(f, a['v'])


def _d_binop_array(spec, rng):
    nc = spec.shape[1]
    return {'op': rng.choice(['add', 'mul', 'eq', 'lt', 'sub']), 'v': [rng.choice([1, 2, 0, -3]) for _ in range(nc)]}


def _r_binop_array(f, a):
    import operator as o
    return getattr(o, a['op'])(f, np.array(a['v'], dtype=np.int64))


def _d_unary(spec, rng):
    return {'op': rng.choice(['neg', 'abs', 'invert', 'pos'])}


def _r_unary(f, a):
    import operator as o
    return getattr(o, a['op'])(f)


def _d_isin(spec, rng):
    pool = [spec.cells[r][c] for r in range(spec.shape[0]) for c in range(spec.shape[1])]
    items = rng.sample(pool, min(len(pool), 3)) + [1, 'a']
    items = [x for x in items if not isinstance(x, (np.datetime64, np.timedelta64))]
    return {'items': items}


def _r_isin(f, a):
    return f.isin(a['items'])


def _d_clip(spec, rng):
    return {'lower': rng.choice([None, 0, -1.5, 1]), 'upper': rng.choice([None, 2, 100.5, 1])}


def _r_clip(f, a):
    return f.clip(lower=a['lower'], upper=a['upper'])


def _d_clip_frame(spec, rng):
    if not spec.shape[0] or not spec.shape[1]:
        return None
    return {'spec': spec, 'lay_seed': rng.randrange(1 << 30), 'which': rng.choice(['both', 'lower', 'upper']), 'shift': rng.choice([0, 0, 1])}


def _r_clip_frame(f, a):
    # bounds given as a Frame of the same labels held in its OWN block layout (fixed per case, whatever layout f has)
    import random
    spec = a['spec']
    lays = F.layouts(spec.dtypes)
    g = F.build_frame(spec, random.Random(a['lay_seed']).choice(lays))
    kw = {}
    if a['which'] in ('both', 'lower'):
        kw['lower'] = g
    if a['which'] in ('both', 'upper'):
        kw['upper'] = g
    return f.clip(**kw)


def _d_sort_values(spec, rng):
    if not spec.cols or spec.col_kind.startswith('hier'):
        return None
    k = rng.randint(1, min(2, len(spec.cols)))
    return {'by': rng.sample(spec.cols, k), 'asc': rng.random() < 0.6}


def _r_sort_values(f, a):
    by = a['by'][0] if len(a['by']) == 1 else list(a['by'])
    return f.sort_values(by, ascending=a['asc'])


def _d_sort_axis1(spec, rng):
    if not spec.rows or spec.row_kind.startswith('hier'):
        return None
    return {'by': rng.choice(spec.rows), 'asc': rng.random() < 0.6}


def _r_sort_axis1(f, a):
    return f.sort_values(a['by'], axis=0, ascending=a['asc'])


def _d_bool(spec, rng):
    return {'asc': rng.random() < 0.5}


def _d_group(spec, rng):
    if not spec.cols or spec.col_kind.startswith('hier'):
        return None
    return {'by': rng.choice(spec.cols), 'axis': 0}


def _r_group(f, a):
    return [(k, g) for k, g in f.iter_group_items(a['by'], axis=a['axis'])]


def _d_set_index(spec, rng):
    if not spec.cols or spec.col_kind.startswith('hier'):
        return None
    return {'c': rng.choice(spec.cols), 'drop': rng.random() < 0.5}


def _r_set_index(f, a):
    return f.set_index(a['c'], drop=a['drop'])


def _d_reindex(spec, rng):
    if spec.row_kind.startswith('hier') or spec.col_kind.startswith('hier') or spec.row_kind in ('IndexDate',):
        return None
    rows = rng.sample(spec.rows, rng.randint(0, len(spec.rows))) + ([999] if rng.random() < 0.5 and spec.row_kind in ('int', 'auto', 'negint') else [])
    cols = rng.sample(spec.cols, rng.randint(0, len(spec.cols))) + (['NEW'] if rng.random() < 0.5 and spec.col_kind == 'str' else [])
    return {'rows': rows, 'cols': cols, 'fill': rng.choice([np.nan, None, 0, 'x'])}


def _r_reindex(f, a):
    return f.reindex(index=a['rows'], columns=a['cols'], fill_value=a['fill'])


def _d_fillna(spec, rng):
    return {'v': rng.choice([0, 'x', -1.5, True, None])}


def _d_fill_dir(spec, rng):
    return {'limit': rng.randint(0, 3), 'axis': rng.randint(0, 1)}


def _d_dropna(spec, rng):
    return {'axis': rng.randint(0, 1), 'cond': rng.choice(['all', 'any'])}


def _r_dropna(f, a):
    return f.dropna(axis=a['axis'], condition=np.all if a['cond'] == 'all' else np.any)


def _d_reduce(spec, rng):
    return {'fn': rng.choice(['sum', 'prod', 'min', 'max', 'mean', 'median', 'std', 'var', 'all', 'any', 'cumsum', 'cumprod', 'count',
                              'loc_min', 'loc_max', 'iloc_min', 'iloc_max']),
            'axis': rng.randint(0, 1), 'skipna': rng.random() < 0.6}


def _r_reduce(f, a):
    fn = a['fn']
    if fn == 'count':
        return f.count(axis=a['axis'])
    if fn in ('loc_min', 'loc_max', 'iloc_min', 'iloc_max'):
        return getattr(f, fn)(axis=a['axis'], skipna=a['skipna'])
    return getattr(f, fn)(axis=a['axis'], skipna=a['skipna'])


def _d_axis(spec, rng):
    return {'axis': rng.randint(0, 1)}


def _d_insert(spec, rng):
    if not spec.cols or spec.col_kind.startswith('hier') or spec.col_kind != 'str':
        return None
    dt = rng.choice(_DTYPES)
    return {'at': rng.choice(spec.cols), 'dt': dt, 'vals': V.column(dt, spec.shape[0], rng), 'after': rng.random() < 0.5}


def _r_insert(f, a):
    import static_frame as sf
    s = sf.Series(V.to_array(a['vals'], a['dt']), index=f.index, name='INSERTED')
    return (f.insert_after if a['after'] else f.insert_before)(a['at'], s)


def _d_count(spec, rng):
    return {'n': rng.randint(0, 4)}


def _d_bloc(spec, rng):
    nr, nc = spec.shape
    if not nr or not nc or spec.row_kind.startswith('hier') or spec.col_kind.startswith('hier'):
        return None
    return {'mask': [[rng.random() < 0.4 for _ in range(nc)] for _ in range(nr)]}


def _r_bloc(f, a):
    import static_frame as sf
    m = sf.Frame(np.array(a['mask'], dtype=bool).reshape(f.shape), index=f.index, columns=f.columns)
    return f.bloc[m]


def _r_assign_bloc(f, a):
    import static_frame as sf
    m = sf.Frame(np.array(a['mask'], dtype=bool).reshape(f.shape), index=f.index, columns=f.columns)
    return f.assign.bloc[m](-7)


def _d_via_str(spec, rng):
    return {'fn': rng.choice(['upper', 'len', 'isdigit', 'zfill', 'startswith'])}


def _r_via_str(f, a):
    fn = a['fn']
    if fn == 'zfill':
        return f.via_str.zfill(4)
    if fn == 'startswith':
        return f.via_str.startswith('a')
    return getattr(f.via_str, fn)()


def _d_window(spec, rng):
    return {'size': rng.randint(1, 3), 'axis': rng.randint(0, 1)}


def _r_window(f, a):
    return [(k, w) for k, w in f.iter_window_items(size=a['size'], axis=a['axis'])]


def _d_window_array(spec, rng):
    return {'size': rng.randint(1, 3), 'axis': rng.randint(0, 1), 'step': rng.choice([1, 1, 2]), 'items': rng.random() < 0.5}


def _r_window_array(f, a):
    if a['items']:
        return [(k, w) for k, w in f.iter_window_array_items(size=a['size'], axis=a['axis'], step=a['step'])]
    return list(f.iter_window_array(size=a['size'], axis=a['axis'], step=a['step']))


def _d_shift_labels(spec, rng):
    nr, nc = spec.shape
    if nc < 2 or not nr or spec.col_kind.startswith('hier'):
        return None
    k = rng.randint(2, min(3, nc))
    return {'cols': sorted(rng.sample(range(nc), k)), 'drop': rng.random() < 0.6, 'how': rng.choice(['set_index_hierarchy', 'relabel_shift_in']),
            'out': rng.choice([0, 1, k - 1, [0, k - 1], list(range(k))])}


def _r_shift_labels(f, a):
    # columns become index depths (whatever blocks held them), then depths go back out as columns
    labels = [f.columns.values[i] for i in a['cols']]
    labels = [x.item() if hasattr(x, 'item') else x for x in labels]
    if a['how'] == 'set_index_hierarchy':
        g = f.set_index_hierarchy(labels, drop=a['drop'])
    else:
        g = f.relabel_shift_in(labels, axis=0)
    return g, g.relabel_shift_out(a['out'])


def _d_equals(spec, rng):
    return {'cd': rng.random() < 0.5}


def _r_unique(f, a):
    u = f.unique(axis=a['axis']) if a['axis'] in (0, 1) else f.unique()
    return u


CATALOGUE = {
    'iloc': (_d_iloc, _r_iloc),
    'loc': (_d_loc, _r_loc),
    'getitem': (_d_getitem, _r_getitem),
    'drop_iloc': (_d_iloc_norepeat, _r_drop_iloc),
    'mask_iloc': (_d_iloc, _r_mask_iloc),
    'masked_array_iloc': (_d_iloc, _r_masked_array),
    'assign_scalar': (_d_assign_scalar, _r_assign_scalar),
    'assign_column_array': (_d_assign_cols_array, _r_assign_cols_array),
    'shift': (_d_shift, _r_shift),
    'roll': (_d_roll, _r_roll),
    'transpose': (_d_none, lambda f, a: f.transpose()),
    'astype_all': (_d_astype_all, _r_astype_all),
    'astype_cols': (_d_astype_cols, _r_astype_cols),
    'astype_cols_present_dtype': (_d_astype_cols_present_dtype, _r_astype_cols),
    'fillna_frame': (_d_fillna_frame, _r_fillna_frame),
    'binop_scalar': (_d_binop_scalar, _r_binop_scalar),
    'binop_array': (_d_binop_array, _r_binop_array),
    'unary': (_d_unary, _r_unary),
    'isin': (_d_isin, _r_isin),
    'clip': (_d_clip, _r_clip),
    'clip_frame': (_d_clip_frame, _r_clip_frame),
    'sort_values': (_d_sort_values, _r_sort_values),
    'sort_values_axis0': (_d_sort_axis1, _r_sort_axis1),
    'sort_index': (_d_bool, lambda f, a: f.sort_index(ascending=a['asc'])),
    'sort_columns': (_d_bool, lambda f, a: f.sort_columns(ascending=a['asc'])),
    'iter_group_items': (_d_group, _r_group),
    'set_index': (_d_set_index, _r_set_index),
    'unset_index': (_d_none, lambda f, a: f.unset_index()),
    'reindex': (_d_reindex, _r_reindex),
    'fillna': (_d_fillna, lambda f, a: f.fillna(a['v'])),
    'fillna_forward': (_d_fill_dir, lambda f, a: f.fillna_forward(a['limit'], axis=a['axis'])),
    'fillna_backward': (_d_fill_dir, lambda f, a: f.fillna_backward(a['limit'], axis=a['axis'])),
    'fillna_forward_limited': (lambda spec, rng: {'limit': rng.choice([1, 1, 2])}, lambda f, a: f.fillna_forward(a['limit'], axis=1)),
    'fillna_backward_limited': (lambda spec, rng: {'limit': rng.choice([1, 1, 2])}, lambda f, a: f.fillna_backward(a['limit'], axis=1)),
    'fillna_leading': (_d_fillna, lambda f, a: f.fillna_leading(a['v'], axis=0)),
    'fillna_trailing_axis1': (_d_fillna, lambda f, a: f.fillna_trailing(a['v'], axis=1)),
    'fillna_leading_axis1': (_d_fillna, lambda f, a: f.fillna_leading(a['v'], axis=1)),
    'fillna_trailing': (_d_fillna, lambda f, a: f.fillna_trailing(a['v'], axis=0)),
    'isna': (_d_none, lambda f, a: f.isna()),
    'notna': (_d_none, lambda f, a: f.notna()),
    'dropna': (_d_dropna, _r_dropna),
    'reduce': (_d_reduce, _r_reduce),
    'values': (_d_none, lambda f, a: f.values),
    'iter_array': (_d_axis, lambda f, a: list(f.iter_array(axis=a['axis']))),
    'iter_tuple': (_d_axis, lambda f, a: [tuple(t) for t in f.iter_tuple(axis=a['axis'], constructor=tuple)]),
    'iter_series_items': (_d_axis, lambda f, a: list(f.iter_series_items(axis=a['axis']))),
    'iter_element_items': (_d_none, lambda f, a: list(f.iter_element_items())),
    'to_pairs': (_d_axis, lambda f, a: f.to_pairs(a['axis'])),
    'items': (_d_none, lambda f, a: list(f.items())),
    'dtypes': (_d_none, lambda f, a: f.dtypes),
    'shape_size': (_d_none, lambda f, a: (f.shape, f.size, f.ndim, f.nbytes)),
    'insert': (_d_insert, _r_insert),
    'head': (_d_count, lambda f, a: f.head(a['n'])),
    'tail': (_d_count, lambda f, a: f.tail(a['n'])),
    'duplicated': (_d_axis, lambda f, a: f.duplicated(axis=a['axis'])),
    'drop_duplicated': (_d_axis, lambda f, a: f.drop_duplicated(axis=a['axis'])),
    'unique': (_d_axis, _r_unique),
    'bloc': (_d_bloc, _r_bloc),
    'assign_bloc': (_d_bloc, _r_assign_bloc),
    'to_frame_go': (_d_none, lambda f, a: f.to_frame_go()),
    'frame_init': (_d_none, lambda f, a: type(f)(f)),
    'pickle': (_d_none, lambda f, a: pickle.loads(pickle.dumps(f))),
    'repr': (_d_none, lambda f, a: repr(f)),
    'to_csv_text': (_d_none, lambda f, a: _to_text(f)),
    'equals_self_copy': (_d_equals, lambda f, a: f.equals(pickle.loads(pickle.dumps(f)), compare_dtype=a['cd'])),
    'via_str': (_d_via_str, _r_via_str),
    'iter_window_items': (_d_window, _r_window),
    'rows_each': (_d_none, lambda f, a: [f.iloc[i] for i in range(len(f.index))]),
    'rows_each_by_label': (_d_none, lambda f, a: [f.loc[lab] for lab in f.index] if f.index.depth == 1 and f.index.values.dtype.kind not in 'bO' else None),
    'iter_window_array': (_d_window_array, _r_window_array),
    'shift_labels_in_out': (_d_shift_labels, _r_shift_labels),
    'relabel_flat': (_d_none, lambda f, a: f.relabel_flat(index=True, columns=True) if f.index.depth > 1 and f.columns.depth > 1 else
                     (f.relabel_flat(index=True) if f.index.depth > 1 else (f.relabel_flat(columns=True) if f.columns.depth > 1 else f.relabel(index=str)))),
    'rename': (_d_none, lambda f, a: f.rename('renamed')),
    'sum_of_iter_array_apply': (_d_axis, lambda f, a: f.iter_array(axis=a['axis']).apply(len)),
}
# axis reductions are left out of the sampled operations: the row-dtype out buffer of TypeBlocks.ufunc_axis_skipna makes many of them
# layout dependent by recorded mechanisms, which only C15's reference model can tell apart (C15 runs every reduction on every
# layout and keys each mechanism separately); a catch-all finding here would hide new layout dependence instead of reporting it
OPS = sorted(n for n in CATALOGUE if n != 'reduce')


def _to_text(f):
    import io
    s = io.StringIO()
    f.to_csv(s)
    return s.getvalue()


# --------------------------------------------------------------------------------------

def probes(ctx):
    nan = float('nan')
    S = F.FrameSpec
    return [
        {'spec': S([0, 1, 2], ['a', 'b'], 'auto', 'str', ['int64', 'int64'], [[1, 2], [3, 4], [5, 6]]), 'layout_seed': 1,
         'ops': [('bloc', {'mask': [[True, True], [False, True], [True, False]]})]},
        {'spec': S([0, 1], ['a', 'b'], 'auto', 'str', ['float64', 'float64'], [[nan, 1.0], [2.0, 3.0]]), 'layout_seed': 1, 'ops': [('fillna', {'v': 'x'})]},
        {'spec': S([-19, -11], [54, 22], 'negint', 'int', ['int8', 'int8'], [[-7, 5], [-7, 1]]), 'layout_seed': 1,
         'ops': [('reindex', {'rows': [999], 'cols': [54, 22], 'fill': 0})]},
        {'spec': S(['k3'], [11, 28, 13, 52], 'str', 'int', ['bool', 'bool', 'float32', 'bool'], [[True, True, 1024.0, True]]), 'layout_seed': 1,
         'ops': [('assign_scalar', {'r': ('array', []), 'c': ('array', [-3, 0, 3]), 'v': 250})]},
        {'spec': S([-2, -25], [0], 'negint', 'auto', ['float32'], [[nan], [3.0]]), 'layout_seed': 1, 'ops': [('dropna', {'axis': 1, 'cond': 'all'})]},
        {'spec': S([0, 1], ['z', 'w'], 'auto', 'str', ['object', 'object'], [[2.5, nan], [None, b'x']]), 'layout_seed': 1, 'ops': [('astype_all', {'dt': 'int64'})]},
    ]


_MISSING_OPS = ['fillna', 'fillna_forward', 'fillna_backward', 'fillna_leading', 'fillna_trailing', 'fillna_leading_axis1',
                'fillna_trailing_axis1', 'dropna', 'isna', 'notna', 'fillna_frame', 'fillna_forward_limited', 'fillna_backward_limited']
_MISSING_DTYPES = ['float64', 'float64', 'float32', 'object', 'M8[D]', 'complex128', 'int64']


def _missing_spec(rng):
    """A spec whose cells are missing about half of the time, in runs: the sided / directional fills carry state
    from block to block, so what they do depends on where a run of missing cells meets a block boundary."""
    spec = F.random_spec(rng, max_rows=4, max_cols=7, min_rows=1, min_cols=3, dtypes=_MISSING_DTYPES,
                         row_kinds=['auto', 'str'], col_kinds=['str', 'auto'], homog_p=0.3)
    nr, nc = spec.shape
    for i in range(nr):
        j = 0
        while j < nc:
            run = rng.randint(1, 3)
            miss = rng.random() < 0.5
            for jj in range(j, min(nc, j + run)):
                dt = spec.dtypes[jj]
                if miss:
                    if dt in ('float64', 'float32'):
                        spec.cells[i][jj] = V.NAN
                    elif dt == 'object':
                        spec.cells[i][jj] = rng.choice([None, V.NAN])
                    elif dt == 'M8[D]':
                        spec.cells[i][jj] = np.datetime64('NaT', 'D')
                    elif dt == 'complex128':
                        spec.cells[i][jj] = complex(V.NAN, 0)
                else:
                    spec.cells[i][jj] = V.element(dt, rng, missing_ok=False)
            j += run
    return spec


def generate(ctx):
    rng = ctx.rng
    for _ in range(ctx.n(900, 16000)):
        if rng.random() < 0.06:
            # two operands with block layouts of their own: wide runs of one numeric dtype, so that the blocks of the bounds
            # straddle the blocks of the clipped frame in every possible way
            spec = F.random_spec(rng, max_rows=3, max_cols=7, min_rows=1, min_cols=4, dtypes=['float64', 'int64', 'float64'],
                                 row_kinds=['auto', 'str'], col_kinds=['str', 'auto'], missing_ok=False, homog_p=0.6)
            ctx.tally('workload', 'two_layouts')
            ops = [('clip_frame', _d_clip_frame(spec, rng)) for _ in range(4)]
            yield {'spec': spec, 'ops': [o for o in ops if o[1] is not None], 'layout_seed': rng.randrange(1 << 30)}
            continue
        if rng.random() < 0.15:
            spec = _missing_spec(rng)
            names = [n for n in _MISSING_OPS if n in CATALOGUE]
            ctx.tally('workload', 'missing_runs')
        else:
            spec = F.random_spec(rng, max_rows=5, max_cols=7, dtypes=_DTYPES,
                                 row_kinds=['auto', 'int', 'str', 'negint', 'IndexDate', 'hier2', 'float'],
                                 col_kinds=['str', 'int', 'auto', 'hier2', 'negint'], homog_p=0.12)
            names = rng.sample(OPS, 14)
            ctx.tally('workload', 'general')
            if rng.random() < 0.3 and 'clip_frame' not in names:
                names.append('clip_frame')  # the one operation whose second operand has a block layout of its own
            if 'object' in spec.dtypes and rng.random() < 0.4:
                # object columns holding tuples: a cell that NumPy would read as a sequence wherever an array is built from cells
                for j, dt in enumerate(spec.dtypes):
                    if dt == 'object':
                        for i in range(spec.shape[0]):
                            if rng.random() < 0.5:
                                spec.cells[i][j] = rng.choice([(1, 2), ('a',), (3, 4), ()])
                ctx.tally('workload', 'tuple_cells')
                names = list(dict.fromkeys(names + ['rows_each', 'rows_each_by_label', 'iter_tuple', 'fillna_forward', 'fillna_backward_limited']))
        ops = []
        for name in names:
            a = CATALOGUE[name][0](spec, rng)
            if a is not None:
                ops.append((name, a))
        yield {'spec': spec, 'ops': ops, 'layout_seed': rng.randrange(1 << 30)}


def _layouts_for(case):
    import random
    spec = case['spec']
    lays = F.layouts(spec.dtypes)
    complete = len(lays) <= _MAX_LAYOUTS
    if not complete:
        lrng = random.Random(case['layout_seed'])
        keep = [lays[0], F.layout_max_consolidated(spec.dtypes)] + lrng.sample(lays[1:], _MAX_LAYOUTS - 2)
        lays = keep
    return lays, complete


def check(case, ctx):
    spec = case['spec']
    lays, complete = _layouts_for(case)
    ctx.tally('layout_enumeration', 'complete' if complete else 'sampled')
    ctx.tally('layouts_per_spec', len(lays))
    frames = []
    for lay in lays:
        f = F.build_frame(spec, lay)
        frames.append((lay, f))
    ctx.sample({'spec': spec.brief(), 'layouts': len(lays), 'ops': [n for n, _ in case['ops']]})
    # ---- coherence on every layout
    for lay, f in frames:
        _coherence(ctx, spec, lay, f)
    # ---- metamorphic
    ref_lay, ref = frames[0]
    for name, a in case['ops']:
        run = CATALOGUE[name][1]
        ctx.evaluation(('meta', repr(spec), name, repr(a)), len(frames) >= 2)
        ctx.tally('operation', name)
        expected = outcome(run, ref, a)
        ctx.tally('outcome_kind', expected[0] if expected[0] != 'exc' else 'exc:' + expected[1])
        for lay, f in frames[1:]:
            got = outcome(run, f, a)
            if got != expected:
                ctx.violation('layout_dependent_outcome',
                              detail={'operation': name, 'args': repr(a)[:300], 'reference_layout': F.layout_name(ref_lay),
                                      'layout': F.layout_name(lay), 'reference': canon.brief(expected, 700), 'got': canon.brief(got, 700),
                                      'difference': _diff(expected, got)},
                              klass=_klass(name, a, spec, expected, got))
                break


def _diff(e, g):
    if e[0] != g[0]:
        return f'kind {e[0]} vs {g[0]}' + (f' ({g[1]})' if g[0] == 'exc' else '') + (f' ({e[1]})' if e[0] == 'exc' else '')
    if e[0] == 'exc':
        return f'exception class {e[1]} vs {g[1]}'
    if e[0] == 'snap':
        de, dg = dict(e[1]), dict(g[1])
        return 'fields differing: ' + ','.join(k for k in de if de.get(k) != dg.get(k))
    return 'content'


def _fields_differing(e, g):
    if e[0] == g[0] == 'snap':
        de, dg = dict(e[1]), dict(g[1])
        return sorted(k for k in de if de.get(k) != dg.get(k))
    return None


def _thaw(fs):
    d = dict(fs)
    for key in ('index', 'columns'):
        if key in d:
            d[key] = dict(d[key])
    return d


def _value_equal(e, g):
    """True when two snapshot descriptors differ only in dtypes / in cells that are equal at
    value strength (the footprint of dtype widening), labels, names and shape being identical."""
    if e[0] == g[0] == 'snap':
        try:
            return canon.snap_values_eq(_thaw(e[1]), _thaw(g[1]), eq=_loose, check_dtype=False, check_cls=True)
        except Exception:
            return False
    if e[0] == g[0] and e[0] in ('list', 'tuple', 'iter') and len(e[1]) == len(g[1]):
        return all(x == y or _value_equal(x, y) for x, y in zip(e[1], g[1]))
    return False


def _same_mapping(e, g):
    """For Series descriptors: equal as {label: value} mappings (order ignored)."""
    if e[0] == g[0] == 'snap':
        de, dg = _thaw(e[1]), _thaw(g[1])
        if de.get('k') == dg.get('k') == 'Series':
            me = dict(zip(de['index']['labels'], de['values']))
            mg = dict(zip(dg['index']['labels'], dg['values']))
            return len(me) == len(de['values']) and set(me) == set(mg) and all(canon.leq(me[x], mg[x]) or _loose(me[x], mg[x]) for x in me)
    return False


def _loose(a, b):
    return _row_eq(a, b) or _row_eq(b, a)


def _klass(name, a, spec, expected, got):
    k = {'operation': name, 'dtype_kinds': sorted({np.dtype(d).kind for d in spec.dtypes})}
    k['value_equal'] = _value_equal(expected, got)
    k['tuple_cells'] = any(isinstance(v, tuple) for row in spec.cells for v in row)
    if name == 'bloc':
        k['same_mapping'] = _same_mapping(expected, got)
    fields = _fields_differing(expected, got)
    # which *fields* of the descriptor differ is part of the mechanism (dtype-only vs values)
    k['differs'] = ','.join(fields) if fields is not None else (f'{expected[0]}/{got[0]}')
    if name == 'reduce':
        k['fn'] = a['fn']
        k['axis'] = a['axis']
        k['skipna'] = a['skipna']
    if name in ('binop_scalar', 'binop_array', 'unary', 'via_str'):
        k['op'] = a.get('op', a.get('fn'))
    k['rows'] = spec.shape[0]
    k['cols'] = spec.shape[1]
    if name == 'reindex':
        held = {cs(r) for r in spec.rows}
        k['no_row_overlap'] = not any(cs(r) in held for r in a['rows'])
    if name in ('assign_scalar',):
        res = K.resolve_positional(spec.shape[0], a['r'])
        k['rows_selected'] = None if res.positions is None else len(res.positions)
    return k


def _coherence(ctx, spec, lay, f):
    nr, nc = spec.shape
    klass = {'check': 'coherence', 'layout_blocks': len(lay)}
    ctx.evaluation(('coh', repr(spec), repr(lay)), nr * nc > 0)

    def bad(what, **d):
        ctx.violation('coherence:' + what, detail=dict(d, layout=F.layout_name(lay)), klass=dict(klass, route=what))

    if f.shape != (nr, nc) or len(f.index) != nr or len(f.columns) != nc:
        bad('shape', got=f.shape, index=len(f.index), columns=len(f.columns))
        return
    exp = [[cs(v) for v in row] for row in spec.cells]
    exp_dt = [str(spec.col_array(j).dtype) for j in range(nc)]
    # dtypes per column
    got_dt = [str(d) for d in f.dtypes.values]
    if got_dt != exp_dt:
        bad('dtypes', got=got_dt, expected=exp_dt)
    # column arrays (exact)
    for j, arr in enumerate(f.iter_array(axis=0)):
        if str(arr.dtype) != exp_dt[j] or canon.arr_cells(arr) != [exp[i][j] for i in range(nr)]:
            bad('iter_array_axis0', column=j, got=canon.arr_cells(arr))
            return
    # rows (value strength on the consolidated row)
    for i, arr in enumerate(f.iter_array(axis=1)):
        if not canon.seq_eq(canon.arr_cells(arr), exp[i], _row_eq):
            bad('iter_array_axis1', row=i, got=canon.arr_cells(arr), expected=exp[i])
            return
    vals = f.values
    if vals.shape != (nr, nc):
        bad('values_shape', got=vals.shape)
        return
    for i in range(nr):
        if not canon.seq_eq(canon.arr_cells(vals[i]) if vals.ndim == 2 else [], exp[i], _row_eq):
            bad('values', row=i, got=canon.arr_cells(vals[i]), expected=exp[i])
            return
    # element access, exact
    for i in range(nr):
        for j in range(nc):
            e = f.iloc[i, j]
            if cs(e) != exp[i][j]:
                bad('iloc_element', i=i, j=j, got=cs(e), expected=exp[i][j])
                return
    if not spec.row_kind.startswith('hier') and not spec.col_kind.startswith('hier') and spec.row_kind != 'auto' and spec.col_kind != 'auto':
        for i in range(nr):
            for j in range(nc):
                e = f.loc[spec.rows[i], spec.cols[j]]
                if cs(e) != exp[i][j]:
                    bad('loc_element', i=i, j=j, got=cs(e), expected=exp[i][j])
                    return
    for (lab, ser), j in zip(f.iter_series_items(axis=0), range(nc)):
        if canon.arr_cells(ser.values) != [exp[i][j] for i in range(nr)] or str(ser.values.dtype) != exp_dt[j] or cs(lab) != cs(spec.cols[j]):
            bad('iter_series_axis0', column=j)
            return
    for (lab, ser), i in zip(f.iter_series_items(axis=1), range(nr)):
        if not canon.seq_eq(canon.arr_cells(ser.values), exp[i], _row_eq) or cs(lab) != cs(spec.rows[i]):
            bad('iter_series_axis1', row=i)
            return
    for t, i in zip(f.iter_tuple(axis=1, constructor=tuple), range(nr)):
        if not canon.seq_eq([cs(x) for x in t], exp[i], _row_eq):
            bad('iter_tuple_axis1', row=i, got=[cs(x) for x in t], expected=exp[i])
            return
    seen = 0
    for (rl, cl), v in f.iter_element_items():
        i, j = divmod(seen, nc)
        if cs(v) != exp[i][j] or cs(rl) != cs(spec.rows[i]) or cs(cl) != cs(spec.cols[j]):
            bad('iter_element_items', i=i, j=j, got=cs(v), expected=exp[i][j])
            return
        seen += 1
    if seen != nr * nc:
        bad('iter_element_items_count', got=seen)
    pairs = f.to_pairs(0)
    if len(pairs) != nc:
        bad('to_pairs_len', got=len(pairs))
        return
    for j, (cl, col) in enumerate(pairs):
        if cs(cl) != cs(spec.cols[j]) or [cs(v) for _, v in col] != [exp[i][j] for i in range(nr)] \
                or [cs(r) for r, _ in col] != [cs(r) for r in spec.rows]:
            bad('to_pairs_axis0', column=j)
            return
    for j, (cl, ser) in enumerate(f.items()):
        if cs(cl) != cs(spec.cols[j]) or canon.arr_cells(ser.values) != [exp[i][j] for i in range(nr)]:
            bad('items', column=j)
            return


def _row_eq(g, e):
    """a cell read through a consolidated row: value strength, plus NumPy's own promotion
    (int -> float, dt64 -> date object, NaT -> None) whose exactness is C07's concern."""
    if canon.leq(g, e):
        return True
    if e[0] in ('int', 'float', 'complex') and g[0] in ('int', 'float', 'complex'):
        try:
            return complex(canon._num(e)) == complex(canon._num(g))
        except Exception:
            return False
    if e[0] in ('dt64', 'td64') and e[2] == canon.NAT and g[0] == 'None':
        return True
    if e[0] == 'td64' and g[0] == 'other':
        return True
    return False
