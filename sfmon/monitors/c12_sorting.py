"""C12 — sorting permutes whole rows, orders the keys and is stable.

Every sort (Series.sort_index / sort_values, Frame.sort_index / sort_columns / sort_values on
both axes, Index.sort, IndexHierarchy.sort) is judged against `refsort`:
`sorted(range(n), key=K)` with Python's stable sort, K the tuple of key cells after the user
key function (NaN / NaT last as NumPy orders them), a descending sort being exactly the
reversed ascending arrangement.  The result must be the input's (label, row) pairs in that
arrangement, with names, the other axis, dtypes and classes unchanged.
"""
import math
import traceback

import numpy as np

from sfmon import canon
from sfmon.canon import cs
from sfmon.gen import frames as F
from sfmon.gen import keys as K
from sfmon.gen import labels as L
from sfmon.gen import values as V
from sfmon.runner import HarnessError

PROPERTY = 'C12'
RULE = ('cases = (SeriesSpec|FrameSpec|index labels, block layout, operation in Series.sort_index/sort_values, '
        'Frame.sort_index/sort_columns/sort_values(axis 0|1, 1..3 key labels), Index.sort, IndexHierarchy.sort, ascending|descending, '
        'optional key function = per-key elementwise maps packed as 1-D array / 2-D array / n x 1 array / Series / Frame / Index / '
        'IndexHierarchy) from seeded generators; the sorted axis has 0..64 positions (half of the cases 17..64) and key columns are '
        'drawn from sub-pools of 1..5 values so that ties are frequent; several block layouts per Frame spec; a case is non-trivial '
        'when the sorted axis has >= 2 positions and either the expected arrangement is not the identity or two positions tie; '
        'distinct = hash of (operation, spec, layout, arguments)')
EXPLANATION = ('the reference arrangement is unique (labels are unique), so every evaluation compares the complete result snapshot '
               'with the input snapshot permuted by refsort')
EXHAUSTIVE = {'quick': False, 'thorough': False}
ASSUMPTIONS = ['NumPy order of keys: NaN / NaT after every other value (complex: by (real is NaN, imag is NaN, real, imag)), -0.0 ties 0.0, '
               'strings and bytes by code point, object cells by Python comparison; key columns hold mutually comparable cells '
               '(object key columns without None/NaN), other columns hold anything',
               'a hierarchical index cannot hold a non-tree label order in this version: when the reference arrangement of a '
               'hierarchical axis is not tree-shaped (key function on the index, or sort_values over a hierarchical axis), or when the '
               'Frame handed to a sort_values key function would carry a non-tree selection of hierarchical labels, ErrorInitIndex is '
               'the expected outcome (counted under breakdown.outcome, never as held-by-default: the arrangement is still compared '
               'when the library returns)',
               'only the default sort kind (or an explicitly stable kind) is used, as in the statement',
               '`ascending` is a single bool in this version (a per-key list is not part of the interface)']
TIERS = {'quick': {'shards': 8, 'budget_s': 120, 'min_nontrivial': 4000},
         'thorough': {'shards': 16, 'budget_s': 1500, 'min_nontrivial': 50000}}
ANCHORS = {
    'static_frame.core.container_util': ['sort_index_for_order'],
    'static_frame.core.frame': ['Frame.sort_index', 'Frame.sort_columns', 'Frame.sort_values'],
    'static_frame.core.series': ['Series.sort_index', 'Series.sort_values'],
    'static_frame.core.index': ['Index.sort'],
    'static_frame.core.index_hierarchy': ['IndexHierarchy.sort', 'IndexHierarchy._extract_iloc'],
    'static_frame.core.type_blocks': ['TypeBlocks._extract_array', 'TypeBlocks._extract'],
}
REQUIRED_ANCHORS = ['container_util.sort_index_for_order', 'frame.Frame.sort_index', 'frame.Frame.sort_columns',
                    'frame.Frame.sort_values', 'series.Series.sort_index', 'series.Series.sort_values',
                    'index.Index.sort', 'index_hierarchy.IndexHierarchy.sort']
REQUIRED_TALLIES = [('op', 'series.sort_values'), ('op', 'series.sort_index'), ('op', 'frame.sort_index'),
                    ('op', 'frame.sort_columns'), ('op', 'frame.sort_values/axis1'), ('op', 'frame.sort_values/axis0'),
                    ('op', 'index.sort/flat'), ('op', 'index.sort/hier'),
                    ('ascending', 'False'), ('ascending', 'True'), ('branch', 'argsort'), ('branch', 'lexsort'),
                    ('n_with_ties', '17-64'), ('n_with_ties', '2-16'), ('nkeys', '2'), ('nkeys', '3'),
                    ('key_pack', 'none'), ('key_pack', 'array'), ('key_pack', 'array2d'), ('key_pack', 'series'),
                    ('key_pack', 'frame'), ('key_pack', 'index'), ('key_pack', 'hier'), ('key_pack', 'self'),
                    ('key_has_nan', 'True'), ('hier_sorted_axis', 'True'), ('layout_blocks_gt1', 'True')]


# --------------------------------------------------------------------------------------
# ordering of cells (the statement's "non-decreasing", with NumPy's placement of NaN / NaT)

TECHNIQUE = 'runtime monitoring: stable-sort reference (Python sorted on model keys) compared with the returned arrangement: permutation, order, stability with ties, labels carried with rows, grown-unread containers'


def _sk(v):
    """Sort key of one key cell.  Cells of one key vector are mutually comparable."""
    if isinstance(v, (bool, np.bool_)):
        return (0, bool(v))
    if isinstance(v, (np.datetime64, np.timedelta64)):
        if np.isnat(v):
            return (1, 0)
        return (0, int(v.astype(np.int64)))
    if isinstance(v, (int, np.integer)):
        return (0, int(v))
    if isinstance(v, (float, np.floating)):
        f = float(v)
        return (1, 0) if math.isnan(f) else (0, f)
    if isinstance(v, (complex, np.complexfloating)):
        c = complex(v)
        rn, im = math.isnan(c.real), math.isnan(c.imag)
        return ((rn, im), 0.0 if rn else c.real, 0.0 if im else c.imag)
    if isinstance(v, (str, np.str_)):
        return (0, str(v))
    if isinstance(v, (bytes, np.bytes_)):
        return (0, bytes(v))
    if isinstance(v, tuple):
        return (0, tuple(_sk(x) for x in v))
    return (0, v)  # datetime.date and other orderable objects


def refsort(vectors, n, ascending):
    """The statement's arrangement: positions ordered by the key tuple (first vector most
    significant), ties in original order; descending is the reverse of that arrangement."""
    keys = [tuple(_sk(vec[i]) for vec in vectors) for i in range(n)]
    p = sorted(range(n), key=keys.__getitem__)
    return (p if ascending else p[::-1]), keys


# --------------------------------------------------------------------------------------
# elementwise key maps: (NumPy implementation used inside the user key function, Python model)

def _np_mod3(a):
    return (a.astype(np.int64) if a.dtype.kind == 'b' else a) % 3


def _np_first(a):
    return a.astype('<U1') if a.dtype.kind == 'U' else a.astype('S1')


def _np_str(a):
    return np.array([str(x) for x in a], dtype=str) if len(a) else np.empty(0, dtype='<U1')


def _py_sign(v):
    if v != v:
        return v
    return (v > 0) - (v < 0)


_G = {
    'ident': (lambda a: a, lambda v: v),
    'const': (lambda a: np.zeros(len(a), dtype=np.int64), lambda v: 0),
    'mod3': (_np_mod3, lambda v: int(v) % 3),
    'sign': (np.sign, _py_sign),
    'neg': (lambda a: -a, lambda v: -v),
    'abs': (np.abs, abs),
    'isnan': (np.isnan, lambda v: v != v),
    'not': (lambda a: ~a, lambda v: not v),
    'real': (lambda a: np.array(a.real), lambda v: complex(v).real),
    'imag': (lambda a: np.array(a.imag), lambda v: complex(v).imag),
    'len': (np.char.str_len, len),
    'lower': (np.char.lower, lambda v: v.lower()),
    'first': (_np_first, lambda v: v[:1]),
    'month': (lambda a: a.astype('M8[M]'), lambda v: v.astype('M8[M]')),
    'str': (_np_str, str),
}
# family -> applicable maps; (map -> output class, output is small/exact under NumPy promotion)
_G_BY_FAM = {
    'b': ['ident', 'not', 'mod3', 'const'],
    'i': ['ident', 'mod3', 'mod3', 'sign', 'const'],
    'f': ['ident', 'neg', 'abs', 'isnan', 'sign', 'const'],
    'c': ['ident', 'real', 'imag', 'const'],
    'U': ['ident', 'len', 'lower', 'first', 'const'],
    'S': ['ident', 'len', 'first', 'const'],
    'M': ['ident', 'month', 'const'],
    'Mx': ['ident', 'const'],
    'm': ['ident', 'const'],
    'O': ['ident', 'str', 'const'],
    'Ox': ['str', 'const'],
}
_INJECTIVE = {'b': ['ident', 'not'], 'i': ['ident', 'neg', 'neg'], 'f': ['ident', 'neg'], 'U': ['ident'], 'S': ['ident'], 'M': ['ident'],
              'Mx': ['ident'], 'm': ['ident'], 'O': ['ident'], 'Ox': ['str'], 'c': ['ident']}


def _out_class(fam, g):
    """(class, small): class of the derived vector and whether stacking it with other numeric
    vectors is exact."""
    if g in ('not', 'isnan'):
        return 'b', True
    if g in ('mod3', 'const', 'len'):
        return 'i', True
    if g in ('neg', 'abs', 'real', 'imag'):
        return 'f', False
    if g in ('lower', 'str'):
        return 'U', False
    if g == 'month':
        return 'Mm', False
    if g == 'sign':
        return fam, True
    return fam, fam == 'b'  # ident, first


def _stackable(classes):
    """True when np.column_stack / vstack of the derived vectors keeps every value exactly."""
    cl = [c for c, _ in classes]
    if all(c in ('b', 'i', 'f') for c in cl):
        return all(small for c, small in classes if c != 'f')
    return len(set(cl)) == 1 and cl[0] in ('U', 'S')


def _fam(dt):
    if dt == 'bool':
        return 'b'
    if dt.startswith(('int', 'uint')):
        return 'i'
    if dt.startswith('float'):
        return 'f'
    if dt.startswith('complex'):
        return 'c'
    if dt.startswith('<U'):
        return 'U'
    if dt.startswith('S'):
        return 'S'
    if dt.startswith('M8'):
        return 'M' if dt == 'M8[D]' else 'Mx'
    if dt.startswith('m8'):
        return 'm'
    return 'O'


_KIND_FAM = {'auto': 'i', 'int': 'i', 'negint': 'i', 'range': 'i', 'str': 'U', 'float': 'f', 'IndexDate': 'M',
             'IndexYearMonth': 'Mx', 'IndexSecond': 'Mx', 'dateobj': 'O', 'mixed': 'Ox', 'tuple': 'Ox', 'bool': 'b'}
_KIND_CAP = {'int': 60, 'negint': 60, 'str': 35, 'float': 36, 'IndexDate': 64, 'IndexYearMonth': 48, 'IndexSecond': 64,
             'dateobj': 64, 'mixed': 34, 'tuple': 36, 'bool': 2, 'auto': 64, 'range': 64}


# --------------------------------------------------------------------------------------
# generators

_KEY_DTYPES = ['int64', 'int64', 'float64', 'float64', '<U5', '<U5', 'bool', 'int8', 'uint8', 'float32', 'M8[D]', 'm8[D]',
               'complex128', 'S5', 'uint64', '<U1', 'objstr', 'objnum', 'objtup', 'M8[s]', 'int32']
_OBJ_POOLS = {
    'objstr': ['a', 'b', 'ab', '', 'B', 'zz', 'a '],
    'objnum': [1, True, 0, False, 2.5, -3, 2 ** 70, -1.5, 7, float('inf')],
    'objtup': [(1, 'a'), (1, 'b'), (0, 'z'), (2, ''), (1, 'a '), (-1, 'q')],
}
_HPOOLS = [['A', 'B', 'C', 'D', 'E', 'a'], [-3, -1, 0, 2, 5, 10, 11], ['x', 'y', 'z', 'w', ''], [0.5, -1.5, 2.25, 3.0, -0.25],
           [10, 20, 30, 40]]
_ROW_KINDS = ['auto', 'int', 'str', 'negint', 'IndexDate', 'float', 'hier2', 'hier3', 'dateobj', 'IndexSecond']
_FLAT_ROW_KINDS = ['auto', 'int', 'str', 'negint', 'IndexDate', 'float', 'dateobj', 'IndexSecond']
_NAMES = (None, 'n', 7, ('t', 1))
_INAMES = (None, 'ix', 3)


def _pick_n(rng):
    r = rng.random()
    if r < 0.07:
        return rng.randint(0, 1)
    if r < 0.42:
        return rng.randint(2, 16)
    return rng.randint(17, 64)


def _real_dtype(dt):
    return 'object' if dt.startswith('obj') else dt


def _key_column(rng, dt, n, missing_ok=True):
    """n cells of one key column with many ties (a sub-pool of 1..5 values)."""
    if dt in _OBJ_POOLS:
        pool = list(_OBJ_POOLS[dt])
    else:
        pool = [V.normalize(dt, v) for v in V.DTYPE_POOLS[dt]]
        if not missing_ok:
            pool = [v for v in pool if not canon.is_missing(v)]
    k = rng.choice([1, 2, 2, 3, 3, 4, 5, len(pool)])
    sub = rng.sample(pool, min(k, len(pool)))
    return [rng.choice(sub) for _ in range(n)]


def _hier_labels(rng, depth, n):
    """Tree-shaped distinct tuples in unsorted order; returns (labels, per-depth family)."""
    pools = rng.sample(_HPOOLS, depth)
    out = []

    def grow(prefix, level):
        pool = pools[level]
        kids = rng.sample(pool, rng.randint(max(1, len(pool) - 2), len(pool)))
        for kid in kids:
            if len(out) >= n:
                return
            if level == depth - 1:
                out.append(prefix + (kid,))
            else:
                grow(prefix + (kid,), level + 1)

    grow((), 0)
    fams = ['U' if isinstance(p[0], str) else ('f' if isinstance(p[0], float) else 'i') for p in pools]
    return out, fams


def _axis_labels(rng, kind, n):
    """(labels, families of the key vectors the axis presents: one per depth)."""
    if kind.startswith('hier'):
        depth = int(kind[4])
        labels, fams = _hier_labels(rng, depth, max(1, n))
        return labels, fams
    labels = L.flat_labels(kind, min(n, _KIND_CAP[kind]), rng)
    return labels, [_KIND_FAM[kind]]


def _random_layout(rng, dtypes):
    r = rng.random()
    if r < 0.15:
        return F.layout_all_1d(dtypes)
    if r < 0.3:
        return F.layout_max_consolidated(dtypes)
    out, i, m = [], 0, len(dtypes)
    while i < m:
        j = i + 1
        while j < m and dtypes[j] == dtypes[i] and rng.random() < 0.6:
            j += 1
        out.append((i, j, True if j - i > 1 else rng.random() < 0.4))
        i = j
    return out


def _layouts_for(rng, dtypes, count):
    if len(dtypes) <= 6:
        lays = F.layouts(dtypes)
        return rng.sample(lays, min(count, len(lays)))
    seen, out = set(), []
    for _ in range(count * 3):
        lay = _random_layout(rng, dtypes)
        if repr(lay) not in seen:
            seen.add(repr(lay))
            out.append(lay)
        if len(out) == count:
            break
    return out


def _gen_keyfn(rng, fams, ctxkind, p_none=0.5, n=1):
    """Key-function descriptor {'src': [(vector index, map)], 'pack': ...} or None.
    ctxkind: 'flat' | 'hier' (index sorts), 'series' (Series.sort_values), 'frame1' / 'frame0'
    (Frame.sort_values on axis 1 / 0)."""
    if rng.random() < p_none:
        return None
    k_in = len(fams)
    if ctxkind == 'hier' and rng.random() < 0.3:
        return {'src': [(j, 'ident') for j in range(k_in)], 'pack': rng.choice(['self', 'flat'])}
    if ctxkind == 'hier' and rng.random() < 0.2:
        cols = sorted(rng.sample(range(k_in), rng.randint(2, k_in)))
        if rng.random() < 0.6:
            cols = list(range(len(cols)))  # a prefix of the depths keeps the tree order
        return {'src': [(j, 'ident') for j in cols], 'pack': 'values2d'}
    if ctxkind in ('flat', 'series') or k_in == 1:
        k_out = rng.choice([1, 1, 1, 2, 3]) if ctxkind != 'series' else 1
    else:
        k_out = rng.choice([1, 2, 2, 3])
    if ctxkind == 'hier' and rng.random() < 0.6:
        js = list(range(min(k_out, k_in)))  # prefix: tree order survives
    else:
        js = [rng.randrange(k_in) for _ in range(k_out)]
    src = [(j, rng.choice(_G_BY_FAM[fams[j]])) for j in js]
    classes = [_out_class(fams[j], g) for j, g in src]
    if ctxkind in ('flat', 'hier'):
        packs = (['array'] * 9 + ['array_n1']) if len(src) == 1 else ['array']
        if ctxkind == 'flat':
            # (a key function may return an Index as well as an array: a third of the flat cases)
            packs += ['index', 'index', 'index', 'index', 'hier'] if n else ['index']
    elif ctxkind == 'series':
        packs = ['array', 'series']
    elif ctxkind == 'frame1':
        packs = ['array', 'array_n1', 'series', 'frame'] if len(src) == 1 else ['array', 'frame', 'frame']
    else:
        packs = ['array', 'array_n1', 'series', 'frame'] if len(src) == 1 else ['array', 'frame']
    pack = rng.choice(packs)
    if pack in ('index', 'hier'):
        # the first derived vector must be injective so that the returned index is unique (and tree-shaped)
        j0 = 0
        src = [(j0, rng.choice(_INJECTIVE[fams[j0]]))] + (src[1:] if pack == 'hier' else [])
        if pack == 'hier' and len(src) < 2:
            src.append((0, rng.choice(_G_BY_FAM[fams[0]])))
        if pack == 'hier' and any(_out_class(fams[j], g)[0] in ('Mm',) for j, g in src):
            pack = 'index'
            src = src[:1]
    elif len(src) > 1 and (pack == 'array' or ctxkind == 'frame0') and not _stackable(classes):
        if ctxkind == 'frame1':
            pack = 'frame'
        else:
            src = src[:1]
    return {'src': src, 'pack': pack}


def _tame_value(v):
    if isinstance(v, int) and not isinstance(v, bool) and abs(v) > 2 ** 31:
        return v % 97
    return v


def _series_case(rng, op):
    n = _pick_n(rng)
    if op == 'series.sort_index':
        kind = rng.choice(_ROW_KINDS + ['mixed', 'tuple', 'IndexYearMonth', 'bool', 'hier3'])
    else:  # a value-sorted hierarchical index is rarely tree-shaped: few of those
        kind = rng.choice(_FLAT_ROW_KINDS * 3 + ['hier2', 'hier3'])
    labels, lfams = _axis_labels(rng, kind, n)
    n = len(labels)
    if op == 'series.sort_values':
        dt = rng.choice(_KEY_DTYPES)
        values = _key_column(rng, dt, n)
        fams = [_fam(_real_dtype(dt))]
        keyfn = _gen_keyfn(rng, fams, 'series', n=n)
    else:
        dt = rng.choice(V.COMMON)
        values = V.column(dt, n, rng)
        keyfn = _gen_keyfn(rng, lfams, 'hier' if kind.startswith('hier') else 'flat',
                           p_none=0.0 if lfams[0] == 'Ox' else (0.3 if len(lfams) == 1 else 0.45), n=n)
    spec = F.SeriesSpec(labels, kind, _real_dtype(dt), values, rng.choice((None, 's', 3)))
    return {'op': op, 'spec': spec, 'ascending': rng.random() < 0.5, 'kind': rng.choice([None] * 8 + ['mergesort', 'stable']),
            'keyfn': keyfn, 'iname': rng.choice(_INAMES) if kind != 'auto' else None,
            'cls': rng.choice(['Series'] * 4 + ['SeriesHE'])}


def _index_case(rng):
    kind = rng.choice(['int', 'str', 'negint', 'IndexDate', 'float', 'hier2', 'hier3', 'hier3', 'dateobj', 'mixed', 'IndexYearMonth'])
    labels, lfams = _axis_labels(rng, kind, _pick_n(rng))
    keyfn = _gen_keyfn(rng, lfams, 'hier' if kind.startswith('hier') else 'flat',
                       p_none=0.0 if lfams[0] == 'Ox' else (0.3 if len(lfams) == 1 else 0.45), n=len(labels))
    go = rng.random() < 0.3
    case = {'op': 'index.sort', 'ikind': kind, 'labels': labels, 'ascending': rng.random() < 0.5,
            'kind': rng.choice([None] * 8 + ['mergesort', 'stable']), 'keyfn': keyfn, 'iname': rng.choice(_INAMES),
            'go': go}
    if go and kind in _GROWABLE and len(labels) >= 2 and rng.random() < 0.6:
        # the grow-only index is built from a prefix and grown label by label, and sorted before anything reads it
        case['grown'] = rng.randint(1, len(labels) - 1)
    return case


def _other_columns(rng, n, count, dtypes=None):
    dts, cols = [], []
    while len(dts) < count:
        dt = rng.choice(dtypes or V.COMMON)
        for _ in range(rng.choice([1, 1, 2, 3])):
            if len(dts) < count:
                dts.append(dt)
                cols.append(V.column(dt, n, rng))
    return dts, cols


def _frame_index_case(rng, op):
    """sort_index / sort_columns: the sorted axis is long, the other one short."""
    long_kind = rng.choice(['auto', 'int', 'str', 'negint', 'float', 'hier2', 'hier3', 'mixed'] +
                           (['IndexDate', 'dateobj', 'IndexSecond'] if op == 'frame.sort_index' else ['IndexDate']))
    long_labels, lfams = _axis_labels(rng, long_kind, _pick_n(rng))
    n = len(long_labels)
    short_kind = rng.choice(['str', 'int', 'auto', 'hier2', 'negint'])
    short_labels, _ = _axis_labels(rng, short_kind, rng.randint(0, 5) if rng.random() < 0.9 else 0)
    if short_kind.startswith('hier') and rng.random() < 0.5:
        short_labels = short_labels[:rng.randint(1, len(short_labels))]
    if op == 'frame.sort_index':
        rows, row_kind, cols, col_kind = long_labels, long_kind, short_labels, short_kind
    else:
        rows, row_kind, cols, col_kind = short_labels, short_kind, long_labels, long_kind
    dts, columns = _other_columns(rng, len(rows), len(cols))
    cells = [[columns[j][i] for j in range(len(cols))] for i in range(len(rows))]
    spec = F.FrameSpec(rows, cols, row_kind, col_kind, dts, cells, rng.choice(_NAMES))
    keyfn = _gen_keyfn(rng, lfams, 'hier' if long_kind.startswith('hier') else 'flat',
                       p_none=0.0 if lfams[0] == 'Ox' else (0.3 if len(lfams) == 1 else 0.45), n=n)
    return {'op': op, 'spec': spec, 'ascending': rng.random() < 0.5, 'kind': rng.choice([None] * 8 + ['mergesort', 'stable']),
            'keyfn': keyfn, 'names': (rng.choice(_INAMES) if row_kind != 'auto' else None,
                                      rng.choice(_INAMES) if col_kind != 'auto' else None),
            'cls': rng.choice(['Frame', 'Frame', 'Frame', 'FrameGO', 'FrameHE'])}


def _label_arg(rng, labels, positions):
    labs = [labels[p] for p in positions]
    if len(labs) == 1 and rng.random() < 0.6:
        return ('one', labs[0])
    return ('list', labs)


def _frame_values_axis1(rng):
    n = _pick_n(rng)
    row_kind = rng.choice(_FLAT_ROW_KINDS * 3 + ['hier2', 'hier3'])
    rows, _ = _axis_labels(rng, row_kind, n)
    n = len(rows)
    nc = rng.randint(1, 6)
    col_kind = rng.choice(['str', 'str', 'int', 'auto', 'hier2', 'negint'])
    cols, _ = _axis_labels(rng, col_kind, nc)
    nc = len(cols)
    nk = min(nc, rng.choice([1, 1, 2, 2, 3]))
    key_pos = rng.sample(range(nc), nk)  # order = significance
    dts, columns = _other_columns(rng, n, nc)
    for p in key_pos:
        dt = rng.choice(_KEY_DTYPES)
        if rng.random() < 0.4 and p > 0 and dts[p - 1] != 'object':
            dt = dts[p - 1]  # same dtype as the left neighbour: the key column can sit inside a 2-D block
        columns[p] = _key_column(rng, dt, n)
        dts[p] = _real_dtype(dt)
    cells = [[columns[j][i] for j in range(nc)] for i in range(n)]
    spec = F.FrameSpec(rows, cols, row_kind, col_kind, dts, cells, rng.choice(_NAMES))
    fams = [_fam(dts[p]) for p in key_pos]
    keyfn = _gen_keyfn(rng, fams, 'frame1', p_none=0.55)
    return {'op': 'frame.sort_values', 'axis': 1, 'spec': spec, 'label': _label_arg(rng, cols, key_pos), 'key_pos': key_pos,
            'ascending': rng.random() < 0.5, 'kind': rng.choice([None] * 8 + ['mergesort', 'stable']), 'keyfn': keyfn,
            'names': (rng.choice(_INAMES) if row_kind != 'auto' else None, rng.choice(_INAMES) if col_kind != 'auto' else None),
            'cls': rng.choice(['Frame', 'Frame', 'Frame', 'FrameGO', 'FrameHE'])}


_AXIS0_FAMILIES = {
    'num': (['int64', 'float64', 'int8', 'uint8', 'float32', 'int32', 'int64', 'float64'], True),
    'int': (['int64', 'int8', 'uint8', 'int32', 'int16'], True),
    'numbool': (['bool', 'int64', 'float64', 'bool'], False),
    'str': (['<U1', '<U5', '<U20'], True),
    'date': (['M8[D]'], True),
    'bytes': (['S1', 'S5'], True),
    'objstr': (['objstr'], True),
    'objnum': (['objnum'], True),
    'bool': (['bool'], True),
    'float': (['float64', 'float32'], True),
    'complex': (['complex128'], True),
}
_BIG = float(2 ** 53)


def _frame_values_axis0(rng):
    """Columns are arranged by the cells of 1..3 key rows: many columns, few rows, all columns
    of one comparable family (the row is consolidated to one array by the library)."""
    n = _pick_n(rng)  # number of columns = sorted axis
    if n == 0 and rng.random() < 0.8:
        n = rng.randint(2, 16)
    col_kind = rng.choice(['str', 'int', 'auto', 'negint'] * 3 + ['hier3', 'hier2'])
    cols, _ = _axis_labels(rng, col_kind, n)
    n = len(cols)
    nr = rng.randint(1, 4)
    row_kind = rng.choice(['str', 'int', 'auto', 'hier2', 'negint', 'IndexDate'])
    rows, _ = _axis_labels(rng, row_kind, nr)
    nr = len(rows)
    family = rng.choice(['num', 'num', 'num', 'int', 'numbool', 'str', 'date', 'bytes', 'objstr', 'objnum', 'bool', 'float', 'complex'])
    pool_dts, missing_ok = _AXIS0_FAMILIES[family]
    dts = []
    while len(dts) < n:
        dt = rng.choice(pool_dts)
        dts.extend([dt] * rng.choice([1, 1, 2, 3, 5]))
    dts = dts[:n]
    nk = min(nr, rng.choice([1, 1, 2, 2, 3]))
    key_pos = rng.sample(range(nr), nk)
    # a row is drawn cell by cell from per-dtype sub-pools so that ties across columns are frequent
    subpools = {}
    for dt in sorted(set(dts)):
        pool = list(_OBJ_POOLS[dt]) if dt in _OBJ_POOLS else [V.normalize(dt, v) for v in V.DTYPE_POOLS[dt]]
        if not missing_ok:
            pool = [v for v in pool if not canon.is_missing(v)]
        subpools[dt] = rng.sample(pool, min(len(pool), rng.choice([1, 2, 3, 4, len(pool)])))
    lossy = family == 'num' and rng.random() < 0.06
    cells = []
    for _ in range(nr):
        row = []
        for dt in dts:
            v = rng.choice(subpools[dt])
            if lossy and dt == 'float64' and rng.random() < 0.3:
                v = _BIG
            elif lossy and dt == 'int64' and rng.random() < 0.3:
                v = rng.choice([2 ** 53 + 1, 2 ** 53, 2 ** 53 - 1])
            row.append(v)
        cells.append(row)
    real = [_real_dtype(dt) for dt in dts]
    fset = {_fam(dt) for dt in real}
    row_fam = next(iter(fset)) if len(fset) == 1 else ('f' if fset <= {'i', 'f'} else 'O')
    keyfn = _gen_keyfn(rng, [row_fam] * nk, 'frame0', p_none=0.6)
    if keyfn is not None:
        cells = [[_tame_value(v) for v in row] for row in cells]
    spec = F.FrameSpec(rows, cols, row_kind, col_kind, real, cells, rng.choice(_NAMES))
    return {'op': 'frame.sort_values', 'axis': 0, 'spec': spec, 'label': _label_arg(rng, rows, key_pos), 'key_pos': key_pos,
            'family': family, 'ascending': rng.random() < 0.5, 'kind': rng.choice([None] * 8 + ['mergesort', 'stable']),
            'keyfn': keyfn,
            'names': (rng.choice(_INAMES) if row_kind != 'auto' else None, rng.choice(_INAMES) if col_kind != 'auto' else None),
            'cls': rng.choice(['Frame', 'Frame', 'Frame', 'FrameGO', 'FrameHE'])}


_GROWABLE = ('auto', 'int', 'str', 'negint', 'IndexDate')


def _maybe_grown(rng, case):
    spec = case['spec']
    if case['op'] == 'frame.sort_columns' and case['cls'] == 'FrameGO' and spec.col_kind in _GROWABLE and len(spec.cols) >= 2 and rng.random() < 0.7:
        case['grown'] = rng.randint(1, len(spec.cols) - 1)
    return case


def generate(ctx):
    rng = ctx.rng
    per_spec = 2 if ctx.tier == 'quick' else 3
    for _ in range(ctx.n(26000, 300000)):
        r = rng.random()
        if r < 0.17:
            yield _series_case(rng, 'series.sort_values')
        elif r < 0.32:
            yield _series_case(rng, 'series.sort_index')
        elif r < 0.42:
            yield _index_case(rng)
        else:
            if r < 0.55:
                case = _frame_index_case(rng, 'frame.sort_index')
            elif r < 0.66:
                case = _maybe_grown(rng, _frame_index_case(rng, 'frame.sort_columns'))
            elif r < 0.86:
                case = _frame_values_axis1(rng)
            else:
                case = _frame_values_axis0(rng)
            for lay in _layouts_for(rng, case['spec'].dtypes, per_spec):
                yield dict(case, layout=lay)


def probes(ctx):
    s = F.SeriesSpec(['c', 'a', 'b', 'd'], 'str', 'int64', [10, 11, 12, 13], 's')
    big = F.FrameSpec(['r'], ['x', 'y', 'z'], 'str', 'str', ['int64', 'float64', 'int64'], [[2 ** 53 + 1, _BIG, 3]], 'f')
    nocol = F.FrameSpec(['r', 'q'], [], 'str', 'str', [], [[], []], 'f')
    return [
        {'op': 'series.sort_index', 'spec': s, 'ascending': True, 'kind': None, 'keyfn': {'src': [(0, 'ident')], 'pack': 'array_n1'},
         'iname': None, 'cls': 'Series'},
        {'op': 'frame.sort_values', 'axis': 0, 'spec': big, 'layout': F.layout_all_1d(big.dtypes), 'label': ('one', 'r'), 'key_pos': [0],
         'family': 'num', 'ascending': True, 'kind': None, 'keyfn': None, 'names': (None, None), 'cls': 'Frame'},
        {'op': 'frame.sort_values', 'axis': 0, 'spec': nocol, 'layout': [], 'label': ('one', 'r'), 'key_pos': [0],
         'family': 'num', 'ascending': True, 'kind': None, 'keyfn': None, 'names': (None, None), 'cls': 'Frame'},
    ]


# --------------------------------------------------------------------------------------
# building inputs and key functions

def _build_frame(spec, layout, clsname, names):
    import static_frame as sf
    from static_frame.core.type_blocks import TypeBlocks
    cls = getattr(sf, clsname)
    nr, nc = spec.shape
    idx = L.build_index(spec.row_kind, spec.rows, name=names[0])
    col = L.build_index(spec.col_kind, spec.cols, name=names[1], go=cls is sf.FrameGO)
    if nc == 0:
        return cls(index=idx if idx is not None else range(nr), columns=col if col is not None else (), name=spec.name)
    tb = TypeBlocks.from_blocks(F.blocks_for(spec, layout))
    return cls(tb, index=idx, columns=col, name=spec.name)


def _vectors_of(c, axis):
    """The key vectors a key function receives, as arrays (first = most significant)."""
    import static_frame as sf
    from static_frame.core.index_base import IndexBase
    if isinstance(c, IndexBase):
        if c.depth == 1:
            return [c.values]
        return [c.values_at_depth(d) for d in range(c.depth)]
    if isinstance(c, sf.Series):
        return [c.values]
    return list(c.iter_array(axis=0 if axis == 1 else 1))


def _make_keyfn(desc, axis, holder):
    import static_frame as sf
    src, pack = desc['src'], desc['pack']

    def fn(c):
        try:
            holder['called'] = holder.get('called', 0) + 1
            holder['received'] = type(c).__name__
            if pack == 'self':
                return c
            if pack == 'flat':
                return c.flat()
            if pack == 'values2d':
                return c.values[:, [j for j, _ in src]]
            vecs = _vectors_of(c, axis)
            # any elementwise map of an empty vector is that empty vector (its dtype is not the axis' dtype)
            derived = [np.zeros(0, dtype=np.int64) if len(vecs[j]) == 0 else _G[g][0](vecs[j]) for j, g in src]
            if pack == 'array':
                if len(derived) == 1:
                    return np.array(derived[0])
                return np.column_stack(derived) if axis == 1 else np.vstack(derived)
            if pack == 'array_n1':
                return np.array(derived[0]).reshape((-1, 1) if axis == 1 else (1, -1))
            if pack == 'series':
                return sf.Series(derived[0], index=c.index if isinstance(c, sf.Series) and axis == 1 else None)
            if pack == 'frame':
                if axis == 1:
                    return sf.Frame.from_items(enumerate(derived))
                return sf.Frame(np.vstack(derived))
            if pack == 'index':
                return sf.Index(derived[0])
            if pack == 'hier':
                from static_frame.core.type_blocks import TypeBlocks
                return sf.IndexHierarchy._from_type_blocks(TypeBlocks.from_blocks([np.array(d) for d in derived]))
            raise HarnessError(f'unknown pack {pack}')
        except Exception:
            holder['error'] = traceback.format_exc()
            raise

    return fn


def _model_vectors(vectors, keyfn):
    if keyfn is None:
        return vectors
    return [[_G[g][1](v) for v in vectors[j]] for j, g in keyfn['src']]


# --------------------------------------------------------------------------------------
# judging

def _n_bucket(n):
    return '0-1' if n < 2 else ('2-16' if n <= 16 else '17-64')


def _permute_snapshot(snap, p, what):
    """Input snapshot with the sorted axis arranged by p ('series' / 'rows' / 'cols' / 'index')."""
    out = dict(snap)
    if what == 'index':
        out['labels'] = tuple(snap['labels'][i] for i in p)
        return out
    if what == 'series':
        out['index'] = dict(snap['index'], labels=tuple(snap['index']['labels'][i] for i in p))
        out['values'] = tuple(snap['values'][i] for i in p)
        return out
    if what == 'rows':
        out['index'] = dict(snap['index'], labels=tuple(snap['index']['labels'][i] for i in p))
        out['cols'] = tuple(tuple(col[i] for i in p) for col in snap['cols'])
        return out
    out['columns'] = dict(snap['columns'], labels=tuple(snap['columns']['labels'][i] for i in p))
    out['cols'] = tuple(snap['cols'][i] for i in p)
    out['dtypes'] = tuple(snap['dtypes'][i] for i in p)
    return out


def _axis_of(snap, what):
    """(labels, per-position content) of the sorted axis of a snapshot."""
    if what == 'index':
        return snap['labels'], [None] * len(snap['labels'])
    if what == 'series':
        return snap['index']['labels'], list(snap['values'])
    if what == 'rows':
        n = len(snap['index']['labels'])
        return snap['index']['labels'], [tuple(col[i] for col in snap['cols']) for i in range(n)]
    return snap['columns']['labels'], [(snap['dtypes'][j], snap['cols'][j]) for j in range(len(snap['cols']))]


def _diagnose(in_snap, got, what, keys, ascending, exp):
    if got.get('k') != in_snap.get('k'):
        return 'result_kind_changed'
    in_labels, in_rows = _axis_of(in_snap, what)
    try:
        out_labels, out_rows = _axis_of(got, what)
    except Exception:
        return 'result_kind_changed'
    pos = {lab: i for i, lab in enumerate(in_labels)}
    q = [pos.get(lab) for lab in out_labels]
    if None in q or sorted(q) != list(range(len(in_labels))):
        return 'not_a_permutation_of_input'
    if any(out_rows[t] != in_rows[i] for t, i in enumerate(q)):
        return 'label_row_association_broken'
    if _permute_snapshot(in_snap, q, what) != got:
        return 'metadata_changed'
    seq = [keys[i] for i in q]
    if ascending and any(seq[t] > seq[t + 1] for t in range(len(seq) - 1)):
        return 'keys_not_ordered'
    if not ascending and any(seq[t] < seq[t + 1] for t in range(len(seq) - 1)):
        return 'keys_not_ordered'
    return 'ties_not_in_original_order' if ascending else 'descending_not_reverse_of_ascending'


def _call(fn):
    try:
        return fn(), None
    except HarnessError:
        raise
    except Exception as e:  # judged by the caller
        return None, e


def _judge(ctx, case, run, in_snap, what, vectors, sorted_labels, hier, key_is_index, fn_axis, klass, fingerprint,
           arg_non_tree=False):
    """Common part: reference arrangement, execution, comparison.  `hier`: the sorted axis
    carries hierarchical labels; `key_is_index`: the keys are that axis' labels;
    `fn_axis`: 1 when key vectors are columns / index depths, 0 when they are rows."""
    import static_frame as sf
    keyfn = case['keyfn']
    n = len(sorted_labels)
    ascending = case['ascending']
    mvecs = _model_vectors(vectors, keyfn)
    exp, keys = refsort(mvecs, n, ascending)
    has_ties = len(set(keys)) < n
    ctx.evaluation(fingerprint, n >= 2 and (has_ties or exp != list(range(n))))
    nkeys = len(mvecs)
    pack = keyfn['pack'] if keyfn else 'none'
    pack_t = 'array2d' if pack == 'array' and nkeys > 1 else pack
    if pack in ('self', 'hier'):
        branch = 'lexsort'
    elif pack in ('flat', 'index', 'series', 'array_n1'):
        branch = 'argsort'
    else:
        branch = 'lexsort' if nkeys > 1 else 'argsort'
    ctx.tally('ascending', ascending)
    ctx.tally('branch', branch)
    ctx.tally('n_bucket', _n_bucket(n))
    if has_ties:
        ctx.tally('n_with_ties', _n_bucket(n))
        if branch == 'argsort':
            ctx.tally('argsort_n_with_ties', _n_bucket(n))
    ctx.tally('nkeys', nkeys)
    ctx.tally('key_pack', pack_t)
    if keyfn:
        for _, g in keyfn['src']:
            ctx.tally('key_map', g)
    has_nan = any(k2[0] == 1 or (isinstance(k2[0], tuple) and any(k2[0])) for kt in keys for k2 in kt)
    ctx.tally('key_has_nan', has_nan)
    ctx.tally('key_cell_types', '+'.join(sorted({type(vec[0]).__name__ for vec in mvecs if len(vec)})) or 'empty')
    ctx.tally('hier_sorted_axis', hier)
    ctx.tally('sort_kind_arg', case['kind'])
    ctx.tally('expected_identity', exp == list(range(n)))
    klass.update(sorted_len=n, ascending=ascending, nkeys=nkeys, key_pack=pack, branch=branch, n_bucket=_n_bucket(n), has_ties=has_ties,
                 key_has_nan=has_nan, hier=hier, key_is_index=key_is_index, sort_kind_arg=case['kind'],
                 key_maps=sorted({g for _, g in keyfn['src']}) if keyfn else [])

    holder = {}
    kwargs = {'ascending': ascending}
    if case['kind'] is not None:
        kwargs['kind'] = case['kind']
    if keyfn is not None:
        kwargs['key'] = _make_keyfn(keyfn, fn_axis, holder)
    out, exc = _call(lambda: run(kwargs))
    if 'error' in holder:
        raise HarnessError('key function failed inside sfmon: ' + holder['error'][-1500:])
    if keyfn is not None:
        ctx.tally('key_fn_received', holder.get('received'))

    if arg_non_tree:
        # the Frame handed to the key function would carry hierarchical labels in a non-tree order
        if isinstance(exc, sf.ErrorInitIndex):
            ctx.tally('outcome', 'ErrorInitIndex(non_tree_key_function_argument)')
            return
        if exc is None:
            ctx.tally('outcome', 'non_tree_key_function_argument_accepted')
    non_tree = hier and not K.is_tree([sorted_labels[i] for i in exp])
    if non_tree:
        if exc is None:
            got = canon.snap(out)
            if got != _permute_snapshot(in_snap, exp, what):
                ctx.violation('non_tree_arrangement_returned_other_data', detail={'got': canon.brief(got, 900)}, klass=klass)
            else:
                ctx.tally('outcome', 'non_tree_arrangement_accepted')
        elif isinstance(exc, sf.ErrorInitIndex):
            ctx.tally('outcome', 'ErrorInitIndex(non_tree_arrangement)')
        else:
            ctx.violation('valid_sort_raised', detail={'exception': type(exc).__name__, 'message': str(exc)[:300]},
                          klass=dict(klass, exception=type(exc).__name__, non_tree=True))
        return
    if exc is not None:
        ctx.violation('valid_sort_raised', detail={'exception': type(exc).__name__, 'message': str(exc)[:300]},
                      klass=dict(klass, exception=type(exc).__name__))
        return
    ctx.tally('outcome', 'returned')
    got = canon.snap(out)
    want = _permute_snapshot(in_snap, exp, what)
    if got == want:
        # the labels travelled with their rows; they must also be *found* where they now are: a label -> position answer that
        # still describes the arrangement before the sort returns the wrong row for every later selection by label
        ax = out if what == 'index' else (out.index if what in ('rows', 'series') else out.columns)
        labs = canon.index_labels(ax)
        for pos in sorted({0, len(labs) - 1, len(labs) // 2}) if labs else ():
            lab = labs[pos]
            try:
                if lab != lab or (isinstance(lab, tuple) and any(x != x for x in lab)):
                    continue
                p = ax.loc_to_iloc(lab)
            except Exception as e:
                ctx.violation('sorted_label_lookup_raised', detail={'label': repr(lab), 'position': pos, 'exception': type(e).__name__}, klass=klass)
                return
            if not isinstance(p, (int, np.integer)) or int(p) != pos:
                ctx.violation('sorted_label_found_elsewhere', detail={'label': repr(lab), 'position': pos, 'loc_to_iloc': repr(p)}, klass=klass)
                return
        return
    diag = _diagnose(in_snap, got, what, keys, ascending, exp)
    exp_labels = [sorted_labels[i] for i in exp]
    got_labels = _axis_of(got, what)[0] if got.get('k') == in_snap.get('k') else None
    first = next((t for t in range(min(len(exp_labels), len(got_labels or ()))) if cs(exp_labels[t]) != got_labels[t]), None)
    ctx.violation(diag, detail={'expected_labels': canon.brief([cs(x) for x in exp_labels], 700), 'got_labels': canon.brief(got_labels, 700),
                                'first_difference_at': first,
                                'keys_at_expected': canon.brief([keys[i] for i in exp][:24], 600),
                                'got': canon.brief(got, 700)}, klass=klass)


def _depth_vectors(labels, hier):
    if hier:
        depth = len(labels[0]) if labels else 0
        return [[t[d] for t in labels] for d in range(depth)]
    return [list(labels)]


def _check_series(case, ctx):
    import static_frame as sf
    spec, op = case['spec'], case['op']
    cls = getattr(sf, case['cls'])
    idx = L.build_index(spec.kind, spec.labels, name=case['iname'])
    s = cls(V.to_array(spec.values, spec.dtype), index=idx, name=spec.name)
    in_snap = canon.snap(s)
    hier = spec.kind.startswith('hier')
    labels = spec.labels if spec.kind != 'auto' else list(range(len(spec.labels)))
    klass = {'op': op, 'axis': 1, 'cls': case['cls'], 'index_kind': spec.kind, 'dtype': spec.dtype}
    ctx.tally('op', op)
    ctx.tally('class', case['cls'])
    ctx.tally('index_kind', spec.kind)
    if op == 'series.sort_values':
        vectors = [list(spec.values)]
        ctx.tally('key_dtype', spec.dtype)
        run = lambda kw: s.sort_values(**kw)  # noqa: E731
        key_is_index = False
    else:
        vectors = _depth_vectors(labels, hier)
        run = lambda kw: s.sort_index(**kw)  # noqa: E731
        key_is_index = True
    ctx.sample({'op': op, 'series': spec.brief(), 'ascending': case['ascending'], 'keyfn': case['keyfn']})
    _judge(ctx, case, run, in_snap, 'series', vectors, labels, hier, key_is_index, 1, klass,
           (op, repr(spec), case['ascending'], case['kind'], repr(case['keyfn']), case['iname'], case['cls']))


def _check_index(case, ctx):
    kind, labels = case['ikind'], case['labels']
    hier = kind.startswith('hier')
    idx = L.build_index(kind, labels, name=case['iname'], go=case['go'])
    in_snap = canon.snap(idx)
    if case.get('grown'):
        # the snapshot above was read from a twin; the index that is sorted has only been built and grown, never read
        k = case['grown']
        idx = L.build_index(kind, labels[:k], name=case['iname'], go=True)
        for lab in labels[k:]:
            idx.append(lab)
        ctx.tally('workload', 'index_grown_unread')
    klass = {'op': 'index.sort', 'axis': 1, 'cls': type(idx).__name__, 'index_kind': kind}
    ctx.tally('op', 'index.sort/hier' if hier else 'index.sort/flat')
    ctx.tally('class', type(idx).__name__)
    ctx.tally('index_kind', kind)
    _judge(ctx, case, lambda kw: idx.sort(**kw), in_snap, 'index', _depth_vectors(labels, hier), labels, hier, True, 1, klass,
           ('index.sort', kind, repr(labels), case['ascending'], case['kind'], repr(case['keyfn']), case['iname'], case['go']))


def _inexact_in_float_row(spec, key_pos):
    """axis-0 input class: the key rows are consolidated to a float array (int and float
    columns together) and hold an int that float64 cannot represent exactly."""
    fams = {_fam(dt) for dt in spec.dtypes}
    if not ('f' in fams and 'i' in fams and fams <= {'i', 'f'}):
        return False
    for r in key_pos:
        for v, dt in zip(spec.cells[r], spec.dtypes):
            if _fam(dt) == 'i' and int(float(v)) != int(v):
                return True
            if _fam(dt) == 'i' and abs(int(v)) >= 2 ** 53:
                return True
    return False


def _check_frame(case, ctx):
    spec, op, lay = case['spec'], case['op'], case['layout']
    f = _build_frame(spec, lay, case['cls'], case['names'])
    in_snap = canon.snap(f)
    if case.get('grown'):
        # same content, but the columns beyond the first k are added one at a time and nothing reads the frame before the sort
        k = case['grown']
        pre = F.FrameSpec(spec.rows, spec.cols[:k], spec.row_kind, spec.col_kind, spec.dtypes[:k], [r[:k] for r in spec.cells], spec.name)
        f = _build_frame(pre, F.layout_all_1d(pre.dtypes), 'FrameGO', case['names'])
        for j in range(k, len(spec.cols)):
            f[spec.cols[j] if spec.col_kind != 'auto' else j] = spec.col_array(j)
        ctx.tally('workload', 'frame_columns_grown_unread')
    nr, nc = spec.shape
    rows = spec.rows if spec.row_kind != 'auto' else list(range(nr))
    cols = spec.cols if spec.col_kind != 'auto' else list(range(nc))
    klass = {'op': op, 'cls': case['cls'], 'row_kind': spec.row_kind, 'col_kind': spec.col_kind, 'layout_blocks': len(lay)}
    ctx.tally('class', case['cls'])
    ctx.tally('layout_blocks', len(lay))
    ctx.tally('layout_blocks_gt1', len(lay) > 1)
    ctx.tally('layout_has_2d_multi', any(b - a > 1 for a, b, _ in lay))
    ctx.tally('observed_layout_matches', F.observed_layout(f) == F.layout_name(lay) if nc else True)
    ctx.sample({'op': op, 'axis': case.get('axis'), 'frame': spec.brief(), 'layout': F.layout_name(lay)[:60], 'label': repr(case.get('label'))[:80],
                'ascending': case['ascending'], 'keyfn': case['keyfn']})
    fingerprint = (op, case.get('axis'), repr(spec), repr(lay), repr(case.get('label')), case['ascending'], case['kind'],
                   repr(case['keyfn']), case['names'], case['cls'])
    if op == 'frame.sort_index':
        hier = spec.row_kind.startswith('hier')
        klass['axis'] = 1
        ctx.tally('op', op)
        ctx.tally('index_kind', spec.row_kind)
        _judge(ctx, case, lambda kw: f.sort_index(**kw), in_snap, 'rows', _depth_vectors(rows, hier), rows, hier, True, 1, klass, fingerprint)
        return
    if op == 'frame.sort_columns':
        hier = spec.col_kind.startswith('hier')
        klass['axis'] = 0
        ctx.tally('op', op)
        ctx.tally('index_kind', spec.col_kind)
        _judge(ctx, case, lambda kw: f.sort_columns(**kw), in_snap, 'cols', _depth_vectors(cols, hier), cols, hier, True, 1, klass, fingerprint)
        return
    axis = case['axis']
    klass['axis'] = axis
    klass['label_form'] = case['label'][0]
    ctx.tally('op', f'{op}/axis{axis}')
    ctx.tally('label_form', case['label'][0])
    label = case['label'][1]
    sel_kind = spec.col_kind if axis == 1 else spec.row_kind
    arg_non_tree = (case['keyfn'] is not None and case['label'][0] == 'list' and sel_kind.startswith('hier')
                    and not K.is_tree(list(label)))
    klass['key_fn_argument_non_tree'] = arg_non_tree
    if axis == 1:
        vectors = [spec.col_values(p) for p in case['key_pos']]
        for p in case['key_pos']:
            ctx.tally('key_dtype', spec.dtypes[p])
        klass['key_dtypes'] = [spec.dtypes[p] for p in case['key_pos']]
        hier = spec.row_kind.startswith('hier')
        ctx.tally('index_kind', spec.row_kind)
        _judge(ctx, case, lambda kw: f.sort_values(label, axis=1, **kw), in_snap, 'rows', vectors, rows, hier, False, 1, klass, fingerprint,
               arg_non_tree)
    else:
        vectors = [list(spec.cells[p]) for p in case['key_pos']]
        ctx.tally('axis0_family', case['family'])
        klass['family'] = case['family']
        klass['inexact_int_in_float_row'] = _inexact_in_float_row(spec, case['key_pos'])
        ctx.tally('axis0_inexact_int_in_float_row', klass['inexact_int_in_float_row'])
        ctx.tally('axis0_distinct_dtypes', len(set(spec.dtypes)))
        hier = spec.col_kind.startswith('hier')
        ctx.tally('index_kind', spec.col_kind)
        _judge(ctx, case, lambda kw: f.sort_values(label, axis=0, **kw), in_snap, 'cols', vectors, cols, hier, False, 0, klass, fingerprint,
               arg_non_tree)


def check(case, ctx):
    op = case['op']
    if op.startswith('series.'):
        return _check_series(case, ctx)
    if op == 'index.sort':
        return _check_index(case, ctx)
    return _check_frame(case, ctx)
