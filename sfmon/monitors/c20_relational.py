"""C20 — reshaping and relational operations follow their relational definitions.

Operations judged: set_index / set_index_hierarchy / unset_index, relabel_shift_in /
relabel_shift_out, rehierarch, pivot_stack / pivot_unstack (directly and as a round trip),
pivot, join_inner / join_left / join_right / join_outer.  Every judge is a function of the
*input snapshot* (or the FrameSpec), the arguments and the output snapshot, written from the
statement; the reference model lives in sfmon.model.c20_ref (`refrelational`)."""
import numpy as np

from sfmon import canon
from sfmon.canon import cs
from sfmon.gen import frames as F
from sfmon.gen import labels as L
from sfmon.gen import values as V
from sfmon.model import c20_ref as R

PROPERTY = 'C20'
RULE = ('cases = (operation kind, FrameSpec(s), block layout(s), arguments) from seeded generators: label moves '
        '(set_index / set_index_hierarchy / unset_index chains, relabel_shift_in -> relabel_shift_out, rehierarch), '
        'pivot_stack / pivot_unstack with int and list depth levels and fills, pivot over 1-3 index fields x 0-2 column '
        'fields x 1-3 data fields x func / func map x fill, joins over 4 join types x key source (columns / label depths / '
        'both) x cardinality x composite_index x templates x fill; non-trivial = the frame(s) have >= 2 rows and the '
        'operation moves / groups / pairs something (a pivot group of >= 2 rows or an empty cell, a join with a matched '
        'pair, a label move on >= 2 columns); distinct = hash of the whole case')
EXPLANATION = 'sampled; no sub-space is enumerated completely'
EXHAUSTIVE = {'quick': False, 'thorough': False}
ASSUMPTIONS = [
    'reference model: dict-of-rows group/aggregate (pivot), nested-loop join compared as multisets and through the '
    'composite labels, {(row label, column label): value} mappings for label moves and stack/unstack',
    'cells that passed through a fill / re-assembly are compared at value strength modulo NumPy numeric promotion '
    '(bool/int shown as the equal float, datetime64 as the equal date object); exactness of promotion is C07',
    'aggregation functions are order-independent; float aggregates are compared with rel_tol 1e-9',
    'join keys, pivot keys and stacked data avoid ints beyond 2**53 and NaN group keys (C07 / C13 subjects); NaN join keys '
    'are generated and must match nothing',
    'duplicate or non-tree labels produced by a move may be refused (ErrorInitIndex): refusing is accepted, a returned '
    'frame is still judged; labels equal only across types (1/True/1.0) or repeated NaN are not judged for uniqueness (C02)',
]
TIERS = {'quick': {'shards': 8, 'budget_s': 150, 'min_nontrivial': 4000},
         'thorough': {'shards': 16, 'budget_s': 1500, 'min_nontrivial': 60000}}
ANCHORS = {
    'static_frame.core.frame': ['Frame.pivot', 'Frame.pivot_stack', 'Frame.pivot_unstack', 'Frame._join', 'Frame.set_index',
                                'Frame.set_index_hierarchy', 'Frame.unset_index', 'Frame.relabel_shift_in',
                                'Frame.relabel_shift_out', 'Frame.rehierarch'],
    'static_frame.core.pivot': ['pivot_items', 'pivot_records_items', 'pivot_records_dtypes', 'extrapolate_column_fields',
                                'pivot_index_map', 'pivot_derive_constructors'],
    'static_frame.core.container_util': ['arrays_from_index_frame', 'rehierarch_from_index_hierarchy',
                                         'rehierarch_from_type_blocks'],
    'static_frame.core.index_hierarchy': ['IndexHierarchy._from_type_blocks'],
    'static_frame.core.type_blocks': ['TypeBlocks._drop_blocks', 'TypeBlocks.group'],
}
REQUIRED_ANCHORS = ['frame.Frame.pivot', 'frame.Frame.pivot_stack', 'frame.Frame.pivot_unstack', 'frame.Frame._join',
                    'frame.Frame.set_index', 'frame.Frame.set_index_hierarchy', 'frame.Frame.unset_index',
                    'frame.Frame.relabel_shift_in', 'frame.Frame.relabel_shift_out', 'frame.Frame.rehierarch',
                    'pivot.pivot_items', 'pivot.pivot_records_items', 'pivot.extrapolate_column_fields',
                    'pivot.pivot_index_map', 'container_util.arrays_from_index_frame']
REQUIRED_TALLIES = [('join_path', 'composite'), ('join_path', 'one_to_one_noncomposite'), ('join_path', 'many_refused'),
                    ('join_cardinality', 'one_to_one'), ('join_cardinality', 'one_to_many'),
                    ('join_cardinality', 'many_to_one'), ('join_cardinality', 'many_to_many'),
                    ('join_type', 'inner'), ('join_type', 'left'), ('join_type', 'right'), ('join_type', 'outer'),
                    ('pivot_shape', 'columns_fields=0'), ('pivot_shape', 'columns_fields=1'), ('pivot_shape', 'columns_fields=2'),
                    ('pivot_func', 'map'), ('pivot_func', 'default'), ('pivot_cells', 'aggregated'), ('pivot_cells', 'filled'),
                    ('op', 'set_index'), ('op', 'set_index_hierarchy'), ('op', 'unset_index'), ('op', 'relabel_shift_in'),
                    ('op', 'relabel_shift_out'), ('op', 'rehierarch'), ('op', 'pivot_stack'), ('op', 'pivot_unstack'),
                    ('op', 'stack_unstack_roundtrip'), ('op', 'shift_roundtrip'), ('op', 'set_unset_roundtrip')]

NAN = float('nan')

# value pools for cells that pass through fills / re-assembly (no ints beyond 2**53)
MILD = {
    'bool': [True, False],
    'int64': [0, 1, 2, 3, 4, 5, 7, -1, -3, 10, 12, 100, -40, 2**40],
    'int8': [0, 1, -1, 5, -7, 127, -128],
    'uint8': [0, 1, 3, 128, 255],
    'float64': [0.0, 1.0, -1.0, 1.5, -2.25, 3.0, 0.1, 100.0, 1e10, float('inf'), float('-inf'), NAN],
    'float32': [0.0, 1.0, -1.0, 1.5, -2.25, 0.5, 3.0, 1024.0, NAN],
    '<U5': ['', 'a', 'b', 'ab', 'abc', 'a,b', '12', 'nan', 'zz', 'A', 'hello'],
    '<U1': ['', 'a', 'b', 'A', ' ', 'q'],
    'M8[D]': ['2020-01-01', '1999-12-31', '2001-06-15', '2020-01-02', 'NaT', '1970-01-01'],
    'M8[s]': ['2020-01-01T00:00:00', '1999-12-31T23:59:59', 'NaT', '2001-06-15T12:30:00'],
    'm8[D]': [0, 1, -1, 365, 'NaT'],
    'complex128': [0j, 1 + 2j, -1.5j, 3 + 0j],
    'object': [None, NAN, 1, 'a', True, 2.5, 'b', 0, False, '', b'x'],
}
MILD_DTYPES = ['bool', 'int64', 'float64', '<U5', 'object', 'M8[D]', 'int8', 'float32', '<U1', 'm8[D]', 'complex128', 'int64', 'float64']
# no 'S5': bytes columns moved together with str columns are decoded by NumPy's S+U promotion (C07's subject)
EXACT_DTYPES = [d for d in V.COMMON if d != 'S5'] + ['int64', 'float64', '<U5', 'M8[s]', 'uint64', 'int16']
FILLS = [NAN, NAN, None, 0, -1, 'x', 1.5]

# small typed key domains (joins / pivots)
KEY_DOMAINS = {
    'int64': [0, 1, 2, 3],
    '<U1': ['a', 'b', 'c', 'd'],
    'M8[D]': ['2020-01-01', '2020-01-02', '2020-02-01'],
    'bool': [True, False],
    'float64': [0.5, 1.5, 2.5],
    '<U5': ['a', 'ab', 'abc', 'b'],
    'int8': [1, 2, 3],
}
KEY_DTYPES = ['int64', '<U1', 'M8[D]', 'bool', 'float64', '<U5', 'int64', '<U1', 'int8']


TECHNIQUE = 'runtime monitoring: relational reference models (nested-loop join, dict-based pivot / stack / unstack, index<->column moves; sfmon/model/c20_ref.py) compared with the library result cell by cell'


def _f_range(a):
    return a.max() - a.min()


def _f_count_pos(a):
    return int((a > 0).sum())


def _f_joinsorted(a):
    return ''.join(sorted(a.tolist()))


def _f_len2(a):
    return len(a) * 2 + 1


FUNCS = {'nansum': np.nansum, 'sum': np.sum, 'min': np.min, 'max': np.max, 'len': len, 'mean': np.mean,
         'range': _f_range, 'count_pos': _f_count_pos, 'joinsorted': _f_joinsorted, 'len2': _f_len2}
FUNCS_FOR = {
    'int64': ['nansum', 'sum', 'min', 'max', 'len', 'mean', 'range', 'count_pos', 'len2'],
    'float64': ['nansum', 'sum', 'min', 'max', 'len', 'mean', 'range', 'count_pos', 'len2'],
    'bool': ['nansum', 'sum', 'min', 'max', 'len', 'len2'],
    '<U5': ['len', 'joinsorted', 'len2'],
    'M8[D]': ['min', 'max', 'len', 'len2'],
}
DATA_POOLS = {
    'int64': [0, 1, 2, 3, 5, 7, -1, -4, 10, 100],
    'float64': [0.0, 1.0, -1.0, 1.5, -2.25, 3.0, 0.5, 100.0, NAN, NAN],
    'bool': [True, False],
    '<U5': ['', 'a', 'b', 'ab', 'abc', 'zz'],
    'M8[D]': ['2020-01-01', '1999-12-31', '2001-06-15', 'NaT'],
}
_STR_COLS = ['a', 'b', 'c', 'd', 'e', 'f', 'g', 'h', 'k', 'v', 'w', 'x', 'y', 'z', 'aa', 'ab', 'k1', 'k2', 'v1', 'v2']


# --------------------------------------------------------------------------------------
# spec generation

def _column(dt, n, rng, pools, distinct=False):
    pool = pools[dt]
    if distinct and len(pool) >= n:
        vals = rng.sample(pool, n)
    else:
        vals = [rng.choice(pool) for _ in range(n)]
    return [V.normalize(dt, v) for v in vals]


def _spec(rng, nr, nc, row_kinds, col_kinds, dtypes, pools, distinct_p=0.0):
    rk, ck = rng.choice(row_kinds), rng.choice(col_kinds)
    rows, cols = L.labels_for(rk, nr, rng), L.labels_for(ck, nc, rng)
    nr, nc = len(rows), len(cols)
    dts = []
    while len(dts) < nc:
        dts.extend([rng.choice(dtypes)] * rng.choice([1, 1, 2, 3]))
    dts = dts[:nc]
    columns = [_column(dt, nr, rng, pools, rng.random() < distinct_p) for dt in dts]
    cells = [[columns[j][i] for j in range(nc)] for i in range(nr)]
    return F.FrameSpec(rows, cols, rk, ck, dts, cells, rng.choice((None, 'n', 7)))


def _layout(rng, dtypes):
    lays = F.layouts(dtypes, limit=40)
    return rng.choice(lays)


def _subset(rng, n, kmin, kmax):
    k = rng.randint(kmin, min(kmax, n))
    return rng.sample(range(n), k)


def _gen_setidx(rng):
    spec = _spec(rng, rng.randint(0, 6), rng.randint(1, 5), ['auto', 'int', 'str', 'IndexDate', 'hier2'],
                 ['str', 'str', 'int', 'negint', 'hier2'], EXACT_DTYPES, V.DTYPE_POOLS, distinct_p=0.7)
    nc = spec.shape[1]
    if nc == 0:
        return None
    op = rng.choice(['set_index', 'set_index', 'set_index_list', 'set_index_hierarchy', 'set_index_hierarchy'])
    if op == 'set_index':
        cols = [rng.randrange(nc)]
    elif op == 'set_index_list':
        cols = _subset(rng, nc, 1, 3)
    else:
        if nc < 2:
            op, cols = 'set_index', [0]
        else:
            cols = _subset(rng, nc, 2, 3)
    if rng.random() < 0.5 or spec.col_kind.startswith('hier'):
        cols = sorted(cols)   # a list selection of hierarchical columns must itself be in tree order
    names = None
    if rng.random() < 0.3:
        names = ['N%d' % i for i in range(len(cols) if op == 'set_index_hierarchy' else 1)]
    return {'kind': 'setidx', 'spec': spec, 'layout': _layout(rng, spec.dtypes), 'op': op, 'cols': cols,
            'drop': rng.random() < 0.6, 'reorder': rng.random() < 0.4, 'then_unset': rng.random() < 0.7,
            'names': names, 'consolidate': rng.random() < 0.3}


def _gen_unset(rng):
    spec = _spec(rng, rng.randint(0, 6), rng.randint(0, 5), ['auto', 'int', 'str', 'IndexDate', 'hier2', 'hier3', 'negint', 'float'],
                 ['str', 'str', 'int', 'negint', 'hier2'], EXACT_DTYPES, V.DTYPE_POOLS)
    depth = 2 if spec.row_kind == 'hier2' else 3 if spec.row_kind == 'hier3' else 1
    names = ['N%d' % i for i in range(depth)] if rng.random() < 0.4 else None
    return {'kind': 'unset', 'spec': spec, 'layout': _layout(rng, spec.dtypes), 'names': names,
            'consolidate': rng.random() < 0.4}


def _gen_shift(rng):
    axis = 0 if rng.random() < 0.65 else 1
    spec = _spec(rng, rng.randint(1, 6), rng.randint(1, 5), ['auto', 'int', 'str', 'IndexDate', 'hier2', 'hier3', 'negint'],
                 ['str', 'str', 'int', 'hier2', 'auto'], EXACT_DTYPES if axis == 0 else MILD_DTYPES,
                 V.DTYPE_POOLS if axis == 0 else MILD, distinct_p=0.3)
    nr, nc = spec.shape
    n_opp = nc if axis == 0 else nr
    if n_opp == 0:
        return None
    pos = _subset(rng, n_opp, 1, 2)
    if rng.random() < 0.6:
        pos = sorted(pos)
    scalar = len(pos) == 1 and rng.random() < 0.6
    # which depths to shift out afterwards: the added ones (round trip) or an arbitrary selection
    mode = rng.choice(['added', 'added', 'random', 'none'])
    return {'kind': 'shift', 'spec': spec, 'layout': _layout(rng, spec.dtypes), 'axis': axis, 'pos': pos,
            'scalar': scalar, 'out_mode': mode, 'out_pick': rng.random(), 'out_scalar': rng.random() < 0.5}


def _gen_shift_out(rng):
    axis = 0 if rng.random() < 0.7 else 1
    rks = ['hier2', 'hier3', 'int', 'str', 'IndexDate'] if axis == 0 else ['auto', 'int', 'str']
    cks = ['str', 'int', 'hier2'] if axis == 0 else ['hier2', 'hier3', 'str', 'int']
    spec = _spec(rng, rng.randint(1, 6), rng.randint(1, 5), rks, cks, EXACT_DTYPES if axis == 0 else MILD_DTYPES,
                 V.DTYPE_POOLS if axis == 0 else MILD)
    kind = spec.row_kind if axis == 0 else spec.col_kind
    depth = 2 if kind == 'hier2' else 3 if kind == 'hier3' else 1
    ds = _subset(rng, depth, 1, depth)
    if rng.random() < 0.7:
        ds = sorted(ds)
    dl = ds[0] if len(ds) == 1 and rng.random() < 0.6 else ds
    return {'kind': 'shift_out', 'spec': spec, 'layout': _layout(rng, spec.dtypes), 'axis': axis, 'depth_level': dl}


def _gen_rehier(rng):
    axis = 0 if rng.random() < 0.6 else 1
    hk = rng.choice(['hier2', 'hier3', 'hier3'])
    spec = _spec(rng, rng.randint(1, 7), rng.randint(1, 6), [hk] if axis == 0 else ['auto', 'str', 'int'],
                 ['str', 'int'] if axis == 0 else [hk], EXACT_DTYPES, V.DTYPE_POOLS)
    depth = 2 if hk == 'hier2' else 3
    perm = list(range(depth))
    rng.shuffle(perm)
    return {'kind': 'rehier', 'spec': spec, 'layout': _layout(rng, spec.dtypes), 'axis': axis, 'perm': perm}


def _depth_of(kind):
    return 2 if kind == 'hier2' else 3 if kind == 'hier3' else 1


def _gen_stack_big_ints(rng):
    """pivot_stack over product columns (group x target) where every group has one dtype: an int64 group holding ints beyond
    2**53 beside a float64 group. No output column mixes dtypes and no fill is needed, so every cell must come back exactly — unless
    a cell is routed through a row array of the frame's common (float) dtype on the way."""
    groups = rng.sample(['g1', 'g2', 'g3'], rng.randint(2, 3))
    targets = rng.sample(['t1', 't2', 't3'], rng.randint(1, 3))
    gdt = {g: dt for g, dt in zip(groups, ['int64', 'float64'] + [rng.choice(['int64', 'uint8', 'float64'])])}
    big = [2**53 + 1, 2**62 + 3, -(2**53) - 5, 1627776000123456789, 7]
    nr = rng.randint(1, 3)
    cols = [(g, t) for g in groups for t in targets]
    dts = [gdt[g] for g, _ in cols]
    columns = []
    for dt in dts:
        if dt == 'int64':
            columns.append([rng.choice(big) for _ in range(nr)])
        elif dt == 'uint8':
            columns.append([rng.choice([0, 3, 255]) for _ in range(nr)])
        else:
            columns.append([rng.choice([0.5, -2.25, 3.0, 1e10]) for _ in range(nr)])
    cells = [[columns[j][i] for j in range(len(cols))] for i in range(nr)]
    rk = rng.choice(['auto', 'str'])
    rows = list(range(nr)) if rk == 'auto' else ['a', 'b', 'c'][:nr]
    spec = F.FrameSpec(rows, cols, rk, 'hier2', dts, cells, None)
    return {'kind': 'stack', 'spec': spec, 'layout': _layout(rng, spec.dtypes), 'depth_level': rng.choice([-1, 1, [1]]),
            'fill': 0, 'fill2': 0, 'default_fill': False, 'big_ints': True}


def _gen_stack(rng):
    if rng.random() < 0.12:
        return _gen_stack_big_ints(rng)
    direct_unstack = rng.random() < 0.3
    if direct_unstack:
        rks, cks = ['hier2', 'hier3', 'hier2', 'str', 'int'], ['str', 'int', 'hier2', 'str']
    else:
        rks, cks = ['auto', 'int', 'str', 'hier2', 'IndexDate'], ['str', 'int', 'hier2', 'hier3', 'hier2', 'hier3']
    spec = _spec(rng, rng.randint(1, 5), rng.randint(1, 6), rks, cks, MILD_DTYPES, MILD)
    depth = _depth_of(spec.row_kind if direct_unstack else spec.col_kind)
    r = rng.random()
    if r < 0.3:
        dl = -1
    elif r < 0.6:
        dl = rng.randrange(-depth, depth)
    else:
        dl = sorted(_subset(rng, depth, 1, depth))
    return {'kind': 'unstack' if direct_unstack else 'stack', 'spec': spec, 'layout': _layout(rng, spec.dtypes),
            'depth_level': dl, 'fill': rng.choice(FILLS), 'fill2': rng.choice(FILLS), 'default_fill': rng.random() < 0.3}


def _gen_pivot(rng):
    nr = rng.randint(1, 10)
    n_i = rng.choice([1, 1, 1, 2, 2, 3])
    n_c = rng.choice([0, 1, 1, 1, 2])
    n_d = rng.choice([1, 1, 2, 3])
    same_idx_dtype = rng.random() < 0.6
    key_dts = []
    for k in range(n_i + n_c):
        if k < n_i and k > 0 and same_idx_dtype:
            key_dts.append(key_dts[0])
        else:
            key_dts.append(rng.choice(KEY_DTYPES))
    data_dts = [rng.choice(['int64', 'float64', 'int64', 'float64', 'bool', '<U5', 'M8[D]']) for _ in range(n_d)]
    dts = key_dts + data_dts
    nc = len(dts)
    order = list(range(nc))
    rng.shuffle(order)                       # order[j] = which logical field sits at column position j
    where = {fld: j for j, fld in enumerate(order)}
    # a narrow domain so that groups of several rows and empty cells both occur
    columns = []
    for fld in order:
        dt = dts[fld]
        if fld < n_i + n_c:
            dom = KEY_DOMAINS[dt]
            dom = dom[:rng.randint(1, len(dom))]
            columns.append([V.normalize(dt, rng.choice(dom)) for _ in range(nr)])
        else:
            columns.append(_column(dt, nr, rng, DATA_POOLS))
    ck = 'int' if rng.random() < 0.12 else 'str'
    cols = rng.sample(_STR_COLS, nc) if ck == 'str' else rng.sample(range(0, 40), nc)
    rk = rng.choice(['auto', 'str'])
    rows = L.labels_for(rk, nr, rng)
    cells = [[columns[j][i] for j in range(nc)] for i in range(nr)]
    spec = F.FrameSpec(rows, cols, rk, ck, [dts[f] for f in order], cells, None)
    ifields = [where[k] for k in range(n_i)]
    cfields = [where[n_i + k] for k in range(n_c)]
    dfields = [where[n_i + n_c + k] for k in range(n_d)]
    common = None
    for dt in data_dts:
        fs = set(FUNCS_FOR[dt])
        common = fs if common is None else common & fs
    common = sorted(common)
    r = rng.random()
    if r < 0.2 and 'nansum' in common:
        func = None
    elif r < 0.7:
        func = rng.choice(common)
    else:
        names = rng.sample(common, min(len(common), rng.choice([1, 2, 2, 3])))
        func = list(zip(rng.sample(['f', 'g', 'h', 'agg', 'z'], len(names)), names))
    omit_data = rng.random() < 0.2
    return {'kind': 'pivot', 'spec': spec, 'layout': _layout(rng, spec.dtypes), 'index_fields': ifields,
            'columns_fields': cfields, 'data_fields': None if omit_data else dfields, 'all_data': dfields,
            'func': func, 'fill': rng.choice(FILLS), 'default_fill': rng.random() < 0.4, 'scalar_args': rng.random() < 0.5}


def _join_side(rng, nr, key_dts, from_depth, n_payload, label_pool_kind, distinct):
    """One frame of a join: key fields first from the index depths (from_depth of them) then
    from columns; returns (spec, depth_level, key column positions)."""
    n_key = len(key_dts)
    depth_keys = key_dts[:from_depth]
    col_keys = key_dts[from_depth:]
    keyvals = []
    for kpos, dt in enumerate(key_dts):
        dom = KEY_DOMAINS[dt] + ([NAN] if dt == 'float64' else [])
        if n_key >= 3 and kpos < n_key - 1 and not distinct:
            # wide composite keys: few values in the leading fields, so that rows agree on a prefix of the key and differ later
            dom = dom[:2]
        if distinct and len(dom) >= nr:
            keyvals.append([V.normalize(dt, v) if v == v else NAN for v in rng.sample(dom, nr)])
        else:
            keyvals.append([V.normalize(dt, v) if v == v else NAN for v in (rng.choice(dom) for _ in range(nr))])
    # index
    if from_depth == 0:
        rk = label_pool_kind
        if rk == 'auto':
            rows = list(range(nr))
        elif rk == 'int':
            rows = rng.sample(range(0, 8), nr)
        else:
            rows = rng.sample(['a', 'b', 'c', 'd', 'e', 'f', 'g', 'h'], nr)
        depth_level = None
    elif from_depth == 1:
        # the key *is* the label: labels must be unique (Boolean labels are left to C04: a Boolean label array is a mask)
        dt = depth_keys[0]
        if dt == 'bool':
            return None
        dom = [v for v in KEY_DOMAINS[dt]] + {'int64': [4, 5, 6], '<U1': ['e', 'f', 'g'], '<U5': ['zz', 'q', 'r']}.get(dt, [])
        if len(dom) < nr:
            return None
        rows = [V.normalize(dt, v) for v in rng.sample(dom, nr)]
        rk = 'IndexDate' if dt == 'M8[D]' else 'int' if dt.startswith('int') else 'float' if dt == 'float64' else 'bool' if dt == 'bool' else 'str'
        keyvals[0] = rows
        depth_level = rng.choice([0, 0, [0]])
    else:
        if 'bool' in depth_keys[:2]:
            return None   # Boolean labels: a Boolean label array is read as a mask (C04's subject)
        a = [V.normalize(depth_keys[0], v) for v in KEY_DOMAINS[depth_keys[0]]]
        b = [V.normalize(depth_keys[1], v) for v in KEY_DOMAINS[depth_keys[1]]]
        rng.shuffle(a)
        rng.shuffle(b)
        tuples = []
        for x in a:
            for y in rng.sample(b, rng.randint(1, len(b))):
                tuples.append((x, y))
        if len(tuples) < nr:
            return None
        start = rng.randint(0, len(tuples) - nr)
        rows = tuples[start:start + nr]
        rk = 'hier2'
        keyvals[0], keyvals[1] = [t[0] for t in rows], [t[1] for t in rows]
        depth_level = [0, 1]
        if depth_keys[0] == depth_keys[1] and rng.random() < 0.4:
            # the depths named in another order than they are stored: key field 0 is depth 1, key field 1 is depth 0
            keyvals[0], keyvals[1] = keyvals[1], keyvals[0]
            depth_level = rng.choice([[1, 0], [-1, 0]])
    pay_dts = [rng.choice(MILD_DTYPES) for _ in range(n_payload)]
    fields = [('key', k) for k in range(from_depth, n_key)] + [('pay', k) for k in range(n_payload)]
    rng.shuffle(fields)
    dts, columns, keypos = [], [], {}
    for j, (what, k) in enumerate(fields):
        if what == 'key':
            dts.append(key_dts[k])
            columns.append(keyvals[k])
            keypos[k] = j
        else:
            dts.append(pay_dts[k])
            columns.append(_column(pay_dts[k], nr, rng, MILD))
    nc = len(fields)
    ck = rng.choice(['str', 'str', 'str', 'int'])
    cols = rng.sample(_STR_COLS, nc) if ck == 'str' else rng.sample(range(0, 30), nc)
    cells = [[columns[j][i] for j in range(nc)] for i in range(nr)]
    spec = F.FrameSpec(rows, cols, rk, ck, dts, cells, None)
    spec_keys = [[keyvals[k][i] for k in range(n_key)] for i in range(nr)]
    return spec, depth_level, [keypos[k] for k in range(from_depth, n_key)], spec_keys


_TEMPLATES = [('{}', '{}'), ('L.{}', '{}'), ('{}', 'R.{}'), ('l_{}', 'r_{}'), ('{}_x', '{}_y'), ('{}', '{}')]


def _gen_join(rng):
    w = rng.choice([1, 1, 1, 2, 2, 3, 3, 4])
    key_dts = [rng.choice(KEY_DTYPES[:7]) for _ in range(w)]
    r = rng.random()
    if r < 0.55:
        ld = rd = 0
    elif r < 0.75:
        ld = rd = min(w, rng.choice([1, 1, 2]))
    else:
        ld, rd = rng.choice([(0, 1), (1, 0), (0, min(w, 2)), (1, 1)])
        ld, rd = min(ld, w), min(rd, w)
    # depth keys come first on each side: sides must agree on the dtype order of their key vector, which they do
    distinct = rng.random() < 0.45
    pool_kind = rng.choice(['auto', 'int', 'str'])
    left = _join_side(rng, rng.randint(0, 5), key_dts, ld, rng.randint(0, 2), pool_kind, distinct)
    right = _join_side(rng, rng.randint(0, 5), key_dts, rd, rng.randint(0, 2), pool_kind, distinct or rng.random() < 0.3)
    if left is None or right is None:
        return None
    ls, ldl, lcols, lkeys = left
    rs, rdl, rcols, rkeys = right
    if (ldl is None and not lcols) or (rdl is None and not rcols):
        return None
    lt, rt = rng.choice(_TEMPLATES)
    names = [lt.format(c) for c in ls.cols] + [rt.format(c) for c in rs.cols]
    if len(set(names)) != len(names):
        lt, rt = 'L.{}', 'R.{}'
    return {'kind': 'join', 'left': ls, 'right': rs, 'llayout': _layout(rng, ls.dtypes), 'rlayout': _layout(rng, rs.dtypes),
            'how': rng.choice(['inner', 'left', 'right', 'outer']), 'ldepth': ldl, 'rdepth': rdl, 'lcols': lcols, 'rcols': rcols,
            'lt': lt, 'rt': rt, 'fill': rng.choice(FILLS), 'default_fill': rng.random() < 0.3,
            'composite': rng.random() < 0.55, 'cifv': rng.choice([None, None, None, -1, 'nil']),
            'scalar_cols': rng.random() < 0.5}


_GENS = [(_gen_join, 0.30), (_gen_pivot, 0.28), (_gen_stack, 0.14), (_gen_setidx, 0.10), (_gen_shift, 0.08),
         (_gen_shift_out, 0.04), (_gen_unset, 0.03), (_gen_rehier, 0.03)]


def generate(ctx):
    rng = ctx.rng
    gens, weights = [g for g, _ in _GENS], [w for _, w in _GENS]
    for _ in range(ctx.n(36000, 560000)):
        g = rng.choices(gens, weights)[0]
        case = g(rng)
        if case is not None:
            yield case


# --------------------------------------------------------------------------------------
# helpers for the judges

_FOLD_AFTER = 2


def _violate(ctx, what, detail=None, klass=None):
    """ctx.violation, except that once a (what, klass) class has produced _FOLD_AFTER witnesses
    in this shard further observations of exactly that class are only counted (the classifier
    reads nothing but `what` and `klass`, so they could not be classified differently)."""
    seen = ctx.__dict__.setdefault('_c20_classes', {})
    sig = (what, repr(sorted((klass or {}).items(), key=lambda kv: kv[0])))
    seen[sig] = seen.get(sig, 0) + 1
    if seen[sig] > _FOLD_AFTER and not ctx.current_is_probe:
        ctx.violation_total += 1
        ctx.tally('violations_by_what', what)
        ctx.tally('violations_folded_same_class', what)
        return
    ctx.violation(what, detail=detail, klass=klass)


def _call(fn):
    try:
        return fn(), None
    except Exception as e:  # judged by the caller
        return None, e


def _rows_of(si):
    """labels of a snapshot index as tuples of canonical scalars (length = depth)."""
    if si['depth'] == 1:
        return [(l,) for l in si['labels']]
    return [t[1] for t in si['labels']]


def _label_of(t):
    """canonical label as the snapshot of an index holding tuple `t` shows it."""
    return t[0] if len(t) == 1 else ('tuple', tuple(t))


def _names(idx):
    """The per-depth names of an index as the label-to-column moves use them: the `name`
    when it is one hashable per depth, else the default `names`."""
    if idx.depth == 1:
        return tuple(idx.names) if idx.name is None else (idx.name,)
    if isinstance(idx.name, tuple) and len(idx.name) == idx.depth:
        return tuple(idx.name)
    return tuple(idx.names)


def _exc_klass(klass, exc):
    return dict(klass, exception=type(exc).__name__)


def _detail_exc(exc):
    return {'exception': type(exc).__name__, 'message': str(exc)[:300]}


def _is_sf_index_error(exc):
    import static_frame as sf
    return isinstance(exc, sf.ErrorInitIndex)


def _uniq_and_tree(py_tuples):
    """Status of a list of label tuples (Python values) as the labels of a new index."""
    st = R.unique_status([t if len(t) > 1 else t[0] for t in py_tuples])
    tree = R.is_tree(py_tuples) if py_tuples and len(py_tuples[0]) > 1 else True
    return st, tree


def _auto_labels(n):
    return tuple(('int', i) for i in range(n))


# --------------------------------------------------------------------------------------
# judges of the label moves: (input snapshot, arguments, output snapshot) -> [(what, detail)]

def _kept_columns_problem(s_in, keep, s_out, what):
    exp_labels = tuple(s_in['columns']['labels'][c] for c in keep)
    exp_cols = tuple(s_in['cols'][c] for c in keep)
    exp_dtypes = tuple(s_in['dtypes'][c] for c in keep)
    if s_out['columns']['labels'] != exp_labels or s_out['cols'] != exp_cols or s_out['dtypes'] != exp_dtypes:
        return [(what, {'expected_columns': exp_labels, 'expected_cols': exp_cols, 'expected_dtypes': exp_dtypes,
                        'got': canon.brief(s_out, 900)})]
    return []


def _judge_set_index(s_in, cols, multi, drop, s_out):
    n, nc = s_in['shape']
    out = []
    if s_out.get('k') != 'Frame':
        return [('set_index_not_a_frame', {'got': canon.brief(s_out)})]
    got = list(s_out['index']['labels'])
    if multi:
        exp = [('tuple', tuple(s_in['cols'][c][i] for c in cols)) for i in range(n)]
        ok = s_out['index']['depth'] == 1 and R.seq_leq(exp, got)
    else:
        exp = [s_in['cols'][cols[0]][i] for i in range(n)]
        ok = s_out['index']['depth'] == 1 and exp == got
    if not ok:
        out.append(('set_index_labels_moved_or_changed', {'expected': exp, 'got': got}))
    keep = [c for c in range(nc) if not (drop and c in cols)]
    out.extend(_kept_columns_problem(s_in, keep, s_out, 'set_index_cells_changed'))
    return out


def _judge_set_index_hierarchy(s_in, cols, drop, reorder, s_out):
    n, nc = s_in['shape']
    if s_out.get('k') != 'Frame':
        return [('set_index_hierarchy_not_a_frame', {'got': canon.brief(s_out)})]
    exp = [tuple(s_in['cols'][c][i] for c in cols) for i in range(n)]
    got = _rows_of(s_out['index'])
    keep = [c for c in range(nc) if not (drop and c in cols)]
    if s_out['index']['depth'] != len(cols) or len(got) != n:
        return [('set_index_hierarchy_labels_moved_or_changed', {'expected': exp, 'got': got})]
    if not reorder:
        out = [] if exp == got else [('set_index_hierarchy_labels_moved_or_changed', {'expected': exp, 'got': got})]
        out.extend(_kept_columns_problem(s_in, keep, s_out, 'set_index_hierarchy_cells_changed'))
        return out
    # rows may be permuted: compare {label tuple: row cells}
    out = []
    exp_labels = tuple(s_in['columns']['labels'][c] for c in keep)
    if s_out['columns']['labels'] != exp_labels or len(set(got)) != len(got):
        return [('set_index_hierarchy_cells_changed', {'expected_columns': exp_labels, 'got': canon.brief(s_out, 900)})]
    gmap = {lab: tuple(col[i] for col in s_out['cols']) for i, lab in enumerate(got)}
    for i, lab in enumerate(exp):
        row = tuple(s_in['cols'][c][i] for c in keep)
        if gmap.get(lab) != row:
            out.append(('set_index_hierarchy_row_moved', {'label': lab, 'expected_row': row, 'got_row': gmap.get(lab)}))
            break
    return out


def _judge_unset(s_in, in_names, names, s_out):
    n, nc = s_in['shape']
    if s_out.get('k') != 'Frame':
        return [('unset_index_not_a_frame', {'got': canon.brief(s_out)})]
    depth = s_in['index']['depth']
    first = tuple(cs(x) for x in (names if names else in_names))
    exp_labels = first + tuple(s_in['columns']['labels'])
    out = []
    if s_out['columns']['depth'] != 1 or s_out['columns']['labels'] != exp_labels or s_out['shape'] != (n, nc + depth):
        return [('unset_index_columns_not_prepended', {'expected_columns': exp_labels, 'got': canon.brief(s_out, 900)})]
    if s_out['index']['labels'] != _auto_labels(n):
        out.append(('unset_index_index_not_auto', {'got': s_out['index']['labels']}))
    rows = _rows_of(s_in['index'])
    for d in range(depth):
        exp = [r[d] for r in rows]
        if not R.seq_leq(exp, s_out['cols'][d]):
            out.append(('unset_index_label_column_wrong', {'depth': d, 'expected': exp, 'got': s_out['cols'][d]}))
    if s_out['cols'][depth:] != s_in['cols'] or s_out['dtypes'][depth:] != s_in['dtypes']:
        out.append(('unset_index_cells_changed', {'expected': s_in['cols'], 'got': s_out['cols'][depth:]}))
    return out


def _judge_shift_in(s_in, pos, axis, s_out):
    n, nc = s_in['shape']
    if s_out.get('k') != 'Frame':
        return [('relabel_shift_in_not_a_frame', {'got': canon.brief(s_out)})]
    rows, cols = _rows_of(s_in['index']), _rows_of(s_in['columns'])
    out = []
    if axis == 0:
        exp = [rows[i] + tuple(s_in['cols'][c][i] for c in pos) for i in range(n)]
        got = _rows_of(s_out['index'])
        if exp != got:
            out.append(('relabel_shift_in_labels_wrong', {'expected': exp, 'got': got}))
        keep = [c for c in range(nc) if c not in pos]
        out.extend(_kept_columns_problem(s_in, keep, s_out, 'relabel_shift_in_cells_changed'))
        return out
    keep_rows = [r for r in range(n) if r not in pos]
    exp = [cols[j] + tuple(s_in['cols'][j][r] for r in pos) for j in range(nc)]
    got = _rows_of(s_out['columns'])
    if len(exp) != len(got) or not all(R.seq_leq(e, g) for e, g in zip(exp, got)):
        out.append(('relabel_shift_in_labels_wrong', {'expected': exp, 'got': got}))
    exp_index = tuple(s_in['index']['labels'][r] for r in keep_rows)
    exp_cols = tuple(tuple(col[r] for r in keep_rows) for col in s_in['cols'])
    if s_out['index']['labels'] != exp_index or s_out['cols'] != exp_cols:
        out.append(('relabel_shift_in_cells_changed', {'expected_index': exp_index, 'expected_cols': exp_cols,
                                                       'got': canon.brief(s_out, 900)}))
    return out


def _judge_shift_out(s_in, in_names, moved, axis, s_out):
    n, nc = s_in['shape']
    if s_out.get('k') != 'Frame':
        return [('relabel_shift_out_not_a_frame', {'got': canon.brief(s_out)})]
    tgt = s_in['index'] if axis == 0 else s_in['columns']
    opp = s_in['columns'] if axis == 0 else s_in['index']
    d = tgt['depth']
    labels = _rows_of(tgt)
    remain = [x for x in range(d) if x not in moved]
    new_names = tuple(cs(in_names[m]) for m in moved)
    m_len = len(labels)
    if len(remain) == 0:
        exp_tgt = [(l,) for l in _auto_labels(m_len)]
    else:
        exp_tgt = [tuple(t[x] for x in remain) for t in labels]
    got_tgt = _rows_of(s_out['index'] if axis == 0 else s_out['columns'])
    out = []
    if exp_tgt != got_tgt:
        out.append(('relabel_shift_out_remaining_labels_wrong', {'expected': exp_tgt, 'got': got_tgt}))
    exp_opp = new_names + tuple(opp['labels'])
    got_opp = (s_out['columns'] if axis == 0 else s_out['index'])
    if got_opp['depth'] != 1 or got_opp['labels'] != exp_opp:
        out.append(('relabel_shift_out_labels_not_prepended', {'expected': exp_opp, 'got': got_opp['labels']}))
        return out
    k = len(moved)
    if axis == 0:
        for q, m in enumerate(moved):
            exp = tuple(t[m] for t in labels)
            if s_out['cols'][q] != exp:
                out.append(('relabel_shift_out_label_column_wrong', {'depth': m, 'expected': exp, 'got': s_out['cols'][q]}))
        if s_out['cols'][k:] != s_in['cols'] or s_out['dtypes'][k:] != s_in['dtypes']:
            out.append(('relabel_shift_out_cells_changed', {'expected': s_in['cols'], 'got': s_out['cols'][k:]}))
        return out
    if len(s_out['cols']) != nc:
        return out + [('relabel_shift_out_cells_changed', {'got': canon.brief(s_out, 900)})]
    for j in range(nc):
        exp = tuple(labels[j][m] for m in moved) + tuple(s_in['cols'][j])
        if not R.seq_leq(exp, s_out['cols'][j]):
            out.append(('relabel_shift_out_cells_changed', {'column': j, 'expected': exp, 'got': s_out['cols'][j]}))
            break
    return out


def _judge_rehier(s_in, perm, axis, s_out):
    n, nc = s_in['shape']
    if s_out.get('k') != 'Frame':
        return [('rehierarch_not_a_frame', {'got': canon.brief(s_out)})]
    if s_out['shape'] != (n, nc):
        return [('rehierarch_shape_changed', {'got': s_out['shape']})]
    if axis == 0:
        exp = [tuple(t[p] for p in perm) for t in _rows_of(s_in['index'])]
        got = _rows_of(s_out['index'])
        if s_out['columns']['labels'] != s_in['columns']['labels'] or s_out['dtypes'] != s_in['dtypes']:
            return [('rehierarch_other_axis_changed', {'got': canon.brief(s_out, 600)})]
        gmap = {lab: tuple(col[i] for col in s_out['cols']) for i, lab in enumerate(got)}
        if len(gmap) != n:
            return [('rehierarch_labels_wrong', {'expected': exp, 'got': got})]
        for i, lab in enumerate(exp):
            row = tuple(col[i] for col in s_in['cols'])
            if gmap.get(lab) != row:
                return [('rehierarch_row_moved', {'label': lab, 'expected_row': row, 'got_row': gmap.get(lab)})]
        return []
    exp = [tuple(t[p] for p in perm) for t in _rows_of(s_in['columns'])]
    got = _rows_of(s_out['columns'])
    if s_out['index']['labels'] != s_in['index']['labels']:
        return [('rehierarch_other_axis_changed', {'got': canon.brief(s_out, 600)})]
    gmap = {lab: (s_out['cols'][j], s_out['dtypes'][j]) for j, lab in enumerate(got)}
    if len(gmap) != nc:
        return [('rehierarch_labels_wrong', {'expected': exp, 'got': got})]
    for j, lab in enumerate(exp):
        if gmap.get(lab) != (s_in['cols'][j], s_in['dtypes'][j]):
            return [('rehierarch_column_moved', {'label': lab, 'expected': s_in['cols'][j], 'got': gmap.get(lab)})]
    return []


def _cell_map(s):
    """{(row label tuple, column label tuple): canonical cell}; None when labels repeat."""
    rows, cols = _rows_of(s['index']), _rows_of(s['columns'])
    if len(set(rows)) != len(rows) or len(set(cols)) != len(cols):
        return None
    return {(r, c): s['cols'][j][i] for j, c in enumerate(cols) for i, r in enumerate(rows)}


def _judge_restack(s_in, depth_level, fill, s_out, unstack):
    """pivot_stack (unstack=False): the selected column depths move to the end of the row
    labels; pivot_unstack: the selected index depths move to the end of the column labels.
    Every source cell must be found under its moved label, every other cell is the fill."""
    op = 'pivot_unstack' if unstack else 'pivot_stack'
    if s_out.get('k') != 'Frame':
        return [(f'{op}_not_a_frame', {'got': canon.brief(s_out)})], None
    rows, cols = _rows_of(s_in['index']), _rows_of(s_in['columns'])
    contract = rows if unstack else cols
    depth = (s_in['index'] if unstack else s_in['columns'])['depth']
    targets = R.norm_depths(depth_level, depth)
    gmap = _cell_map(s_out)
    if gmap is None:
        return [(f'{op}_labels_repeat', {'got': canon.brief(s_out, 600)})], None
    expected = {}
    zero = (('int', 0),)
    for j, c in enumerate(cols):
        for i, r in enumerate(rows):
            g, t = R.split_levels(r if unstack else c, targets)
            g = g or zero
            key = (g, c + t) if unstack else (r + t, g)
            expected[key] = s_in['cols'][j][i]
    out = []
    cfill = cs(fill)
    for key, v in expected.items():
        if key not in gmap:
            out.append((f'{op}_cell_missing', {'key': key, 'expected': v, 'got_rows': _rows_of(s_out['index'])[:12],
                                               'got_columns': _rows_of(s_out['columns'])[:12]}))
            return out, expected
        if not R.leq(v, gmap[key]):
            out.append((f'{op}_cell_changed', {'key': key, 'expected': v, 'got': gmap[key]}))
            return out, expected
    for key, v in gmap.items():
        if key not in expected and not R.leq(cfill, v):
            out.append((f'{op}_empty_cell_not_fill', {'key': key, 'fill': cfill, 'got': v}))
            break
    return out, expected


# --------------------------------------------------------------------------------------
# checks of the label moves

def _report(ctx, problems, klass):
    for what, detail in problems[:2]:
        _violate(ctx, what, detail=detail, klass=dict(klass))


def _refusal_ok(exc, status, tree=True):
    """A move that would create repeated / non-tree / cross-type-equal labels may be refused."""
    return _is_sf_index_error(exc) and (status != 'unique' or not tree)


def _canon_cell_map(s):
    """{(row label, column label): cell} keyed by canonical labels (a hierarchical label and
    the equal tuple label of a flat index have the same key)."""
    rows = [_label_of(t) for t in _rows_of(s['index'])]
    cols = [_label_of(t) for t in _rows_of(s['columns'])]
    return {(r, c): s['cols'][j][i] for j, c in enumerate(cols) for i, r in enumerate(rows)}


def _check_setidx(case, ctx):
    spec, lay, op, cols = case['spec'], case['layout'], case['op'], case['cols']
    f = F.build_frame(spec, lay)
    s_in = canon.snap(f)
    nr, nc = spec.shape
    labels = [spec.cols[c] for c in cols]
    hier = op == 'set_index_hierarchy'
    ctx.evaluation(('setidx', repr(case)), nr >= 2 and nc >= 2)
    ctx.tally('op', 'set_index_hierarchy' if hier else 'set_index')
    ctx.tally('layout', F.layout_name(lay))
    ctx.tally('setidx_variant', f"{op} drop={case['drop']}" + (f" reorder={case['reorder']}" if hier else ''))
    py = [tuple(spec.cells[i][c] for c in cols) for i in range(nr)]
    if op == 'set_index':
        status, tree = R.unique_status([t[0] for t in py]), True
    elif op == 'set_index_list':
        status, tree = R.unique_status(py), True
    else:
        status = R.unique_status(py)
        # reordering makes any labels a tree, except that NaN / NaT never equals its own repetition
        tree = (not any(canon.is_self_unequal(x) for t in py for x in t[:-1])) if case['reorder'] else R.is_tree(py)
    klass = {'op': op, 'drop': case['drop'], 'n_key_cols': len(cols), 'all_columns': len(set(cols)) == nc,
             'col_kind': spec.col_kind, 'hierarchical_columns': spec.col_kind.startswith('hier'),
             'label_status': status, 'tree': tree, 'reorder': bool(hier and case['reorder']),
             'rows': min(nr, 2)}
    if op == 'set_index':
        out, exc = _call(lambda: f.set_index(labels[0], drop=case['drop']))
    elif op == 'set_index_list':
        out, exc = _call(lambda: f.set_index(list(labels), drop=case['drop']))
    else:
        out, exc = _call(lambda: f.set_index_hierarchy(list(labels), drop=case['drop'], reorder_for_hierarchy=case['reorder']))
    if exc is not None:
        if _refusal_ok(exc, status, tree):
            ctx.tally('refused', f'{op}:{status}' + ('' if tree else ':non_tree'))
            return
        _violate(ctx, f'{op}_raised', detail=_detail_exc(exc), klass=_exc_klass(klass, exc))
        return
    s_out = canon.snap(out)
    if status == 'dup':
        _violate(ctx, 'repeated_labels_accepted', detail={'got': canon.brief(s_out, 600)}, klass=klass)
        return
    if hier and case['reorder'] and status != 'unique':
        ctx.tally('not_judged', 'reordered rows under labels that repeat (NaN/NaT) or are equal only across types')
        return
    if hier:
        problems = _judge_set_index_hierarchy(s_in, cols, case['drop'], case['reorder'], s_out)
    else:
        problems = _judge_set_index(s_in, cols, op == 'set_index_list', case['drop'], s_out)
    if problems:
        return _report(ctx, problems, klass)
    if not case['then_unset']:
        return
    names = case['names']
    ctx.tally('op', 'unset_index')
    kw = {'consolidate_blocks': case['consolidate']}
    if names:
        kw['names'] = list(names)
    out2, exc2 = _call(lambda: out.unset_index(**kw))
    k2 = dict(klass, op='unset_index', after=op, names=bool(names), consolidate=case['consolidate'])
    if out.columns.depth > 1:
        import static_frame as sf
        if exc2 is None or not isinstance(exc2, sf.ErrorInitFrame):
            _violate(ctx, 'unset_index_hierarchical_columns_not_refused', detail=_detail_exc(exc2) if exc2 else {}, klass=k2)
        else:
            ctx.tally('refused', 'unset_index:hierarchical_columns')
        return
    if exc2 is not None:
        new_labels = list(names) if names else list(out.index.names)
        clash = any(R.py_equal(a, b) for a in new_labels for b in out.columns.values.tolist())
        if clash and _is_sf_index_error(exc2):
            ctx.tally('refused', 'unset_index:name_equals_a_column_label')
            return
        _violate(ctx, 'unset_index_raised', detail=_detail_exc(exc2), klass=_exc_klass(k2, exc2))
        return
    s2 = canon.snap(out2)
    problems = _judge_unset(s_out, tuple(out.index.names), names, s2)
    if problems:
        return _report(ctx, problems, k2)
    if case['drop'] and not names and op != 'set_index_list' and not (hier and case['reorder']) and len(set(cols)) == len(cols):
        # round trip: every original column is found under its label with its cells, row by row
        ctx.tally('op', 'set_unset_roundtrip')
        # moved columns come back first, in the order given (named by the string form of their labels); the others keep their labels
        kept = [c for c in range(nc) if c not in cols]
        for q, c in enumerate(list(cols) + kept):
            lab = s_in['columns']['labels'][c]
            if (q >= len(cols) and s2['columns']['labels'][q] != lab) or not R.seq_leq(s_in['cols'][c], s2['cols'][q]):
                _violate(ctx, 'set_unset_roundtrip_cell_changed', detail={'column': lab, 'expected': s_in['cols'][c], 'got': s2['cols'][q],
                                                                          'got_label': s2['columns']['labels'][q]}, klass=k2)
                return


def _check_unset(case, ctx):
    spec, lay, names = case['spec'], case['layout'], case['names']
    f = F.build_frame(spec, lay)
    s_in = canon.snap(f)
    nr, nc = spec.shape
    ctx.evaluation(('unset', repr(case)), nr >= 2 and nc >= 1)
    ctx.tally('op', 'unset_index')
    ctx.tally('unset_index_kind', spec.row_kind)
    kw = {'consolidate_blocks': case['consolidate']}
    if names:
        kw['names'] = list(names)
    out, exc = _call(lambda: f.unset_index(**kw))
    klass = {'op': 'unset_index', 'row_kind': spec.row_kind, 'col_kind': spec.col_kind, 'names': bool(names),
             'consolidate': case['consolidate'], 'after': None}
    if f.columns.depth > 1:
        import static_frame as sf
        if exc is None or not isinstance(exc, sf.ErrorInitFrame):
            _violate(ctx, 'unset_index_hierarchical_columns_not_refused', detail=_detail_exc(exc) if exc else {}, klass=klass)
        else:
            ctx.tally('refused', 'unset_index:hierarchical_columns')
        return
    if exc is not None:
        _violate(ctx, 'unset_index_raised', detail=_detail_exc(exc), klass=_exc_klass(klass, exc))
        return
    _report(ctx, _judge_unset(s_in, tuple(f.index.names), names, canon.snap(out)), klass)


def _remaining_status(py_rows, moved):
    depth = len(py_rows[0]) if py_rows else 0
    remain = [x for x in range(depth) if x not in moved]
    if not remain:
        return 'unique', True
    rem = [tuple(t[x] for x in remain) for t in py_rows]
    return _uniq_and_tree(rem)


def _as_tuples(labels, kind):
    return [tuple(l) if kind.startswith('hier') else (l,) for l in labels]


def _check_shift(case, ctx):
    spec, lay, axis, pos = case['spec'], case['layout'], case['axis'], case['pos']
    f = F.build_frame(spec, lay)
    s_in = canon.snap(f)
    nr, nc = spec.shape
    opp = spec.cols if axis == 0 else spec.rows
    key = opp[pos[0]] if case['scalar'] else [opp[p] for p in pos]
    ctx.evaluation(('shift', repr(case)), nr >= 2 and nc >= 2)
    ctx.tally('op', 'relabel_shift_in')
    ctx.tally('shift_in', f'axis={axis} target={spec.row_kind if axis == 0 else spec.col_kind} n={len(pos)}')
    ctx.tally('layout', F.layout_name(lay))
    klass = {'op': 'relabel_shift_in', 'axis': axis, 'row_kind': spec.row_kind, 'col_kind': spec.col_kind,
             'n_moved': len(pos), 'scalar': case['scalar'], 'all_moved': len(pos) == len(opp)}
    out, exc = _call(lambda: f.relabel_shift_in(key, axis=axis))
    if exc is not None:
        _violate(ctx, 'relabel_shift_in_raised', detail=_detail_exc(exc), klass=_exc_klass(klass, exc))
        return
    s1 = canon.snap(out)
    problems = _judge_shift_in(s_in, pos, axis, s1)
    if problems:
        return _report(ctx, problems, klass)
    mode = case['out_mode']
    if mode == 'none':
        return
    tgt1 = out.index if axis == 0 else out.columns
    d_old = (s_in['index'] if axis == 0 else s_in['columns'])['depth']
    d_new = tgt1.depth
    if mode == 'added':
        moved = list(range(d_old, d_new))
    else:
        k = 1 + int(case['out_pick'] * d_new) % d_new
        start = int(case['out_pick'] * 997) % d_new
        moved = sorted({(start + q) % d_new for q in range(k)})
    dl = moved[0] if len(moved) == 1 and case['out_scalar'] else list(moved)
    ctx.tally('op', 'relabel_shift_out')
    k2 = dict(klass, op='relabel_shift_out', out_mode=mode, n_out=len(moved), all_out=len(moved) == d_new)
    # the remaining labels as Python values, from the spec
    tgt_py = _as_tuples(spec.rows if axis == 0 else spec.cols, spec.row_kind if axis == 0 else spec.col_kind)
    if axis == 0:
        keep = [i for i in range(nr)]
        new_py = [tgt_py[i] + tuple(spec.cells[i][c] for c in pos) for i in keep]
    else:
        new_py = [tgt_py[j] + tuple(spec.cells[r][j] for r in pos) for j in range(nc)]
    status, tree = _remaining_status(new_py, moved)
    k2.update(label_status=status, tree=tree)
    out2, exc2 = _call(lambda: out.relabel_shift_out(dl, axis=axis))
    if exc2 is not None:
        if mode != 'added' and _refusal_ok(exc2, status, tree):
            ctx.tally('refused', f'relabel_shift_out:{status}' + ('' if tree else ':non_tree'))
            return
        _violate(ctx, 'relabel_shift_out_raised', detail=_detail_exc(exc2), klass=_exc_klass(k2, exc2))
        return
    s2 = canon.snap(out2)
    problems = _judge_shift_out(s1, _names(tgt1), moved, axis, s2)
    if problems:
        return _report(ctx, problems, k2)
    if mode == 'added':
        ctx.tally('op', 'shift_roundtrip')
        a, b = _canon_cell_map(s_in), _canon_cell_map(s2)
        bad = [k for k in a if k not in b or not R.leq(a[k], b[k])]
        if bad or len(a) != len(b):
            _violate(ctx, 'shift_roundtrip_cell_changed', detail={'key': bad[:1], 'expected': [a[k] for k in bad[:1]],
                                                                   'got': [b.get(k) for k in bad[:1]], 'n_in': len(a), 'n_out': len(b)},
                          klass=k2)


def _check_shift_out(case, ctx):
    spec, lay, axis, dl = case['spec'], case['layout'], case['axis'], case['depth_level']
    f = F.build_frame(spec, lay)
    s_in = canon.snap(f)
    nr, nc = spec.shape
    moved = [dl] if isinstance(dl, int) else list(dl)
    kind = spec.row_kind if axis == 0 else spec.col_kind
    ctx.evaluation(('shift_out', repr(case)), nr >= 2 and nc >= 1)
    ctx.tally('op', 'relabel_shift_out')
    ctx.tally('shift_out', f'axis={axis} target={kind} moved={moved}')
    tgt_py = _as_tuples(spec.rows if axis == 0 else spec.cols, kind)
    status, tree = _remaining_status(tgt_py, moved)
    klass = {'op': 'relabel_shift_out', 'axis': axis, 'row_kind': spec.row_kind, 'col_kind': spec.col_kind, 'out_mode': 'direct',
             'n_out': len(moved), 'all_out': len(moved) == _depth_of(kind), 'label_status': status, 'tree': tree,
             'sorted_depths': moved == sorted(moved)}
    out, exc = _call(lambda: f.relabel_shift_out(dl, axis=axis))
    if exc is not None:
        if _refusal_ok(exc, status, tree):
            ctx.tally('refused', f'relabel_shift_out:{status}' + ('' if tree else ':non_tree'))
            return
        _violate(ctx, 'relabel_shift_out_raised', detail=_detail_exc(exc), klass=_exc_klass(klass, exc))
        return
    tgt = f.index if axis == 0 else f.columns
    _report(ctx, _judge_shift_out(s_in, _names(tgt), moved, axis, canon.snap(out)), klass)


def _check_rehier(case, ctx):
    spec, lay, axis, perm = case['spec'], case['layout'], case['axis'], case['perm']
    f = F.build_frame(spec, lay)
    s_in = canon.snap(f)
    nr, nc = spec.shape
    ctx.evaluation(('rehier', repr(case)), (nr if axis == 0 else nc) >= 2 and perm != sorted(perm))
    ctx.tally('op', 'rehierarch')
    ctx.tally('rehierarch', f'axis={axis} perm={perm}')
    klass = {'op': 'rehierarch', 'axis': axis, 'perm': list(perm), 'identity': perm == sorted(perm)}
    out, exc = _call(lambda: f.rehierarch(index=list(perm)) if axis == 0 else f.rehierarch(columns=list(perm)))
    if exc is not None:
        _violate(ctx, 'rehierarch_raised', detail=_detail_exc(exc), klass=_exc_klass(klass, exc))
        return
    _report(ctx, _judge_rehier(s_in, perm, axis, canon.snap(out)), klass)


def _restack_class(s_in, targets, unstack):
    """Input class of a stack/unstack: whether the remaining (group) labels and the moved
    (target) labels, in first-appearance order, are tree-shaped; and, for unstack, whether an
    output column needs the fill for one group while the *last* group has the cell."""
    labels = _rows_of(s_in['index'] if unstack else s_in['columns'])
    groups, tmap = {}, {}
    for lab in labels:
        g, t = R.split_levels(lab, targets)
        groups.setdefault(g, set()).add(t)
        tmap.setdefault(t, None)
    glist, tlist = list(groups), list(tmap)
    last = groups[glist[-1]] if glist else set()
    return {'groups_tree': len(glist) < 2 or len(glist[0]) < 2 or R.is_tree(glist),
            'targets_tree': len(tlist) < 2 or len(tlist[0]) < 2 or R.is_tree(tlist),
            'fill_before_present_last_group': bool(unstack and any(t in last and any(t not in ts for ts in groups.values()) for t in tlist)),
            'ragged': any(len(ts) != len(tlist) for ts in groups.values())}


def _check_stack(case, ctx):
    spec, lay, dl = case['spec'], case['layout'], case['depth_level']
    unstack = case['kind'] == 'unstack'
    f = F.build_frame(spec, lay)
    s_in = canon.snap(f)
    nr, nc = spec.shape
    fill = NAN if case['default_fill'] else case['fill']
    kw = {} if case['default_fill'] else {'fill_value': fill}
    op = 'pivot_unstack' if unstack else 'pivot_stack'
    depth = _depth_of(spec.row_kind if unstack else spec.col_kind)
    targets = R.norm_depths(dl, depth)
    ctx.evaluation((op, repr(case)), nr >= 2 and nc >= 2)
    ctx.tally('op', op)
    ctx.tally('stack_shape', f'{op} depth={depth} targets={len(targets)} dl={"list" if isinstance(dl, list) else "int"}')
    ctx.tally('layout', F.layout_name(lay))
    ctx.tally('fill_kind', type(fill).__name__)
    klass = {'op': op, 'row_kind': spec.row_kind, 'col_kind': spec.col_kind, 'depth': depth, 'n_targets': len(targets),
             'all_targets': len(targets) == depth, 'fill_kind': type(fill).__name__}
    klass.update(_restack_class(s_in, targets, unstack))
    out, exc = _call(lambda: (f.pivot_unstack if unstack else f.pivot_stack)(dl, **kw))
    if exc is not None:
        if _is_sf_index_error(exc) and not (klass['groups_tree'] and klass['targets_tree']):
            ctx.tally('refused', f'{op}:non_tree_labels')
            return
        _violate(ctx, f'{op}_raised', detail=_detail_exc(exc), klass=_exc_klass(klass, exc))
        return
    s1 = canon.snap(out)
    problems, expected = _judge_restack(s_in, dl, fill, s1, unstack)
    if problems:
        return _report(ctx, problems, klass)
    if expected is not None and len(_cell_map(s1) or {}) > len(expected):
        ctx.tally('stack_cells', 'filled')
    if unstack:
        return
    # round trip: unstack the depths that were appended to the index
    dr, k = s_in['index']['depth'], len(targets)
    dl2 = -1 if (k == 1 and case['default_fill']) else list(range(dr, dr + k))
    fill2 = case['fill2']
    ctx.tally('op', 'stack_unstack_roundtrip')
    k2 = dict(klass, op='stack_unstack_roundtrip', fill2_kind=type(fill2).__name__)
    k2.update(_restack_class(s1, R.norm_depths(dl2, s1['index']['depth']), True))
    out2, exc2 = _call(lambda: out.pivot_unstack(dl2, fill_value=fill2))
    if exc2 is not None:
        if _is_sf_index_error(exc2) and not (k2['groups_tree'] and k2['targets_tree']):
            ctx.tally('refused', 'pivot_unstack:non_tree_labels')
            return
        _violate(ctx, 'pivot_unstack_raised', detail=_detail_exc(exc2), klass=_exc_klass(k2, exc2))
        return
    s2 = canon.snap(out2)
    problems, _ = _judge_restack(s1, dl2, fill2, s2, True)
    if problems:
        return _report(ctx, problems, k2)
    gmap = _cell_map(s2)
    rows, cols = _rows_of(s_in['index']), _rows_of(s_in['columns'])
    zero = (('int', 0),)
    seen = set()
    for j, c in enumerate(cols):
        g, t = R.split_levels(c, targets)
        for i, r in enumerate(rows):
            key = (r, (g or zero) + t)
            seen.add(key)
            if key not in gmap or not R.leq(s_in['cols'][j][i], gmap[key]):
                _violate(ctx, 'stack_unstack_roundtrip_cell_changed', detail={'key': key, 'expected': s_in['cols'][j][i],
                                                                               'got': gmap.get(key)}, klass=k2)
                return
    fills = (cs(fill), cs(fill2))
    for key, v in gmap.items():
        if key not in seen and not any(R.leq(x, v) for x in fills):
            _violate(ctx, 'stack_unstack_roundtrip_extra_cell_not_fill', detail={'key': key, 'got': v}, klass=k2)
            return


# --------------------------------------------------------------------------------------
# pivot

_CAT = {'b': 'bool', 'i': 'num', 'u': 'num', 'f': 'num', 'c': 'num', 'U': 'str', 'S': 'bytes', 'M': 'dt', 'm': 'td', 'O': 'object'}


def _resolves_to_object(dts):
    """Several columns extracted as one 2-D array keep a typed dtype only when they are all
    numbers, all strings, or all one other kind."""
    cats = {_CAT[np.dtype(dt).kind] for dt in dts}
    return len(cats) > 1 or 'object' in cats


def _find(exp_label, got_labels, used):
    for q, g in enumerate(got_labels):
        if q not in used and len(g) == len(exp_label) and R.seq_leq(exp_label, g):
            return q
    return None


def _check_pivot(case, ctx):
    spec, lay = case['spec'], case['layout']
    f = F.build_frame(spec, lay)
    nr, nc = spec.shape
    ifs, cfs = list(case['index_fields']), list(case['columns_fields'])
    omitted = case['data_fields'] is None
    dfs = sorted(case['all_data']) if omitted else list(case['data_fields'])
    func = case['func']
    funcs = [('', 'nansum')] if func is None else [('', func)] if isinstance(func, str) else [tuple(p) for p in func]
    fill = NAN if case['default_fill'] else case['fill']
    lab = spec.cols.__getitem__

    def arg(fields):
        return lab(fields[0]) if (len(fields) == 1 and case['scalar_args']) else [lab(p) for p in fields]

    kw = {}
    if cfs:
        kw['columns_fields'] = arg(cfs)
    if not omitted:
        kw['data_fields'] = arg(dfs)
    if func is not None:
        kw['func'] = FUNCS[func] if isinstance(func, str) else {fl: FUNCS[fn] for fl, fn in funcs}
    if not case['default_fill']:
        kw['fill_value'] = fill

    # ---- reference: dict-of-rows grouping, aggregation of exactly the rows of each pair
    ikey = [tuple(cs(spec.cells[r][p]) for p in ifs) for r in range(nr)]
    ckey = [tuple(cs(spec.cells[r][p]) for p in cfs) for r in range(nr)]
    groups, ikeys, ckeys = R.pivot_groups(ikey, ckey)
    add_data = len(dfs) > 1 or not cfs
    add_func = len(funcs) > 1
    exp_cols = []          # (label tuple, column key, data field, func name)
    for ck in ckeys:
        for d in dfs:
            for fl, fn in funcs:
                label = ck + ((cs(lab(d)),) if add_data else ()) + ((cs(fl),) if add_func else ())
                exp_cols.append((label, ck, d, fn))
    max_group = max((len(v) for v in groups.values()), default=0)
    n_missing = len(ikeys) * len(ckeys) - len(groups)
    ctx.evaluation(('pivot', repr(case)), len(ikeys) >= 2 and (max_group >= 2 or n_missing > 0))
    ctx.tally('op', 'pivot')
    ctx.tally('pivot_shape', f'columns_fields={len(cfs)}')
    ctx.tally('pivot_fields', f'index={len(ifs)} columns={len(cfs)} data={len(dfs)}{"(omitted)" if omitted else ""} funcs={len(funcs)}')
    ctx.tally('pivot_func', 'default' if func is None else 'single' if isinstance(func, str) else 'map')
    for _, fn in funcs:
        ctx.tally('pivot_func_name', fn)
    ctx.tally('fill_kind', type(fill).__name__)
    ctx.tally('layout', F.layout_name(lay))
    idx_py = list(dict.fromkeys(tuple(spec.cells[r][p] for p in ifs) for r in range(nr)))
    idx_dts = [spec.dtypes[p] for p in ifs]
    klass = {'op': 'pivot', 'n_index_fields': len(ifs), 'n_columns_fields': len(cfs), 'n_data_fields': len(dfs),
             'n_funcs': len(funcs),
             'index_fields_object': len(ifs) > 1 and _resolves_to_object(idx_dts),
             'first_appearance_tree': R.is_tree([tuple(t) for t in idx_py]) if len(ifs) > 1 else True,
             'index_fields_have_datetime': any(spec.dtypes[p].startswith('M8') for p in ifs),
             'columns_field_labels_iterable': all(isinstance(lab(p), (str, tuple)) for p in cfs),
             'index_field_bool': any(spec.dtypes[p] == 'bool' for p in ifs),
             'columns_field_bool': any(spec.dtypes[p] == 'bool' for p in cfs)}
    ctx.sample({'pivot': spec.brief(), 'index': ifs, 'columns': cfs, 'data': dfs, 'func': repr(func), 'fill': repr(fill)})
    out, exc = _call(lambda: f.pivot(arg(ifs), **kw))
    if exc is not None:
        _violate(ctx, 'pivot_raised', detail=_detail_exc(exc), klass=_exc_klass(klass, exc))
        return
    s = canon.snap(out)
    if s.get('k') != 'Frame':
        _violate(ctx, 'pivot_not_a_frame', detail={'got': canon.brief(s)}, klass=klass)
        return
    got_rows, got_cols = _rows_of(s['index']), _rows_of(s['columns'])
    if len(got_rows) != len(ikeys) or len(got_cols) != len(exp_cols):
        _violate(ctx, 'pivot_labels_mismatch', detail={'expected_rows': ikeys, 'got_rows': got_rows,
                                                       'expected_columns': [e[0] for e in exp_cols], 'got_columns': got_cols}, klass=klass)
        return
    row_at, col_at, used = {}, {}, set()
    for ik in ikeys:
        q = _find(ik, got_rows, used)
        if q is None:
            _violate(ctx, 'pivot_labels_mismatch', detail={'missing_row': ik, 'got_rows': got_rows}, klass=klass)
            return
        used.add(q)
        row_at[ik] = q
    used = set()
    for e in exp_cols:
        q = _find(e[0], got_cols, used)
        if q is None:
            _violate(ctx, 'pivot_labels_mismatch', detail={'missing_column': e[0], 'got_columns': got_cols}, klass=klass)
            return
        used.add(q)
        col_at[e[0]] = q
    cfill = cs(fill)
    bad = []
    for label, ck, d, fn in exp_cols:
        dt = spec.dtypes[d]
        for ik in ikeys:
            got = s['cols'][col_at[label]][row_at[ik]]
            rows = groups.get((ik, ck))
            if rows is None:
                ctx.tally('pivot_cells', 'filled')
                if not R.leq(cfill, got):
                    bad.append(('fill', fn, ik, label, cfill, got))
                continue
            ctx.tally('pivot_cells', 'aggregated' if len(rows) > 1 else 'single_row')
            res = FUNCS[fn](V.to_array([spec.cells[r][d] for r in rows], dt))
            exp = cs(res)
            if not R.leq(exp, got, close=True):
                if len(rows) == 1 and not R.leq(exp, cs(spec.cells[rows[0]][d]), close=True):
                    kind = 'single_row'   # func of the one row differs from the row's cell: copying instead of aggregating shows
                elif len(dfs) > 1 and len(funcs) == 1 and np.asarray(res).dtype != np.dtype(object if dt == 'object' else dt):
                    kind = 'result_dtype_differs_from_source'
                else:
                    kind = 'aggregated'
                bad.append((kind, fn, ik, label, exp, got))
    if not bad:
        return
    whats = {'single_row': 'pivot_single_row_group_not_aggregated',
             'result_dtype_differs_from_source': 'pivot_aggregate_cast_to_source_dtype'}
    for kind in sorted({b[0] for b in bad}):
        sub = [b for b in bad if b[0] == kind]
        detail = {'cells': [{'kind': b[0], 'func': b[1], 'row': b[2], 'column': b[3], 'expected': b[4], 'got': b[5]} for b in sub[:4]],
                  'n_bad': len(sub), 'n_bad_all_kinds': len(bad)}
        _violate(ctx, whats.get(kind, 'pivot_cell_mismatch'), detail=detail,
                      klass=dict(klass, wrong_cell_group=kind))


# --------------------------------------------------------------------------------------
# joins

def _key_rows(spec, depth_level, cols):
    out = []
    hier = spec.row_kind.startswith('hier')
    for i in range(spec.shape[0]):
        k = []
        if depth_level is not None:
            if hier:
                ds = [depth_level] if isinstance(depth_level, int) else depth_level
                k.extend(spec.rows[i][d] for d in ds)
            else:
                k.append(spec.rows[i])
        k.extend(spec.cells[i][c] for c in cols)
        out.append(tuple(k))
    return out


def _key_source(depth_level, cols):
    return 'both' if (depth_level is not None and cols) else 'depth' if depth_level is not None else 'columns'


def _list_inference_hazards(rs, right_rows, fill):
    """{right column position: hazard} for right columns whose output (source cells of the
    joined rows, fill for the others) mixes bytes with non-bytes, or timedelta64 with an int."""
    out = {}
    for c in range(rs.shape[1]):
        vals = [rs.cells[j][c] if j is not None else fill for j in right_rows]
        has_bytes = any(isinstance(v, bytes) for v in vals)
        if has_bytes and any(not isinstance(v, bytes) for v in vals):
            out[c] = 'bytes_with_other'
        elif any(isinstance(v, np.timedelta64) for v in vals) and any(
                isinstance(v, (int, np.integer)) and not isinstance(v, (bool, np.bool_, np.timedelta64)) for v in vals):
            out[c] = 'timedelta64_with_int'
    return out


_LABEL_CAT = {'auto': 'int', 'int': 'int', 'negint': 'int', 'float': 'float', 'bool': 'bool', 'str': 'str', 'IndexDate': 'date'}


def _union_coerces(lk, rk):
    """The union / reindex of two flat indexes re-types labels when one is a datetime index
    and the other is not, or when they hold different kinds of numbers."""
    a, b = _LABEL_CAT.get(lk, lk), _LABEL_CAT.get(rk, rk)
    if a == b:
        return False
    return 'date' in (a, b) or {a, b} <= {'int', 'float', 'bool'}


def _check_join(case, ctx):
    ls, rs, how = case['left'], case['right'], case['how']
    fl, fr = F.build_frame(ls, case['llayout']), F.build_frame(rs, case['rlayout'])
    nl, nr = ls.shape[0], rs.shape[0]
    lk, rk = _key_rows(ls, case['ldepth'], case['lcols']), _key_rows(rs, case['rdepth'], case['rcols'])
    pairs, card = R.join_pairs(lk, rk)
    many = card != 'one_to_one'
    composite = case['composite']
    path = 'composite' if composite else 'many_refused' if many else 'one_to_one_noncomposite'
    fill = NAN if case['default_fill'] else case['fill']
    cifv = case['cifv']

    def colarg(spec, cols):
        if not cols:
            return None
        return spec.cols[cols[0]] if (len(cols) == 1 and case['scalar_cols']) else [spec.cols[c] for c in cols]

    kw = {'left_depth_level': case['ldepth'], 'left_columns': colarg(ls, case['lcols']),
          'right_depth_level': case['rdepth'], 'right_columns': colarg(rs, case['rcols']),
          'left_template': case['lt'], 'right_template': case['rt'], 'composite_index': composite}
    if not case['default_fill']:
        kw['fill_value'] = fill
    if cifv is not None:
        kw['composite_index_fill_value'] = cifv
    ctx.evaluation(('join', repr(case)), nl >= 2 and nr >= 2 and len(pairs) >= 1)
    ctx.tally('op', 'join_' + how)
    ctx.tally('join_type', how)
    ctx.tally('join_path', path)
    ctx.tally('join_cardinality', card)
    ctx.tally('join_key_source', f"{_key_source(case['ldepth'], case['lcols'])}/{_key_source(case['rdepth'], case['rcols'])} width={len(lk[0]) if lk else len(rk[0]) if rk else '?'}")
    ctx.tally('fill_kind', type(fill).__name__)
    ctx.tally('layout', F.layout_name(case['llayout']) + ' & ' + F.layout_name(case['rlayout']))
    ctx.sample({'join': how, 'left': ls.brief(), 'right': rs.brief(), 'keys': [repr(case['ldepth']), case['lcols'], repr(case['rdepth']), case['rcols']],
                'composite': composite, 'cardinality': card})
    # label relations that matter when rows are laid out by label instead of by pair
    matched_l, matched_r = {i for i, _ in pairs}, {j for _, j in pairs}
    share = all(R.py_equal(ls.rows[i], rs.rows[j]) for i, j in pairs)
    ul_in_r = any(R.py_equal(ls.rows[i], y) for i in range(nl) if i not in matched_l for y in rs.rows)
    ur_in_l = any(R.py_equal(rs.rows[j], x) for j in range(nr) if j not in matched_r for x in ls.rows)
    klass = {'op': 'join', 'how': how, 'composite_index': composite, 'cardinality': card, 'path': path,
             'left_key': _key_source(case['ldepth'], case['lcols']), 'right_key': _key_source(case['rdepth'], case['rcols']),
             'empty_side': nl == 0 or nr == 0, 'has_pairs': bool(pairs),
             'matched_pairs_share_labels': share, 'unmatched_left_label_in_right': ul_in_r, 'unmatched_right_label_in_left': ur_in_l,
             'hierarchical_index': ls.row_kind.startswith('hier') or rs.row_kind.startswith('hier'),
             'hierarchical_sides': int(ls.row_kind.startswith('hier')) + int(rs.row_kind.startswith('hier')),
             'hierarchy_has_datetime_level': any(isinstance(x, np.datetime64) for sp in (ls, rs) if sp.row_kind.startswith('hier')
                                                 for t in sp.rows for x in t),
             'index_kinds_differ': ls.row_kind != rs.row_kind,
             'union_coerces_labels': _union_coerces(ls.row_kind, rs.row_kind)}
    out, exc = _call(lambda: getattr(fl, 'join_' + how)(fr, **kw))
    if path == 'many_refused':
        if exc is None:
            _violate(ctx, 'join_many_without_composite_index_not_refused', detail={'got': canon.brief(canon.snap(out), 600)}, klass=klass)
        elif not isinstance(exc, RuntimeError):
            _violate(ctx, 'join_raised', detail=_detail_exc(exc), klass=_exc_klass(klass, exc))
        else:
            ctx.tally('refused', 'join:many_without_composite_index')
        return
    if exc is not None:
        _violate(ctx, 'join_raised', detail=_detail_exc(exc), klass=_exc_klass(klass, exc))
        return
    s = canon.snap(out)
    if s.get('k') != 'Frame':
        _violate(ctx, 'join_not_a_frame', detail={'got': canon.brief(s)}, klass=klass)
        return
    ncl, ncr = ls.shape[1], rs.shape[1]
    exp_names = tuple(cs(case['lt'].format(c)) for c in ls.cols) + tuple(cs(case['rt'].format(c)) for c in rs.cols)
    if s['columns']['labels'] != exp_names:
        _violate(ctx, 'join_column_names_wrong', detail={'expected': exp_names, 'got': s['columns']['labels']}, klass=klass)
        return
    cfill = cs(fill)
    src = R.join_rows(pairs, nl, nr, how)

    def row_of(i, j):
        left = tuple(cs(v) for v in ls.cells[i]) if i is not None else (cfill,) * ncl
        right = tuple(cs(v) for v in rs.cells[j]) if j is not None else (cfill,) * ncr
        return left + right

    expected = [row_of(i, j) for i, j in src]
    got = [tuple(col[q] for col in s['cols']) for q in range(s['shape'][0])]
    missing, extra = R.multiset_match(expected, got, R.seq_leq)
    if (missing or extra) and len(expected) == len(got):
        # right-hand columns whose output mixes bytes with other elements, or timedelta64 with an int:
        # judged separately (the library rebuilds right columns from Python lists)
        hazard = _list_inference_hazards(rs, [j for _, j in src], fill)
        if hazard:
            keep = [q for q in range(ncl + ncr) if q < ncl or (q - ncl) not in hazard]
            m2, e2 = R.multiset_match([tuple(r[q] for q in keep) for r in expected], [tuple(r[q] for q in keep) for r in got], R.seq_leq)
            if not m2 and not e2:
                _violate(ctx, 'join_right_column_retyped_by_list_inference',
                              detail={'missing_rows': missing[:3], 'unexpected_rows': extra[:3], 'columns': sorted(hazard)},
                              klass=dict(klass, hazards=sorted(set(hazard.values()))))
                return
    if missing or extra:
        _violate(ctx, 'join_rows_mismatch', detail={'missing_rows': missing[:3], 'unexpected_rows': extra[:3],
                                                    'n_expected': len(expected), 'n_got': len(got), 'pairs': pairs[:8]}, klass=klass)
        return
    if composite:
        ccifv = cs(cifv)
        exp_by_label = {}
        for i, j in src:
            a = cs(ls.rows[i]) if i is not None else ccifv
            b = cs(rs.rows[j]) if j is not None else ccifv
            exp_by_label[('tuple', (a, b))] = row_of(i, j)
        for q, lab in enumerate(s['index']['labels']):
            if lab not in exp_by_label:
                _violate(ctx, 'join_composite_label_wrong', detail={'label': lab, 'expected_labels': list(exp_by_label)[:8]}, klass=klass)
                return
            if not R.seq_leq(exp_by_label[lab], got[q]):
                _violate(ctx, 'join_row_not_from_its_labelled_sources', detail={'label': lab, 'expected': exp_by_label[lab], 'got': got[q]},
                              klass=klass)
                return


# --------------------------------------------------------------------------------------

_CHECKS = {'setidx': _check_setidx, 'unset': _check_unset, 'shift': _check_shift, 'shift_out': _check_shift_out,
           'rehier': _check_rehier, 'stack': _check_stack, 'unstack': _check_stack, 'pivot': _check_pivot, 'join': _check_join}


def check(case, ctx):
    # every input frame of the case is snapshotted when it is built and again after the judge has finished: reshaping and
    # relational operations return new containers, their operands must read exactly as before (labels, depth, cells, dtypes)
    built = []
    orig = F.build_frame

    def recording(*a, **k):
        f = orig(*a, **k)
        built.append((f, canon.snap(f)))
        return f

    F.build_frame = recording
    try:
        return _CHECKS[case['kind']](case, ctx)
    finally:
        F.build_frame = orig
        for f, before in built:
            try:
                after = canon.snap(f)
            except Exception as e:
                after = ('snapshot_raised', type(e).__name__)
            if after != before:
                ctx.violation('operand_changed', detail={'before': canon.brief(before, 500), 'after': canon.brief(after, 500)},
                              klass={'op': case['kind']})
                break


# --------------------------------------------------------------------------------------
# literal probes: one per known finding, so that its KNOWN-FINDING line is printed on every run

def _fs(rows, cols, row_kind, col_kind, dtypes, cells):
    return F.FrameSpec(rows, cols, row_kind, col_kind, dtypes, cells, None)


def _d(s):
    return np.datetime64(s)


def probes(ctx):
    def lay(spec):
        return F.layout_all_1d(spec.dtypes)

    def join(left, right, how, lcols, rcols, ldepth=None, rdepth=None, composite=False, fill=NAN):
        return {'kind': 'join', 'left': left, 'right': right, 'llayout': lay(left), 'rlayout': lay(right), 'how': how,
                'ldepth': ldepth, 'rdepth': rdepth, 'lcols': lcols, 'rcols': rcols, 'lt': 'L.{}', 'rt': 'R.{}', 'fill': fill,
                'default_fill': False, 'composite': composite, 'cifv': None, 'scalar_cols': True}

    def pivot(spec, i, c, d, func, fill=NAN):
        return {'kind': 'pivot', 'spec': spec, 'layout': lay(spec), 'index_fields': i, 'columns_fields': c, 'data_fields': d,
                'all_data': d, 'func': func, 'fill': fill, 'default_fill': False, 'scalar_args': False}

    out = []
    # join, composite_index=False: unmatched left row 'c' carries label 2, which is also a right label
    L_ = _fs([0, 1, 2], ['k', 'lv'], 'int', 'str', ['<U1', 'int64'], [['a', 1], ['b', 2], ['c', 3]])
    R_ = _fs([0, 1, 2], ['k', 'rv'], 'int', 'str', ['<U1', 'float64'], [['b', 20.0], ['a', 10.0], ['d', 40.0]])
    out.append(join(L_, R_, 'left', [0], [0]))
    # join, composite_index=False on hierarchical indexes
    LH = _fs([('a', _d('2020-01-01')), ('a', _d('2020-01-02'))], ['lv'], 'hier2', 'str', ['int64'], [[1], [2]])
    RH = _fs([('a', _d('2020-01-02')), ('a', _d('2020-01-01')), ('b', _d('2020-01-01'))], ['rv'], 'hier2', 'str', ['float64'],
             [[20.0], [10.0], [30.0]])
    out.append(join(LH, RH, 'inner', [], [], ldepth=[0, 1], rdepth=[0, 1]))
    # join, composite_index=False: float labels on the left, int labels on the right
    LF = _fs([2.5, 1.5], ['k'], 'float', 'str', ['int64'], [[7], [8]])
    RF = _fs([0, 1, 2], ['k', 'rv'], 'auto', 'str', ['int64', 'bool'], [[1, True], [2, False], [3, True]])
    out.append(join(LF, RF, 'outer', [0], [0]))
    # join: int fill value into a timedelta64 right column
    LT = _fs([0, 1], ['k'], 'auto', 'str', ['int64'], [[1], [2]])
    RT = _fs([0], ['k', 'td'], 'auto', 'str', ['int64', 'm8[D]'], [[1, np.timedelta64(5, 'D')]])
    out.append(join(LT, RT, 'left', [0], [0], composite=True, fill=0))
    # pivot: a pair with one source row, func=len
    P1 = _fs([0, 1, 2], ['k', 'c', 'v'], 'auto', 'str', ['<U1', 'int64', 'int64'], [['a', 1, 10], ['a', 1, 20], ['b', 1, 30]])
    out.append(pivot(P1, [0], [1], [2], 'len'))
    # pivot: two data fields, one func whose result dtype differs from the source dtype
    P2 = _fs([0, 1, 2, 3], ['k', 's', 'v'], 'auto', 'str', ['<U1', '<U5', 'int64'],
             [['a', 'ab', 1], ['a', 'zz', 2], ['b', 'a', 3], ['b', 'b', 4]])
    out.append(pivot(P2, [0], [], [1, 2], 'len'))
    # pivot: index fields of different kinds in a non-tree first-appearance order
    P3 = _fs([0, 1, 2], ['k', 'n', 'v'], 'auto', 'str', ['<U1', 'int64', 'int64'], [['a', 1, 10], ['b', 1, 20], ['a', 2, 30]])
    out.append(pivot(P3, [0, 1], [], [2], 'sum'))
    # pivot: str and datetime64 index fields (tree order) with a columns field: every present cell comes back as fill
    P6 = _fs([0, 1, 2], ['k', 'd', 'c', 'v'], 'auto', 'str', ['<U1', 'M8[D]', 'int64', 'int64'],
             [['a', _d('2020-01-01'), 1, 10], ['a', _d('2020-01-02'), 1, 20], ['b', _d('2020-01-02'), 2, 30]])
    out.append(pivot(P6, [0, 1], [2], [3], 'sum'))
    # pivot: int column label as columns field with two data fields
    P4 = _fs([0, 1], [10, 11, 12, 13], 'auto', 'int', ['<U1', 'int64', 'int64', 'int64'], [['a', 1, 5, 6], ['b', 2, 7, 8]])
    out.append(pivot(P4, [0], [1], [2, 3], 'sum'))
    # pivot: Boolean index field with a columns field
    P5 = _fs([0, 1, 2, 3], ['e', 'd', 'v2', 'f'], 'auto', 'str', ['bool', 'float64', 'bool', 'int64'],
             [[True, 1.5, True, 2], [False, 1.5, True, 2], [True, 0.5, True, 2], [True, 2.5, False, 1]])
    out.append(pivot(P5, [2], [3], [1], 'len'))
    # set_index_hierarchy of every column with drop=True
    S1 = _fs([0, 1], ['a', 'b'], 'auto', 'str', ['<U1', 'int64'], [['x', 1], ['y', 2]])
    out.append({'kind': 'setidx', 'spec': S1, 'layout': lay(S1), 'op': 'set_index_hierarchy', 'cols': [0, 1], 'drop': True,
                'reorder': False, 'then_unset': False, 'names': None, 'consolidate': False})
    # set_index_hierarchy on hierarchical columns
    S2 = _fs([0, 1], [('A', 1), ('A', 2), ('B', 1)], 'auto', 'hier2', ['<U1', 'int64', 'int64'], [['x', 1, 5], ['y', 2, 6]])
    out.append({'kind': 'setidx', 'spec': S2, 'layout': lay(S2), 'op': 'set_index_hierarchy', 'cols': [0, 1], 'drop': False,
                'reorder': False, 'then_unset': False, 'names': None, 'consolidate': False})
    # pivot_unstack: the first group lacks target 2, the last group has it; int column, NaN fill
    U1 = _fs([('a', 1), ('b', 1), ('b', 2)], ['v'], 'hier2', 'str', ['int64'], [[10], [20], [30]])
    out.append({'kind': 'unstack', 'spec': U1, 'layout': lay(U1), 'depth_level': 1, 'fill': NAN, 'fill2': NAN, 'default_fill': False})
    return out
