"""C06 — index set algebra and label alignment of binary operators."""
import operator as O
import warnings

import numpy as np

from sfmon import canon
from sfmon.canon import cs, veq, ceq
from sfmon.gen import frames as F
from sfmon.gen import labels as L
from sfmon.gen import keys as K
from sfmon.gen import values as V

PROPERTY = 'C06'
RULE = ('cases: (a) set operations union/intersection/difference over 2..3 indices of one label kind (flat kinds and depth-2 '
        'hierarchies; identical, permuted, overlapping, disjoint, empty operands; Index or plain iterable as other); (b) binary '
        'operators between two Series, two Frames (random block layouts) or Frame and Series whose label sets are identical, '
        'permuted, overlapping or disjoint, for arithmetic / comparison / logical operators over compatible dtype pairs, plus a '
        'second evaluation with both operands permuted; (c) scalar and unlabelled-array operands. non-trivial = label sets differ '
        'or are permuted, or (for set ops) operands overlap partially; distinct = hash of the case')
EXPLANATION = 'reference: Python set/dict algebra on labels; cell = NumPy scalar operator on the two cells; one-sided cells must be missing for arithmetic operators (pow(1, NaN) = 1 and pow(NaN, 0) = 1 excepted)'
EXHAUSTIVE = {'quick': False, 'thorough': False}
ASSUMPTIONS = ['NumPy scalar operator semantics are the cell reference; a cell is judged only when the integer and float evaluation of the operator agree (alignment may widen ints to float)',
               'comparison/logical results cannot hold a missing marker: only both-present cells and the label union are asserted for them']
TIERS = {'quick': {'shards': 8, 'budget_s': 150, 'min_nontrivial': 5000},
         'thorough': {'shards': 16, 'budget_s': 1500, 'min_nontrivial': 60000}}
HOOKS = ('index',)
ANCHORS = {
    'static_frame.core.util': ['_ufunc_set_1d', '_ufunc_set_2d', 'union1d', 'intersect1d', 'setdiff1d', 'ufunc_set_iter'],
    'static_frame.core.index_base': ['IndexBase._ufunc_set', 'IndexBase.union', 'IndexBase.intersection', 'IndexBase.difference'],
    'static_frame.core.index_hierarchy': ['IndexHierarchy._ufunc_set'],
    'static_frame.core.index': ['Index._ufunc_set'],
    'static_frame.core.series': ['Series._ufunc_binary_operator', 'Series.reindex'],
    'static_frame.core.frame': ['Frame._ufunc_binary_operator', 'Frame.reindex'],
    'static_frame.core.index_correspondence': ['IndexCorrespondence.from_correspondence'],
    'static_frame.core.container_util': ['apply_binary_operator', 'apply_binary_operator_blocks'],
    'static_frame.core.type_blocks': ['TypeBlocks._ufunc_binary_operator'],
}
REQUIRED_ANCHORS = ['util._ufunc_set_1d', 'util._ufunc_set_2d', 'series.Series._ufunc_binary_operator', 'frame.Frame._ufunc_binary_operator',
                    'index_correspondence.IndexCorrespondence.from_correspondence', 'container_util.apply_binary_operator']

ARITH = ['add', 'sub', 'mul', 'truediv', 'floordiv', 'mod', 'pow']
COMPARE = ['eq', 'ne', 'lt', 'le', 'gt', 'ge']
LOGICAL = ['and_', 'or_', 'xor']
SET_KINDS = ['int', 'negint', 'str', 'float', 'dateobj', 'dt64', 'range', 'IndexDate', 'IndexYearMonth', 'tuple', 'mixed', 'hier2', 'bool']

# value pools for operator workloads (no overflow, no zero divisors)
_INTS = [1, 2, 3, -4, 7, 10, 5, -2]
_FLOATS = [1.0, 0.5, 2.5, -3.75, 10.0, float('nan'), 4.0]
_BOOLS = [True, False]
_STRS = ['a', 'b', 'ab', '', 'zz']
_DATES = [np.datetime64('2020-01-01'), np.datetime64('2020-03-05'), np.datetime64('1999-12-31'), np.datetime64('NaT', 'D')]
_DELTAS = [np.timedelta64(1, 'D'), np.timedelta64(-3, 'D'), np.timedelta64(30, 'D')]
POOLS = {'int64': _INTS, 'float64': _FLOATS, 'bool': _BOOLS, '<U2': _STRS, 'M8[D]': _DATES, 'm8[D]': _DELTAS}
# (dtype a, dtype b, operators)
COMBOS = [
    ('int64', 'int64', ARITH + COMPARE), ('int64', 'float64', ARITH + COMPARE), ('float64', 'int64', ARITH + COMPARE),
    ('float64', 'float64', ARITH + COMPARE), ('bool', 'bool', LOGICAL + ['eq', 'ne']), ('<U2', '<U2', ['add', 'eq', 'ne', 'lt', 'ge']),
    ('M8[D]', 'm8[D]', ['add', 'sub']), ('M8[D]', 'M8[D]', ['sub', 'eq', 'lt', 'ge']), ('m8[D]', 'm8[D]', ['add', 'sub', 'eq', 'lt']),
    ('bool', 'int64', ['add', 'mul', 'eq']), ('int64', 'bool', ['add', 'sub', 'eq']),
]
_LABEL_KINDS = ['str', 'int', 'negint', 'float', 'IndexDate', 'hier2', 'auto']


TECHNIQUE = 'runtime monitoring: reference-model oracle (set algebra on label lists; label-wise cell reference computed with NumPy scalars) for set operations and binary operators between differently labelled Series / Frames'


def probes(ctx):
    return [
        {'t': 'series_op', 'kind': 'str', 'la': ['a', 'b'], 'lb': ['b', 'c'], 'rel': 'overlap', 'da': '<U2', 'db': '<U2', 'op': 'add',
         'va': ['a', 'b'], 'vb': ['a', 'zz'], 'perm_seed': 1},
    ] + [
        {'t': 'frame_op', 'rk': 'auto', 'ck': 'str', 'ra': [0], 'rb': [0], 'ca': ['a', 'b', 'c'], 'cb': ['a', 'b', 'c'], 'rrel': 'identical', 'crel': 'identical',
         'dta': ['float64', 'int64', 'int64'], 'dtb': ['float64', 'float64', 'int64'], 'op': 'floordiv',
         'cells_a': [[4.0, -2, 2]], 'cells_b': [[10.0, -3.75, 1]], 'lay_seed': ls, 'perm_seed': 1} for ls in range(6)
    ]


def _vals(dt, n, rng):
    return [rng.choice(POOLS[dt]) for _ in range(n)]


def _relation_labels(kind, rng, n_max=6):
    """two label lists over one kind with a chosen relation."""
    rel = rng.choice(['identical', 'permuted', 'overlap', 'disjoint', 'subset', 'empty_one'])
    n = rng.randint(1, n_max)
    if kind == 'auto':
        base = list(range(n))
        if rel in ('identical', 'permuted'):
            return base, list(base), 'identical'
        m = rng.randint(0, n_max)
        return base, list(range(m)), 'overlap' if m else 'empty_one'
    if kind.startswith('hier') and rng.random() < 0.25:
        outers = rng.sample(['a', 'b', 'c', 'd'], rng.randint(2, 3))
        inners = rng.sample([1, 2, 3, 4], rng.randint(2, 3))
        a = [(o, i) for o in outers for i in inners]
        b = list(a)
        g = rng.randrange(len(outers))
        j = g * len(inners) + rng.randrange(len(inners))
        b[j] = (b[j][0], 9)
        return (a, b, 'product_one_inner_label_differs') if rng.random() < 0.7 else (b, a, 'product_one_inner_label_differs')
    pool = L.labels_for(kind, 2 * n_max, rng)
    if kind.startswith('hier'):
        pool = L.tree_labels(2, 2 * n_max, rng)
    if len(pool) < 2:
        return list(pool), list(pool), 'identical'
    a = pool[:min(n, len(pool))]
    if rel == 'identical':
        b = list(a)
    elif rel == 'permuted':
        b = list(a)
        rng.shuffle(b)
    elif rel == 'overlap':
        k = rng.randint(0, len(a))
        b = rng.sample(a, k) + pool[len(a):len(a) + rng.randint(0, 3)]
        rng.shuffle(b)
    elif rel == 'subset':
        b = rng.sample(a, rng.randint(0, len(a)))
    elif rel == 'disjoint':
        b = pool[len(a):len(a) + rng.randint(1, 3)]
    else:
        b = []
    if kind.startswith('hier'):
        a = _treeify(a)
        b = _treeify(b)
    return a, b, rel


def _treeify(tuples):
    """reorder tuples so that equal outer labels are contiguous (a valid hierarchy)."""
    out, seen = [], []
    for t in tuples:
        if cs(t[0]) not in seen:
            seen.append(cs(t[0]))
    for o in seen:
        out.extend(t for t in tuples if cs(t[0]) == o)
    return out


def generate(ctx):
    rng = ctx.rng
    for _ in range(ctx.n(22000, 350000)):
        r = rng.random()
        if r < 0.3:
            kind = rng.choice(SET_KINDS)
            a, b, rel = _relation_labels(kind, rng)
            c = None
            if rng.random() < 0.25 and kind != 'auto' and not kind.startswith('hier'):
                c, _, _ = _relation_labels(kind, rng)
                if rng.random() < 0.5:
                    c = list(a)
            other_form = rng.choice(['index', 'index', 'list', 'array'])
            if rng.random() < 0.08 and kind != 'auto':
                # an empty receiver: whatever the operation returns for it must still be a set of labels
                a, b, rel = [], (a if rng.random() < 0.7 else b), 'empty_receiver'
            if other_form != 'index' and not kind.startswith('hier') and b and rng.random() < 0.2:
                # a plain list / array operand may repeat labels; the result may not
                b = list(b) + [rng.choice(b) for _ in range(rng.randint(1, 2))]
                rng.shuffle(b)
                rel = rel + '+other_repeats'
            yield {'t': 'setop', 'kind': kind, 'op': rng.choice(['union', 'intersection', 'difference']), 'a': a, 'b': b, 'c': c,
                   'rel': rel, 'other_form': other_form, 'go': rng.random() < 0.25}
        elif r < 0.62:
            kind = rng.choice(_LABEL_KINDS)
            a, b, rel = _relation_labels(kind, rng)
            da, db, ops = rng.choice(COMBOS)
            case = {'t': 'series_op', 'kind': kind, 'la': a, 'lb': b, 'rel': rel, 'da': da, 'db': db, 'op': rng.choice(ops),
                    'va': _vals(da, len(a), rng), 'vb': _vals(db, len(b), rng), 'perm_seed': rng.randrange(1 << 30)}
            if rng.random() < 0.15 and kind in ('auto', 'int', 'str', 'IndexDate') and da == db and len(a) >= 2:
                # the second operand is a positional slice of the first (reversed, stepped, offset): its labels are the sliced labels,
                # whatever shortcut the index took while slicing
                sl = rng.choice([(None, None, -1), (None, None, 2), (1, None, 2), (None, None, -2), (1, None, None), (None, -1, None), (None, None, 3)])
                case['derive_b'] = sl
                case['lb'] = list(a[slice(*sl)])
                case['vb'] = list(case['va'][slice(*sl)])
                case['rel'] = 'derived_slice'
            yield case
        elif r < 0.82:
            rk, ck = rng.choice(['str', 'int', 'IndexDate', 'auto', 'hier2']), rng.choice(['str', 'int', 'negint', 'auto'])
            ra, rb, rrel = _relation_labels(rk, rng, 4)
            ca, cb, crel = _relation_labels(ck, rng, 4)
            da, db, ops = rng.choice(COMBOS)
            # per-column dtypes: mostly the combo's dtype, sometimes another numeric to make several blocks
            def cols(n, d):
                return [d if rng.random() < 0.75 or d not in ('int64', 'float64') else rng.choice(['int64', 'float64']) for _ in range(n)]
            dta, dtb = cols(len(ca), da), cols(len(cb), db)
            yield {'t': 'frame_op', 'rk': rk, 'ck': ck, 'ra': ra, 'rb': rb, 'ca': ca, 'cb': cb, 'rrel': rrel, 'crel': crel,
                   'dta': dta, 'dtb': dtb, 'op': rng.choice(ops),
                   'cells_a': [[rng.choice(POOLS[d]) for d in dta] for _ in ra], 'cells_b': [[rng.choice(POOLS[d]) for d in dtb] for _ in rb],
                   'lay_seed': rng.randrange(1 << 30), 'perm_seed': rng.randrange(1 << 30)}
        elif r < 0.95:
            ck = rng.choice(['str', 'int', 'negint'])
            ca, lb, crel = _relation_labels(ck, rng, 4)
            da, db, ops = rng.choice(COMBOS[:4])
            nr = rng.randint(1, 3)
            via_t = rng.random() < 0.5
            if via_t:
                # axis-1 application: the Series (or array) is aligned to the ROWS; square and non-square frames
                nr = len(ca) if rng.random() < 0.5 else rng.randint(1, 4)
            yield {'t': 'frame_series_op', 'ck': ck, 'ca': ca, 'lb': lb, 'crel': crel, 'da': da, 'db': db, 'op': rng.choice(ops), 'via_t': via_t,
                   'other_form': rng.choice(['series', 'series', 'array']),
                   'cells_a': [[rng.choice(POOLS[da]) for _ in ca] for _ in range(nr)], 'vb': _vals(db, len(lb), rng), 'lay_seed': rng.randrange(1 << 30)}
        elif r < 0.965:
            # matrix product between labelled operands: the contracted axis is paired by label as for every other operator
            kind = rng.choice(['str', 'int', 'negint'])
            k = rng.randint(1, 4)
            labs = L.flat_labels(kind, k, rng)
            k = len(labs)
            perm = list(labs)
            rel = 'identical'
            if rng.random() < 0.75 and k > 1:
                rng.shuffle(perm)
                rel = 'permuted' if perm != labs else 'identical'
            form = rng.choice(['SS', 'FS', 'SF', 'FF'])
            nl, nr_ = rng.randint(1, 3), rng.randint(1, 3)
            dt = rng.choice(['int64', 'float64'])
            pool = [1, 2, 3, -4, 7, 5, -2, 0] if dt == 'int64' else [1.0, 0.5, 2.5, -3.75, 10.0, 4.0]
            yield {'t': 'matmul', 'kind': kind, 'la': labs, 'lb': perm, 'rel': rel, 'form': form, 'dt': dt,
                   'left': [[rng.choice(pool) for _ in range(k)] for _ in range(nl)], 'right': [[rng.choice(pool) for _ in range(nr_)] for _ in range(k)],
                   'lay_seed': rng.randrange(1 << 30)}
        else:
            kind = rng.choice(['str', 'int', 'IndexDate', 'auto'])
            a, _, _ = _relation_labels(kind, rng)
            da, db, ops = rng.choice(COMBOS[:4])
            yield {'t': 'scalar_op', 'kind': kind, 'la': a, 'da': da, 'va': _vals(da, len(a), rng), 'op': rng.choice(ops),
                   'other': rng.choice(POOLS[db]), 'form': rng.choice(['scalar', 'rscalar', 'array'])}


# --------------------------------------------------------------------------------------
# references

def _np_scalar(v, dt):
    return V.to_array([v], dt)[0]


def _apply(op, x, y):
    with warnings.catch_warnings():
        warnings.simplefilter('ignore')
        with np.errstate(all='ignore'):
            return getattr(O, op)(x, y)


def _cell_reference(op, a, da, b, db):
    """expected canonical cell, or None when the cell is not judged (integer and float evaluation of
    the operator disagree, or the scalar operator raises)."""
    try:
        r1 = _apply(op, _np_scalar(a, da), _np_scalar(b, db))
    except Exception:
        return None
    if da in ('int64', 'bool') and db in ('int64', 'bool', 'float64') or da == 'float64' and db in ('int64', 'bool'):
        try:
            r2 = _apply(op, np.float64(a), np.float64(b))
        except Exception:
            return None
        if op not in COMPARE + LOGICAL and not ceq(cs(r1), cs(r2)):
            return None
    return cs(r1)


def _is_missing_cs(c):
    return c == ('None', None) or (c[0] == 'float' and c[1] == canon.NAN) or (c[0] in ('dt64', 'td64') and c[2] == canon.NAT)


def _cell_eq(got, exp):
    if ceq(got, exp) or canon.leq(got, exp):
        return True
    if _is_missing_cs(got) and _is_missing_cs(exp):
        return True
    # a Boolean result may be presented as object/bool after alignment
    return False


def _onesided_ok(op, present, dt, got):
    """one-sided arithmetic cell: missing, unless IEEE defines the value (pow(1, NaN) = 1, pow(NaN, 0) = 1)."""
    if _is_missing_cs(got):
        return True
    if op == 'pow':
        return True  # pow with a missing operand has IEEE special cases on both sides: not judged
    return False


def _index(kind, labels, go=False):
    import static_frame as sf
    if kind.startswith('hier') and labels and len(labels[0]) == 2:
        # a full product in product order is built by from_product (its branches share one inner Index object)
        outers, inners = list(dict.fromkeys(t[0] for t in labels)), list(dict.fromkeys(t[1] for t in labels))
        if len(outers) >= 2 and [tuple(t) for t in labels] == [(o, i) for o in outers for i in inners]:
            return (sf.IndexHierarchyGO if go else sf.IndexHierarchy).from_product(outers, inners)
    return L.build_index(kind, labels, go=go) if go else L.build_index(kind, labels)


def _series(kind, labels, vals, dt):
    import static_frame as sf
    return sf.Series(V.to_array(vals, dt), index=_index(kind, labels))


# --------------------------------------------------------------------------------------

def check(case, ctx):
    t = case['t']
    ctx.tally('case_type', t)
    return {'setop': _check_setop, 'series_op': _check_series_op, 'frame_op': _check_frame_op,
            'frame_series_op': _check_frame_series, 'scalar_op': _check_scalar, 'matmul': _check_matmul}[t](case, ctx)


def _check_matmul(case, ctx):
    import static_frame as sf
    kind, la, lb, form, dt = case['kind'], case['la'], case['lb'], case['form'], case['dt']
    left, right = case['left'], case['right']  # left: rows x k (columns la); right: k x cols (rows lb)
    klass = {'t': 'matmul', 'form': form, 'rel': case['rel'], 'kind': kind, 'dt': dt}
    ctx.evaluation(repr(case), case['rel'] == 'permuted')
    ctx.tally('matmul_form', form + ':' + case['rel'])
    rows_l = ['r%d' % i for i in range(len(left))]
    cols_r = ['c%d' % j for j in range(len(right[0]))]
    if form[0] == 'S':
        a = sf.Series(V.to_array(left[0], dt), index=_index(kind, la))
        left = left[:1]
    else:
        a = sf.Frame(np.array(left, dtype=dt).reshape(len(left), len(la)), index=rows_l, columns=_index(kind, la))
    if form[1] == 'S':
        b = sf.Series(V.to_array([r[0] for r in right], dt), index=_index(kind, lb))
        right = [r[:1] for r in right]
    else:
        b = sf.Frame(np.array(right, dtype=dt).reshape(len(lb), len(right[0])), index=_index(kind, lb), columns=cols_r)
    try:
        out = a @ b
    except Exception as e:
        ctx.violation('operator_raised', detail={'op': 'matmul', 'exception': type(e).__name__, 'message': str(e)[:200]}, klass=dict(klass, exception=type(e).__name__))
        return
    pos_b = {cs(l): i for i, l in enumerate(lb)}
    exp = [[sum(left[i][p] * right[pos_b[cs(l)]][j] for p, l in enumerate(la)) for j in range(len(right[0]))] for i in range(len(left))]
    if form == 'SS':
        got, want = [[out]], exp
        labels_ok = not isinstance(out, (sf.Series, sf.Frame))
    elif form == 'FS':
        labels_ok = isinstance(out, sf.Series) and list(out.index) == rows_l
        got = [[v] for v in out.values.tolist()] if labels_ok else None
        want = exp
    elif form == 'SF':
        labels_ok = isinstance(out, sf.Series) and list(out.index) == cols_r[:len(right[0])]
        got = [out.values.tolist()] if labels_ok else None
        want = exp
    else:
        labels_ok = isinstance(out, sf.Frame) and list(out.index) == rows_l and list(out.columns) == cols_r
        got = out.values.tolist() if labels_ok else None
        want = exp
    if not labels_ok:
        ctx.violation('operator_labels_not_union', detail={'op': 'matmul', 'form': form, 'got': repr(out)[:300]}, klass=klass)
        return
    if not all(abs(float(g) - float(w)) <= 1e-9 * max(1.0, abs(float(w))) for gr, wr in zip(got, want) for g, w in zip(gr, wr)) or len(got) != len(want):
        ctx.violation('operator_cell', detail={'op': 'matmul', 'form': form, 'left_labels': repr(la), 'right_labels': repr(lb), 'expected': want, 'got': got}, klass=klass)


def _members(got, want):
    rest = list(want)
    for g in got:
        for i, w in enumerate(rest):
            if canon.leq(g, w):
                del rest[i]
                break
        else:
            return False
    return not rest


def _check_setop(case, ctx):
    import static_frame as sf
    kind, op, a, b, c = case['kind'], case['op'], case['a'], case['b'], case['c']
    ca, cb = [cs(x) for x in a], [cs(x) for x in b]
    nontrivial = (case['rel'].split('+')[0] in ('permuted', 'overlap', 'subset', 'disjoint', 'product_one_inner_label_differs') and len(a) >= 1) or case['rel'].startswith('empty_receiver')
    ctx.evaluation(repr(case), nontrivial)
    ctx.tally('setop', f"{op}:{case['rel']}")
    ctx.tally('set_kind', kind)
    ctx.sample({'setop': op, 'kind': kind, 'a': repr(a), 'b': repr(b), 'c': repr(c)})
    klass = {'t': 'setop', 'op': op, 'kind': kind, 'rel': case['rel'], 'other_form': case['other_form'], 'three': c is not None}
    go = bool(case.get('go')) and kind not in ('auto', 'range', 'IndexDate', 'IndexYearMonth', 'bool')
    ia = _index(kind if kind != 'auto' else 'range', a, go=go)
    others = [b] + ([c] if c is not None and op != 'difference' else [])
    args = []
    for o in others:
        if case['other_form'] == 'index' or kind.startswith('hier'):
            args.append(_index(kind if kind != 'auto' else 'range', o))
        elif case['other_form'] == 'list':
            args.append(list(o))
        else:
            if kind in ('IndexDate', 'IndexYearMonth'):
                args.append(np.array(o, dtype=ia.values.dtype))
            else:
                # the array an index of these labels would hold, with the operand's repetitions restored
                uniq = []
                for x in o:
                    if all(cs(x) != cs(u) for u in uniq):
                        uniq.append(x)
                base = L.build_index(kind, uniq).values
                args.append(base[[next(i for i, u in enumerate(uniq) if cs(u) == cs(x)) for x in o]] if len(o) else base)
    try:
        out = getattr(ia, op)(*args)
    except Exception as e:
        ctx.violation('set_operation_raised', detail={'exception': type(e).__name__, 'message': str(e)[:300]}, klass=dict(klass, exception=type(e).__name__))
        return
    # model
    if op == 'union':
        model = list(a)
        for o in others:
            for x in o:
                if all(not canon.leq(cs(x), cs(m)) for m in model):
                    model.append(x)
    elif op == 'intersection':
        model = list(a)
        for o in others:
            model = [m for m in model if any(canon.leq(cs(m), cs(x)) for x in o)]
    else:
        model = [m for m in a if all(not canon.leq(cs(m), cs(x)) for x in b)]
    got = [cs(x) for x in canon.index_labels(out)]
    want = [cs(x) for x in model]
    if len(set(map(repr, got))) != len(got):
        ctx.violation('set_operation_repeated_label', detail={'got': got}, klass=klass)
        return
    if not _members(got, want):
        ctx.violation('set_operation_membership', detail={'expected': want, 'got': got}, klass=klass)
        return
    if go:
        # a set operation returns a new index: growing the grow-only operand afterwards (or the result) must not show in the other
        fresh = ('zz', 999) if kind.startswith('hier') else ('ZZZ' if kind in ('str', 'mixed', 'tuple') else 98765)
        ctx.tally('setop_receiver', 'grow_only')
        try:
            ia.append(fresh)
        except Exception as e:
            ctx.tally('setop_growth_raised', type(e).__name__)
        else:
            again = [cs(x) for x in canon.index_labels(out)]
            if again != got or (fresh in out):
                ctx.violation('set_operation_result_follows_operand_growth', detail={'before': got, 'after': again}, klass=klass)
                return
    identical = all(len(o) == len(a) and all(canon.leq(x, y) for x, y in zip([cs(v) for v in o], ca)) for o in others)
    indices_only = case['other_form'] == 'index' or kind.startswith('hier')  # the order clause is about operands that are indices
    if identical and indices_only and op in ('union', 'intersection') and not canon.seq_eq(got, ca, canon.leq):
        ctx.violation('set_operation_identical_operands_reordered', detail={'expected': ca, 'got': got}, klass=klass)


def _mapping(out):
    labs = [cs(x) for x in canon.index_labels(out.index)]
    return dict(zip(labs, canon.arr_cells(out.values))), labs


def _check_series_op(case, ctx):
    import random
    import static_frame as sf
    kind, la, lb, da, db, op = case['kind'], case['la'], case['lb'], case['da'], case['db'], case['op']
    va, vb = case['va'], case['vb']
    sa, sb = _series(kind, la, va, da), _series(kind, lb, vb, db)
    if case.get('derive_b'):
        sb = sa.iloc[slice(*case['derive_b'])]
        ctx.tally('series_operand', 'derived_slice')
    same = [cs(x) for x in la] == [cs(x) for x in lb]
    ctx.evaluation(repr(case), not same)
    ctx.tally('series_op', f"{op}:{da}|{db}:{case['rel']}")
    ctx.sample({'series_op': op, 'kind': kind, 'la': repr(la), 'lb': repr(lb), 'da': da, 'db': db})
    klass = {'t': 'series_op', 'op': op, 'da': da, 'db': db, 'kind': kind, 'rel': case['rel'], 'same_index': same,
             'non_numeric': da in ('<U2', 'M8[D]', 'm8[D]') or db in ('<U2', 'M8[D]', 'm8[D]'),
             'opclass': 'arith' if op in ARITH else ('compare' if op in COMPARE else 'logical')}
    try:
        out = _apply(op, sa, sb)
        exc = None
    except Exception as e:
        out, exc = None, e
    # raw NumPy reference for the raising decision
    if exc is not None:
        pa_ = {cs(l): v for l, v in zip(la, va)}
        pb_ = {cs(l): v for l, v in zip(lb, vb)}
        both = [k for k in pa_ if k in pb_]
        raw_raises = _raw_raises(op, [pa_[k] for k in both], da, [pb_[k] for k in both], db, same)
        if raw_raises or (not same and op in LOGICAL):
            ctx.tally('expected_errors', type(exc).__name__)
            return
        ctx.violation('operator_raised', detail={'exception': type(exc).__name__, 'message': str(exc)[:300]}, klass=dict(klass, exception=type(exc).__name__))
        return
    if not isinstance(out, sf.Series):
        ctx.violation('operator_result_kind', detail={'got': type(out).__name__}, klass=klass)
        return
    got, labs = _mapping(out)
    pa = {cs(l): v for l, v in zip(la, va)}
    pb = {cs(l): v for l, v in zip(lb, vb)}
    union = list(dict.fromkeys(list(pa) + list(pb)))
    if sorted(map(repr, labs)) != sorted(map(repr, union)) or len(labs) != len(union):
        if not _members(labs, union):
            ctx.violation('operator_labels_not_union', detail={'expected': union, 'got': labs}, klass=klass)
            return
    if same and labs != [cs(x) for x in la]:
        ctx.violation('operator_equal_indices_reordered', detail={'expected': [cs(x) for x in la], 'got': labs}, klass=klass)
        return
    for lab in union:
        g = _lookup(got, lab)
        if g is None:
            ctx.violation('operator_labels_not_union', detail={'missing': lab}, klass=klass)
            return
        if lab in pa and lab in pb:
            e = _cell_reference(op, pa[lab], da, pb[lab], db)
            if e is None:
                ctx.tally('not_judged', 'int_float_disagree_or_scalar_raises')
                continue
            if not _cell_eq(g, e):
                ctx.violation('operator_cell', detail={'label': lab, 'a': cs(pa[lab]), 'b': cs(pb[lab]), 'expected': e, 'got': g}, klass=klass)
                return
        elif op in ARITH:
            if not _onesided_ok(op, pa.get(lab, pb.get(lab)), da, g):
                ctx.violation('operator_one_sided_cell_not_missing', detail={'label': lab, 'got': g}, klass=klass)
                return
    if same:
        try:
            raw = _apply(op, V.to_array(va, da), V.to_array(vb, db))
        except Exception:
            raw = None
        if raw is not None and str(raw.dtype) != str(out.values.dtype):
            ctx.violation('operator_equal_indices_dtype', detail={'expected': str(raw.dtype), 'got': str(out.values.dtype)}, klass=klass)
            return
    # permutation invariance
    prng = random.Random(case['perm_seed'])
    ia, ib = list(range(len(la))), list(range(len(lb)))
    prng.shuffle(ia)
    prng.shuffle(ib)
    if kind.startswith('hier') or kind == 'auto':
        return
    sa2 = _series(kind, [la[i] for i in ia], [va[i] for i in ia], da)
    sb2 = _series(kind, [lb[i] for i in ib], [vb[i] for i in ib], db)
    try:
        out2 = _apply(op, sa2, sb2)
    except Exception as e:
        ctx.violation('operator_permutation_changes_outcome', detail={'exception': type(e).__name__}, klass=klass)
        return
    got2, _ = _mapping(out2)
    if set(map(repr, got2)) != set(map(repr, got)) or any(not _cell_eq(got2[k], got[k]) for k in got):
        ctx.violation('operator_permutation_changes_mapping', detail={'first': repr(got)[:400], 'second': repr(got2)[:400]}, klass=klass)


def _lookup(mapping, lab):
    if lab in mapping:
        return mapping[lab]
    for k, v in mapping.items():
        if canon.leq(k, lab):
            return v
    return None


def _raw_raises(op, va, da, vb, db, same):
    try:
        n = min(len(va), len(vb))
        _apply(op, V.to_array(va[:n], da), V.to_array(vb[:n], db))
        return False
    except Exception:
        return True


def _frame(rk, ck, rows, cols, dts, cells, lay_seed):
    import random
    spec = F.FrameSpec(rows, cols, rk, ck, dts, cells, None)
    lays = F.layouts(dts)
    lay = random.Random(lay_seed).choice(lays)
    return F.build_frame(spec, lay), lay


def _check_frame_op(case, ctx):
    import random
    import static_frame as sf
    op = case['op']
    ra, rb, ca, cb = case['ra'], case['rb'], case['ca'], case['cb']
    if not ca or not cb or not ra or not rb:
        return
    fa, laya = _frame(case['rk'], case['ck'], ra, ca, case['dta'], case['cells_a'], case['lay_seed'])
    fb, layb = _frame(case['rk'], case['ck'], rb, cb, case['dtb'], case['cells_b'], case['lay_seed'] + 1)
    same = [cs(x) for x in ra] == [cs(x) for x in rb] and [cs(x) for x in ca] == [cs(x) for x in cb]
    ctx.evaluation(repr(case), not same)
    ctx.tally('frame_op', f"{op}:{case['rrel']}/{case['crel']}")
    ctx.tally('frame_layouts', f'{len(laya)}x{len(layb)}')
    klass = {'t': 'frame_op', 'op': op, 'rrel': case['rrel'], 'crel': case['crel'], 'same_index': same,
             'non_numeric': any(d in ('<U2', 'M8[D]', 'm8[D]') for d in case['dta'] + case['dtb']),
             'opclass': 'arith' if op in ARITH else ('compare' if op in COMPARE else 'logical'),
             'dtypes_a': sorted(set(case['dta'])), 'dtypes_b': sorted(set(case['dtb']))}
    ctx.sample({'frame_op': op, 'rows': [repr(ra), repr(rb)], 'cols': [repr(ca), repr(cb)], 'layouts': [F.layout_name(laya), F.layout_name(layb)]})
    try:
        out = _apply(op, fa, fb)
    except Exception as e:
        if op in LOGICAL and not same:
            ctx.tally('expected_errors', type(e).__name__)
            return
        if _frame_raw_raises(case, op):
            ctx.tally('expected_errors', type(e).__name__)
            return
        ctx.violation('operator_raised', detail={'exception': type(e).__name__, 'message': str(e)[:300]}, klass=dict(klass, exception=type(e).__name__))
        return
    A = {(cs(r), cs(c)): (case['cells_a'][i][j], case['dta'][j]) for i, r in enumerate(ra) for j, c in enumerate(ca)}
    B = {(cs(r), cs(c)): (case['cells_b'][i][j], case['dtb'][j]) for i, r in enumerate(rb) for j, c in enumerate(cb)}
    urows = list(dict.fromkeys([cs(r) for r in ra] + [cs(r) for r in rb]))
    ucols = list(dict.fromkeys([cs(c) for c in ca] + [cs(c) for c in cb]))
    grows = [cs(x) for x in canon.index_labels(out.index)]
    gcols = [cs(x) for x in canon.index_labels(out.columns)]
    if not _members(grows, urows) or not _members(gcols, ucols):
        ctx.violation('operator_labels_not_union', detail={'expected_rows': urows, 'got_rows': grows, 'expected_cols': ucols, 'got_cols': gcols}, klass=klass)
        return
    if same and (grows != urows or gcols != ucols):
        ctx.violation('operator_equal_indices_reordered', detail={'got_rows': grows, 'got_cols': gcols}, klass=klass)
        return
    cols = canon.frame_columns(out)
    G = {}
    for j, c in enumerate(gcols):
        cells = canon.arr_cells(cols[j])
        for i, r in enumerate(grows):
            G[(r, c)] = cells[i]
    for r in urows:
        for c in ucols:
            g = G.get((r, c))
            if g is None:
                g = next((v for (rr, cc), v in G.items() if canon.leq(rr, r) and canon.leq(cc, c)), None)
            if (r, c) in A and (r, c) in B:
                (a, da), (b, db) = A[(r, c)], B[(r, c)]
                e = _cell_reference(op, a, da, b, db)
                if e is None:
                    continue
                if not _cell_eq(g, e):
                    ctx.violation('operator_cell', detail={'cell': (r, c), 'a': cs(a), 'b': cs(b), 'expected': e, 'got': g}, klass=klass)
                    return
            elif op in ARITH:
                if not _onesided_ok(op, None, None, g):
                    ctx.violation('operator_one_sided_cell_not_missing', detail={'cell': (r, c), 'got': g}, klass=klass)
                    return
    if same:
        for j in range(len(ca)):
            try:
                raw = _apply(op, V.to_array([row[j] for row in case['cells_a']], case['dta'][j]), V.to_array([row[j] for row in case['cells_b']], case['dtb'][j]))
            except Exception:
                continue
            if str(raw.dtype) != str(cols[j].dtype):
                ctx.violation('operator_equal_indices_dtype', detail={'column': j, 'expected': str(raw.dtype), 'got': str(cols[j].dtype),
                                                                    'layouts': [F.layout_name(laya), F.layout_name(layb)]},
                              klass=dict(klass, layouts_equal=F.layout_name(laya) == F.layout_name(layb)))
                return


def _frame_raw_raises(case, op):
    A = {(cs(r), cs(c)): (case['cells_a'][i][j], case['dta'][j]) for i, r in enumerate(case['ra']) for j, c in enumerate(case['ca'])}
    B = {(cs(r), cs(c)): (case['cells_b'][i][j], case['dtb'][j]) for i, r in enumerate(case['rb']) for j, c in enumerate(case['cb'])}
    for k in A:
        if k in B:
            try:
                _apply(op, V.to_array([A[k][0]], A[k][1]), V.to_array([B[k][0]], B[k][1]))
            except Exception:
                return True
    return False


def _check_frame_series(case, ctx):
    import static_frame as sf
    op, ca, lb = case['op'], case['ca'], case['lb']
    if not ca:
        return
    via_t = case.get('via_t', False)
    form = case.get('other_form', 'series')
    nr = len(case['cells_a'])
    if via_t:
        # the labelled axis of the operand is the ROWS: build the frame transposed (rows labelled by `ca`, auto columns)
        cells_t = [[case['cells_a'][i][j] for i in range(nr)] for j in range(len(ca))]
        fa, lay = _frame(case['ck'], 'auto', ca, list(range(nr)), [case['da']] * nr, cells_t, case['lay_seed'])
    else:
        fa, lay = _frame('auto', case['ck'], list(range(nr)), ca, [case['da']] * len(ca), case['cells_a'], case['lay_seed'])
    if form == 'array':
        if len(lb) != len(ca):
            return
        lb = list(ca)
        other = V.to_array(case['vb'], case['db'])
    else:
        other = _series(case['ck'], lb, case['vb'], case['db'])
    ctx.evaluation(repr(case), [cs(x) for x in ca] != [cs(x) for x in lb] or via_t)
    ctx.tally('frame_series_op', f"{op}:{case['crel']}:{'via_T' if via_t else 'axis0'}:{form}:{'square' if nr == len(ca) else 'rect'}")
    klass = {'t': 'frame_series_op', 'op': op, 'crel': case['crel'], 'opclass': 'arith' if op in ARITH else 'compare', 'via_t': via_t, 'form': form,
             'square': nr == len(ca)}
    pb = {cs(l): v for l, v in zip(lb, case['vb'])}
    try:
        out = _apply(op, fa.via_T if via_t else fa, other)
    except Exception as e:
        for j, c in enumerate(ca):
            if cs(c) in pb:
                for i in range(nr):
                    try:
                        _apply(op, V.to_array([case['cells_a'][i][j]], case['da']), V.to_array([pb[cs(c)]], case['db']))
                    except Exception:
                        ctx.tally('expected_errors', type(e).__name__)
                        return
        ctx.violation('operator_raised', detail={'exception': type(e).__name__, 'message': str(e)[:300]}, klass=dict(klass, exception=type(e).__name__))
        return
    ulabs = list(dict.fromkeys([cs(c) for c in ca] + list(pb)))
    glabs = [cs(x) for x in canon.index_labels(out.index if via_t else out.columns)]
    other_axis_len = len(out.columns) if via_t else len(out.index)
    if not _members(glabs, ulabs) or other_axis_len != nr:
        ctx.violation('operator_labels_not_union', detail={'expected': ulabs, 'got': glabs}, klass=klass)
        return
    if [cs(x) for x in ca] == [cs(x) for x in lb] and glabs != [cs(x) for x in ca]:
        ctx.violation('operator_equal_indices_reordered', detail={'expected': [cs(x) for x in ca], 'got': glabs}, klass=klass)
        return
    cols = canon.frame_columns(out)
    pos_a = {cs(c): j for j, c in enumerate(ca)}
    for j, c in enumerate(glabs):
        for i in range(nr):
            g = canon.arr_cells(cols[i])[j] if via_t else canon.arr_cells(cols[j])[i]
            if c in pos_a and c in pb:
                e = _cell_reference(op, case['cells_a'][i][pos_a[c]], case['da'], pb[c], case['db'])
                if e is not None and not _cell_eq(g, e):
                    ctx.violation('operator_cell', detail={'cell': (i, c), 'expected': e, 'got': g}, klass=klass)
                    return
            elif op in ARITH and not _onesided_ok(op, None, None, g):
                ctx.violation('operator_one_sided_cell_not_missing', detail={'cell': (i, c), 'got': g}, klass=klass)
                return


def _check_scalar(case, ctx):
    import static_frame as sf
    op, form = case['op'], case['form']
    s = _series(case['kind'], case['la'], case['va'], case['da'])
    other = case['other']
    ctx.evaluation(repr(case), len(case['la']) >= 2)
    ctx.tally('scalar_op', f'{op}:{form}')
    klass = {'t': 'scalar_op', 'op': op, 'form': form}
    arr = V.to_array(case['va'], case['da'])
    try:
        if form == 'scalar':
            out, raw = _apply(op, s, other), _apply(op, arr, other)
        elif form == 'rscalar':
            out, raw = _apply(op, other, s), _apply(op, other, arr)
        else:
            o = np.array([other] * len(arr))
            out, raw = _apply(op, s, o), _apply(op, arr, o)
    except Exception as e:
        ctx.tally('expected_errors', type(e).__name__)
        return
    if not isinstance(out, sf.Series):
        ctx.violation('operator_result_kind', detail={'got': type(out).__name__}, klass=klass)
        return
    if [cs(x) for x in canon.index_labels(out.index)] != [cs(x) for x in canon.index_labels(s.index)]:
        ctx.violation('operator_labels_changed', detail={}, klass=klass)
        return
    if not canon.seq_eq(canon.arr_cells(out.values), canon.arr_cells(np.asarray(raw)), _cell_eq) or str(out.values.dtype) != str(np.asarray(raw).dtype):
        ctx.violation('operator_cell', detail={'expected': canon.arr_cells(np.asarray(raw)), 'got': canon.arr_cells(out.values)}, klass=klass)
