"""C19 — Quilt and Batch are faithful views over the Frames they hold."""
import os
import shutil
import tempfile

import numpy as np

from sfmon import canon
from sfmon.canon import cs
from sfmon.gen import frames as F
from sfmon.gen import keys as K
from sfmon.gen import values as V

PROPERTY = 'C19'
RULE = ('cases: (a) Quilt — a Bus of 1..4 Frames with aligned opposite-axis labels (in memory or lazily loaded from a zip-pickle store with '
        'max_persist in {None, 1, 2}), axis 0|1, retain_labels on|off, and an observation: shape / labels / values / to_frame / '
        'iloc / loc / getitem keys (spanning 0..k members, starting and stopping inside different members) / iter_array / iter_series / '
        'iter_tuple / iter_*_items / iter_window_items / head / tail / items; every observation is compared with the same observation '
        'on the concatenated Frame; (b) Batch — Frames under labels and a chain of <= 3 operations (selection, operator, reduction, '
        'apply, NA handling, sort, transpose); per-label results and the to_frame / to_bus exports are compared with the operation '
        'applied to each Frame and their concatenation. non-trivial = >= 2 member Frames; distinct = hash of the case')
EXPLANATION = 'reference Frame = Frame.from_concat / from_concat_items of the members (that constructor is monitored by C11); store reads are logged to show the Quilt serves partial selections without building the full Frame'
EXHAUSTIVE = {'quick': False, 'thorough': False}
ASSUMPTIONS = ['the library\'s own concatenation and Frame selection are the references (monitored by C11 and C04)', 'member Frames have unique labels along the Quilt axis unless labels are retained']
TIERS = {'quick': {'shards': 8, 'budget_s': 150, 'min_nontrivial': 2000},
         'thorough': {'shards': 16, 'budget_s': 1500, 'min_nontrivial': 30000}}
ANCHORS = {
    'static_frame.core.quilt': ['AxisMap.from_bus', 'Quilt._update_axis_labels', 'Quilt._extract_array', 'Quilt._extract', 'Quilt._axis_array', 'Quilt._axis_tuple',
                                'Quilt._axis_series', 'Quilt._axis_window_items', 'Quilt.to_frame', 'Quilt.values', 'Quilt._compound_loc_to_iloc'],
    'static_frame.core.batch': ['Batch.__init__', 'Batch._apply_attr', 'Batch.apply', 'Batch.to_frame', 'Batch.to_bus', 'Batch._ufunc_binary_operator',
                                'Batch._ufunc_axis_skipna', 'Batch._extract_iloc', 'Batch._extract_loc', 'Batch.apply_items'],
    'static_frame.core.bus': ['Bus._update_series_cache_iloc'],
}
REQUIRED_ANCHORS = ['quilt.AxisMap.from_bus', 'quilt.Quilt._extract', 'quilt.Quilt._axis_array', 'quilt.Quilt.to_frame',
                    'batch.Batch._apply_attr', 'batch.Batch.apply', 'batch.Batch.to_frame', 'batch.Batch.to_bus']

_DT = ['int64', 'float64', 'bool', '<U5', 'object']
_QOBS = ['shape', 'labels', 'values', 'to_frame', 'iloc', 'iloc', 'iloc', 'loc', 'loc', 'getitem', 'iter_array', 'iter_series', 'iter_tuple',
         'iter_array_items', 'iter_series_items', 'iter_window_items', 'iter_window_array_items', 'iter_window', 'iter_window_array', 'head', 'tail', 'items', 'contains', 'iloc_row', 'iloc_col']
_BOPS_2D = ['iloc', 'loc_cols', 'add', 'mul', 'eq', 'neg', 'apply_head', 'apply_fillna', 'apply_dropna', 'sort_index', 'sort_values', 'transpose',
            'head', 'tail', 'cumsum', 'drop', 'round', 'clip', 'isin', 'shift', 'roll', 'apply_items_head']
_BOPS_1D = ['getitem', 'sum', 'mean', 'max', 'count', 'loc_min']  # reduce a member to a Series: only as the last operation of a chain


TECHNIQUE = 'runtime monitoring: differential oracle (Quilt vs the concatenated Frame, Batch chain vs the per-frame results concatenated) with a store-read log showing that only the needed members were loaded'


def probes(ctx):
    m0 = {'rows': ['m0', 'm1'], 'cols': ['o0', 'o1'], 'dtypes': ['int64', 'int64'], 'cells': [[1, 2], [3, 4]], 'lay': 0}
    m1 = {'rows': ['m2', 'm3'], 'cols': ['o0', 'o1'], 'dtypes': ['int64', 'int64'], 'cells': [[5, 6], [7, 8]], 'lay': 0}
    base = {'members': [m0, m1], 'axis': 0, 'store': None, 'max_persist': None, 't': 'quilt', 'retain': False}
    return [dict(base, seed=sd, obs=['iloc', 'iloc', 'iloc', 'iloc', 'iter_array', 'items']) for sd in range(12)]


def _tame(v):
    if isinstance(v, int) and not isinstance(v, bool) and abs(v) > 2 ** 31:
        return v % 79
    if isinstance(v, (bytes, tuple)):
        return 'bt'
    return v


def generate(ctx):
    rng = ctx.rng
    for _ in range(ctx.n(4000, 70000)):
        k = rng.choice([1, 2, 2, 3, 3, 4])
        axis = rng.choice([0, 1])
        nopp = rng.randint(1, 4)
        opp = [f'o{i}' for i in range(nopp)]
        dts = [rng.choice(_DT) for _ in opp] if axis == 0 else None
        members = []
        counter = 0
        for i in range(k):
            n = rng.randint(1, 4) if rng.random() < 0.75 else rng.randint(5, 9)  # some long members: selections of several scattered positions inside one member
            own = [f'm{counter + j}' for j in range(n)]
            counter += n
            if axis == 0:
                cells = [[_tame(V.element(dt, rng)) for dt in dts] for _ in own]
                members.append({'rows': own, 'cols': opp, 'dtypes': dts, 'cells': cells, 'lay': rng.randrange(1 << 20)})
            else:
                cd = [rng.choice(_DT) for _ in own]
                cells = [[_tame(V.element(dt, rng)) for dt in cd] for _ in opp]
                members.append({'rows': opp, 'cols': own, 'dtypes': cd, 'cells': cells, 'lay': rng.randrange(1 << 20)})
        retain = rng.random() < 0.5
        if retain and rng.random() < 0.5:
            # retained labels allow members to repeat their own labels
            for m in members[1:]:
                if axis == 0 and len(m['rows']) <= len(members[0]['rows']):
                    m['rows'] = list(members[0]['rows'][:len(m['rows'])])
                elif axis == 1 and len(m['cols']) <= len(members[0]['cols']):
                    m['cols'] = list(members[0]['cols'][:len(m['cols'])])
        case = {'members': members, 'axis': axis, 'seed': rng.randrange(1 << 30), 'store': rng.choice([None, None, 'zip_pickle']),
                'max_persist': rng.choice([None, 1, 2])}
        if rng.random() < 0.6:
            case.update(t='quilt', retain=retain, obs=[rng.choice(_QOBS) for _ in range(rng.randint(2, 6))])
        else:
            ops = [rng.choice(_BOPS_2D) for _ in range(rng.randint(0, 2))]
            if rng.random() < 0.5 or not ops:
                ops.append(rng.choice(_BOPS_1D + _BOPS_2D))
            case.update(t='batch', ops=ops, export=rng.choice(['items', 'to_frame', 'to_bus', 'to_frame_axis1']))
        yield case


# --------------------------------------------------------------------------------------

def _frame(d, name):
    spec = F.FrameSpec(d['rows'], d['cols'], 'str', 'str', d['dtypes'], d['cells'], name)
    lays = F.layouts(d['dtypes'])
    return F.build_frame(spec, lays[d['lay'] % len(lays)])


class _ReadLog:
    """wraps the zip-pickle store's read methods to log which labels were read."""

    def __init__(self):
        self.reads = []
        self._undo = []

    def install(self):
        from static_frame.core.store_zip import _StoreZip
        log = self

        for name in ('read', 'read_many'):
            orig = _StoreZip.__dict__.get(name)
            if orig is None:
                continue

            def make(orig, name):
                def wrapper(self, *a, **kw):
                    if name == 'read_many':
                        labels = list(a[0]) if a else list(kw.pop('labels'))  # may be a generator: materialise once
                        log.reads.extend(labels)
                        return orig(self, labels, *a[1:], **kw)
                    log.reads.append(a[0] if a else kw.get('label'))
                    return orig(self, *a, **kw)
                return wrapper
            setattr(_StoreZip, name, make(orig, name))
            self._undo.append((name, orig))

    def remove(self):
        from static_frame.core.store_zip import _StoreZip
        for name, orig in self._undo:
            setattr(_StoreZip, name, orig)


def _make_bus(case, frames, tmp):
    import static_frame as sf
    labels = [f'F{i}' for i in range(len(frames))]
    bus = sf.Bus.from_frames([f.rename(l) for f, l in zip(frames, labels)])
    if case['store'] == 'zip_pickle':
        fp = os.path.join(tmp, 'bus.zip')
        bus.to_zip_pickle(fp)
        bus = sf.Bus.from_zip_pickle(fp, max_persist=case['max_persist'])
    return bus, labels


def check(case, ctx):
    tmp = tempfile.mkdtemp(prefix='sfmon-c19-') if case['store'] else None
    try:
        if case['t'] == 'quilt':
            return _check_quilt(case, ctx, tmp)
        return _check_batch(case, ctx, tmp)
    finally:
        if tmp:
            shutil.rmtree(tmp, ignore_errors=True)


def _snap_obs(x):
    import static_frame as sf
    if isinstance(x, (list, tuple)):
        return ('seq', tuple(_snap_obs(e) for e in x))
    if isinstance(x, (sf.Series, sf.Frame)) or hasattr(x, 'depth'):
        return ('snap', canon.snap(x))
    if isinstance(x, np.ndarray):
        return ('snap', canon.snap(x))
    return ('element', cs(x))


def _loose(g, e):
    """cells of a view vs cells of the concatenated Frame: value strength, plus NumPy's own promotions when the view
    consolidates a row member by member (int presented as the equal float, datetime64 as the equal date object)."""
    if canon.leq(g, e):
        return True
    if e[0] in ('int', 'float', 'bool', 'complex') and g[0] in ('int', 'float', 'bool', 'complex') and e[0] != 'bool' and g[0] != 'bool':
        try:
            return complex(canon._num(e)) == complex(canon._num(g))
        except Exception:
            return False
    if (e == ('None', None) or (e[0] in ('dt64', 'td64') and e[2] == canon.NAT) or e == ('float', canon.NAN)) and \
            (g == ('None', None) or (g[0] in ('dt64', 'td64') and g[2] == canon.NAT) or g == ('float', canon.NAN)):
        return True
    return False


def _obs_equal(a, b):
    if a[0] != b[0]:
        return False
    if a[0] == 'exc':
        return a[1] == b[1]
    if a[0] == 'seq':
        return len(a[1]) == len(b[1]) and all(_obs_equal(x, y) for x, y in zip(a[1], b[1]))
    if a[0] == 'element':
        return _loose(a[1], b[1])
    if isinstance(a[1], dict) and isinstance(b[1], dict) and a[1].get('k') == b[1].get('k') == 'Series' and a[1].get('name') != b[1].get('name'):
        # a row / column taken out of the Quilt is named by its label (with the Bus label when labels are retained), as in the Frame
        return False
    return canon.snap_values_eq(a[1], b[1], eq=_loose, check_dtype=False, check_name=False, check_cls=False)


def _freeze(d):
    return d


def _outcome(fn):
    try:
        return _snap_obs(fn()), None
    except Exception as e:
        return ('exc', type(e).__name__), e


def _key_class(desc, bounds):
    """input class of a positional key relative to the member boundaries: ascending within every member or not, empty or not."""
    n = bounds[-1]
    res = K.resolve_positional(n, desc)
    if res.error:
        return {'key_error': True}
    p = res.positions
    asc = all(p[i] < p[i + 1] for i in range(len(p) - 1))
    return {'key_empty': len(p) == 0, 'key_ascending': asc, 'key_kind': desc[0], 'key_reduce': res.reduce}


def _check_quilt(case, ctx, tmp):
    import random
    import static_frame as sf
    rng = random.Random(case['seed'])
    axis, retain = case['axis'], case['retain']
    frames = [_frame(d, None) for d in case['members']]
    bus, labels = _make_bus(case, frames, tmp)
    klass = {'t': 'quilt', 'axis': axis, 'retain': retain, 'store': case['store'], 'max_persist': case['max_persist'], 'members': len(frames)}
    ctx.tally('quilt', f"axis{axis}:retain{retain}:{case['store']}:{case['max_persist']}")
    own_key = 'rows' if axis == 0 else 'cols'
    own_labels = [x for d in case['members'] for x in d[own_key]]
    unique_own = len(set(own_labels)) == len(own_labels)
    if retain:
        ref = sf.Frame.from_concat_items(zip(labels, [f.rename(l) for f, l in zip(frames, labels)]), axis=axis)
    elif unique_own:
        ref = sf.Frame.from_concat(frames, axis=axis)
    else:
        ref = None
    log = _ReadLog() if case['store'] else None
    if log:
        log.install()
    try:
        try:
            q = sf.Quilt(bus, axis=axis, retain_labels=retain)
            q.shape
        except Exception as e:
            if ref is None:
                ctx.tally('expected_errors', 'non_unique_labels_without_retain:' + type(e).__name__)
                ctx.evaluation(repr(case), len(frames) >= 2)
                return
            ctx.violation('quilt_construction_raised', detail={'exception': type(e).__name__, 'message': str(e)[:300]}, klass=dict(klass, exception=type(e).__name__))
            return
        if ref is None:
            ctx.violation('quilt_accepted_duplicate_labels', detail={'labels': own_labels}, klass=klass)
            return
        bounds = [0]
        for d in case['members']:
            bounds.append(bounds[-1] + len(d[own_key]))
        nr, nc = ref.shape

        def scattered(desc, own):
            """with a long member on the Quilt axis, some own-axis keys become several ascending, unevenly spaced positions inside that
            member (a selection no slice can express), as a list, an array or a Boolean mask over the whole axis."""
            longs = [(bounds[i], bounds[i + 1]) for i in range(len(bounds) - 1) if bounds[i + 1] - bounds[i] >= 5]
            if not own or not longs or rng.random() > 0.8:
                return desc
            lo, hi = rng.choice(longs)
            k = rng.randint(min(4, hi - lo), min(6, hi - lo))
            pos = sorted(rng.sample(range(lo, hi), k))
            if rng.random() < 0.3:
                others = [p for p in range(bounds[-1]) if not lo <= p < hi]
                pos = sorted(pos + rng.sample(others, min(len(others), rng.randint(0, 2))))
            form = rng.choice(['list', 'array', 'bools'])
            ctx.tally('scattered_key', form)
            return ('bools', [p in pos for p in range(bounds[-1])]) if form == 'bools' else (form, pos)

        for obs in case['obs']:
            ctx.tally('quilt_observation', obs)
            k2 = dict(klass, obs=obs)
            fq = fr = None
            if obs == 'shape':
                fq, fr = (lambda: (q.shape, q.size, q.ndim)), (lambda: (ref.shape, ref.size, ref.ndim))
            elif obs == 'labels':
                fq, fr = (lambda: [q.index, q.columns, list(q.keys())]), (lambda: [ref.index, ref.columns, list(ref.keys())])
            elif obs == 'values':
                fq, fr = (lambda: q.values), (lambda: ref.values)
            elif obs == 'to_frame':
                fq, fr = (lambda: q.to_frame()), (lambda: ref)
            elif obs in ('iloc', 'iloc_row', 'iloc_col'):
                rk = K.gen_positional(nr, rng, allow_repeat=False)
                ck = K.gen_positional(nc, rng, allow_repeat=False)
                if obs == 'iloc_row':
                    ck = ('null',)
                if obs == 'iloc_col':
                    rk = ('null',)
                if axis == 0:
                    rk = scattered(rk, obs != 'iloc_col')
                else:
                    ck = scattered(ck, obs != 'iloc_row')
                own_desc, opp_desc = (rk, ck) if axis == 0 else (ck, rk)
                k2.update(_key_class(own_desc, bounds))
                k2['opposite_key'] = opp_desc[0]
                k2['opposite_key_empty'] = K.resolve_positional(nc if axis == 0 else nr, opp_desc).positions == []
                key = (K.realize(rk), K.realize(ck))
                k2['key'] = repr((rk, ck))[:200]
                fq, fr = (lambda: q.iloc[key]), (lambda: ref.iloc[key])
            elif obs == 'loc':
                rk = K.gen_positional(nr, rng, allow_repeat=False)
                ck = K.gen_positional(nc, rng, allow_repeat=False)
                if axis == 0:
                    rk = scattered(rk, True)
                else:
                    ck = scattered(ck, True)
                own_desc = rk if axis == 0 else ck
                k2.update(_key_class(own_desc, bounds))
                rres, cres = K.resolve_positional(nr, rk), K.resolve_positional(nc, ck)
                if rres.error or cres.error:
                    continue
                rl = [canon.index_labels(ref.index)[p] for p in rres.positions]
                cl = [canon.index_labels(ref.columns)[p] for p in cres.positions]
                rkey = rl[0] if rres.reduce else rl
                ckey = cl[0] if cres.reduce else cl
                k2['opposite_key_empty'] = (not cl) if axis == 0 else (not rl)
                k2['key'] = repr((rkey, ckey))[:200]
                fq, fr = (lambda: q.loc[rkey, ckey]), (lambda: ref.loc[rkey, ckey])
            elif obs == 'getitem':
                ck = K.gen_positional(nc, rng, allow_repeat=False)
                cres = K.resolve_positional(nc, ck)
                if cres.error:
                    continue
                cl = [canon.index_labels(ref.columns)[p] for p in cres.positions]
                ckey = cl[0] if cres.reduce else cl
                if axis == 1:
                    k2.update(_key_class(ck, bounds))
                else:
                    k2.update({'key_empty': False, 'key_ascending': True})
                    k2['opposite_key_empty'] = not cl
                k2['key'] = repr(ckey)[:200]
                fq, fr = (lambda: q[ckey]), (lambda: ref[ckey])
            elif obs in ('iter_array', 'iter_series', 'iter_tuple', 'iter_array_items', 'iter_series_items'):
                ax = rng.choice([0, 1])
                k2['iter_axis'] = ax
                kw = {'constructor': tuple} if obs == 'iter_tuple' else {}
                fq, fr = (lambda: list(getattr(q, obs)(axis=ax, **kw))), (lambda: list(getattr(ref, obs)(axis=ax, **kw)))
            elif obs in ('iter_window_items', 'iter_window_array_items', 'iter_window', 'iter_window_array'):
                ax = rng.choice([0, 1])
                size = rng.choice([1, 2, 3])
                k2['iter_axis'] = ax
                wkw = {}
                if rng.random() < 0.5:
                    # the other window arguments: which windows exist depends on them in the values flavours as in the items flavours
                    wkw = {'label_shift': rng.choice([0, 0, 1, 2, -1, -2, -3]), 'step': rng.choice([1, 1, 2]), 'start_shift': rng.choice([0, 0, 1]),
                           'size_increment': rng.choice([0, 0, 1])}
                    wkw = {k_: v_ for k_, v_ in wkw.items() if rng.random() < 0.6}
                k2['window_args'] = sorted(wkw)
                k2['key'] = repr((size, sorted(wkw.items())))
                fq, fr = (lambda: list(getattr(q, obs)(size=size, axis=ax, **wkw))), (lambda: list(getattr(ref, obs)(size=size, axis=ax, **wkw)))
            elif obs in ('head', 'tail'):
                c = rng.randint(1, 3)
                fq, fr = (lambda: getattr(q, obs)(c)), (lambda: getattr(ref, obs)(c))
            elif obs == 'items':
                fq, fr = (lambda: list(q.items())), (lambda: list(ref.items()))
            elif obs == 'contains':
                lab = rng.choice(canon.index_labels(ref.columns)) if nc else 'zz'
                fq, fr = (lambda: (lab in q, 'absent-label' in q)), (lambda: (lab in ref, 'absent-label' in ref))
            ctx.evaluation((repr(case['members']), axis, retain, case['store'], obs, k2.get('key')), len(frames) >= 2)
            reads_before = len(log.reads) if log else 0
            got, gexc = _outcome(fq)
            reads = (log.reads[reads_before:] if log else [])
            want, wexc = _outcome(fr)
            if not _obs_equal(got, want):
                ctx.violation('quilt_differs_from_concatenated_frame',
                              detail={'observation': obs, 'key': k2.get('key'), 'expected': canon.brief(want, 700), 'got': canon.brief(got, 700),
                                      'got_exception': str(gexc)[:200] if gexc else None},
                              klass=dict(k2, got_kind=got[0] if got[0] != 'exc' else 'exc:' + got[1], want_kind=want[0] if want[0] != 'exc' else 'exc:' + want[1]))
                return
            if log is not None and case['max_persist'] is not None and obs in ('iloc', 'loc') and k2.get('key_reduce') and axis == 0:
                ctx.tally('store_reads_for_single_member_selection', len(set(reads)))
                if len(set(reads)) > 1:
                    ctx.violation('quilt_read_more_members_than_needed', detail={'reads': [str(r) for r in reads], 'key': k2.get('key')}, klass=k2)
                    return
    finally:
        if log:
            log.remove()


# --------------------------------------------------------------------------------------
# Batch

def _shape(f):
    return f.shape


def _head1(f):
    return f.head(1)


def _fillna0(f):
    return f.fillna(0)


def _dropna(f):
    return f.dropna()


def _items_head(label, f):
    return f.head(2) if str(label).endswith(('0', '2')) else f.tail(1)


def _apply_op(x, op, rng_state, is_batch):
    """apply one operation to a Frame/Series (reference) or to a Batch."""
    import operator as O
    a = rng_state
    if op == 'iloc':
        return x.iloc[a['r'], a['c']] if not is_batch else x.iloc[a['r'], a['c']]
    if op == 'loc_cols':
        return x.loc[:, a['cols']]
    if op == 'getitem':
        return x[a['col']]
    if op == 'add':
        return x + 1
    if op == 'mul':
        return x * 2
    if op == 'eq':
        return x == a['v']
    if op == 'neg':
        return -x
    if op in ('sum', 'mean', 'max', 'cumsum'):
        return getattr(x, op)(axis=a['axis'], skipna=a['skipna'])
    if op == 'count':
        return x.count(axis=a['axis'])
    if op == 'loc_min':
        return x.loc_min(axis=a['axis'])
    if op == 'apply_head':
        return x.apply(_head1) if is_batch else _head1(x)
    if op == 'apply_items_head':
        return x.apply_items(_items_head) if is_batch else _items_head(a['label'], x)
    if op == 'apply_fillna':
        return x.apply(_fillna0) if is_batch else _fillna0(x)
    if op == 'apply_dropna':
        return x.apply(_dropna) if is_batch else _dropna(x)
    if op == 'sort_index':
        return x.sort_index(ascending=a['asc'])
    if op == 'sort_values':
        return x.sort_values(a['col'], ascending=a['asc'])
    if op == 'transpose':
        return x.transpose()
    if op == 'head':
        return x.head(a['n'])
    if op == 'tail':
        return x.tail(a['n'])
    if op == 'drop':
        return x.drop[a['col']]
    if op == 'round':
        return round(x, 1)
    if op == 'clip':
        return x.clip(lower=0, upper=2)
    if op == 'isin':
        return x.isin((1, 'a', True))
    if op == 'shift':
        return x.shift(1, fill_value=0)
    if op == 'roll':
        return x.roll(a['roll'][0], a['roll'][1], include_index=a['roll'][2], include_columns=a['roll'][3])
    raise KeyError(op)


def _check_batch(case, ctx, tmp):
    import random
    import static_frame as sf
    rng = random.Random(case['seed'])
    frames = [_frame(d, None) for d in case['members']]
    bus, labels = _make_bus(case, frames, tmp)
    klass = {'t': 'batch', 'ops': '+'.join(case['ops']), 'export': case['export'], 'store': case['store'], 'members': len(frames)}
    ctx.tally('batch_chain', '+'.join(case['ops']))
    ctx.evaluation(repr(case), len(frames) >= 2)
    # arguments drawn once, from the first member (opposite-axis labels are shared; own-axis ones are positional)
    first = frames[0]
    args = []
    for op in case['ops']:
        a = {'axis': rng.choice([0, 1]), 'skipna': rng.random() < 0.6, 'asc': rng.random() < 0.5, 'n': rng.randint(1, 3),
             'roll': (rng.choice([1, 1, 0, 2]), rng.choice([0, 0, 1]), rng.random() < 0.4, rng.random() < 0.4),
             'v': rng.choice([0, 1, 'a', True]), 'r': slice(0, rng.randint(1, 2)), 'c': slice(0, rng.randint(1, 2)),
             'col': None, 'cols': None}
        args.append(a)
    members = list(zip(labels, frames))
    # reference: apply the chain per frame
    ref = {}
    label_args = [set() for _ in case['ops']]
    for lab, f in members:
        x, err = f, None
        for si, (op, a) in enumerate(zip(case['ops'], args)):
            try:
                a_local = _local_args(a, x, lab)
                label_args[si].add(repr((a_local['col'], a_local['cols'])))
                x = _apply_op(x, op, a_local, False)
            except Exception as e:
                err = e
                break
        ref[lab] = ('exc', type(err).__name__) if err is not None else x
    if any(isinstance(v, tuple) and v and v[0] == 'exc' for v in ref.values()):
        ctx.tally('not_judged', 'operation_undefined_on_a_member')
        return
    if any(len(s_) > 1 for s_, op in zip(label_args, case['ops']) if op in ('getitem', 'loc_cols', 'sort_values', 'drop')):
        ctx.tally('not_judged', 'label_arguments_differ_between_members')
        return
    if any(not isinstance(v, (sf.Frame, sf.Series)) or 0 in v.shape for v in ref.values()):
        ctx.tally('not_judged', 'zero_sized_or_non_container_member_result')
        return
    if case['export'] == 'to_bus' and any(not isinstance(v, sf.Frame) for v in ref.values()):
        ctx.tally('not_judged', 'to_bus_of_series_results')
        return
    # batch: same chain
    try:
        b = sf.Batch(bus.items()) if case['store'] is None else sf.Batch(((l, bus[l]) for l in labels))
        x = b
        cur_first = first
        for op, a in zip(case['ops'], args):
            a_local = _local_args(a, cur_first, labels[0])
            x = _apply_op(x, op, a_local, True)
            cur_first = _apply_op(cur_first, op, a_local, False)
        export = case['export']
        if export == 'items':
            got = dict(x.items())
        elif export == 'to_bus':
            gb = x.to_bus()
            got = {l: gb[l] for l in gb.keys()}
        else:
            got = x.to_frame(axis=1 if export == 'to_frame_axis1' else 0)
    except Exception as e:
        if any(not isinstance(v, (sf.Frame, sf.Series)) for v in ref.values()) and case['export'] != 'items':
            ctx.tally('not_judged', 'export_of_non_container_results')
            return
        ctx.violation('batch_raised', detail={'exception': type(e).__name__, 'message': str(e)[:300]}, klass=dict(klass, exception=type(e).__name__))
        return
    if case['export'] in ('items', 'to_bus'):
        if list(got) != labels:
            ctx.violation('batch_labels', detail={'expected': labels, 'got': [str(k) for k in got]}, klass=klass)
            return
        for lab in labels:
            w, g = ref[lab], got[lab]
            if not _obs_equal(_snap_obs(w), _snap_obs(g)):
                ctx.violation('batch_result_differs_from_per_frame_result', detail={'label': lab, 'expected': canon.brief(_snap_obs(w), 500), 'got': canon.brief(_snap_obs(g), 500)}, klass=klass)
                return
        return
    # to_frame: concatenation of exactly the per-label results
    axis = 1 if case['export'] == 'to_frame_axis1' else 0
    vals = [ref[l] for l in labels]
    try:
        if all(isinstance(v, sf.Series) for v in vals):
            want = sf.Frame.from_concat(vals, axis=axis, index=labels if axis == 0 else None, columns=labels if axis == 1 else None)
        elif all(isinstance(v, sf.Frame) for v in vals):
            want = sf.Frame.from_concat_items(zip(labels, vals), axis=axis)
        else:
            ctx.tally('not_judged', 'export_of_non_container_results')
            return
    except Exception as e:
        ctx.tally('not_judged', 'reference_concatenation_raised:' + type(e).__name__)
        return
    if not _obs_equal(_snap_obs(want), _snap_obs(got)):
        ctx.violation('batch_export_differs_from_concatenation', detail={'expected': canon.brief(_snap_obs(want), 600), 'got': canon.brief(_snap_obs(got), 600)}, klass=klass)


def _local_args(a, x, label):
    import static_frame as sf
    out = dict(a, label=label)
    if isinstance(x, sf.Frame) and len(x.columns):
        labs = canon.index_labels(x.columns)
        out.update(col=labs[0], cols=labs[:2])
    elif isinstance(x, sf.Series) and len(x.index):
        labs = canon.index_labels(x.index)
        out.update(col=labs[0], cols=labs[:2])
    return out


def _label_args_signature(f):
    return (tuple(map(repr, canon.index_labels(f.columns)[:2])),)
