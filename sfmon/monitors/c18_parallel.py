"""C18 — parallel execution gives the same answer as sequential execution.

Three families of cases, each judged on RESULTS only (timing never decides a verdict):

* ``iter``   apply_pool on every Series / Frame iterator interface (values and items forms)
             against (a) the sequential ``apply`` of the same delegate (exact snapshot) and
             (b) a pairing model written from the statement: the i-th label yielded by plain
             iteration carries the result of the i-th input, computed in the harness.
* ``batch``  Batch(max_workers=k, chunksize=c, use_threads=t).op().export() against the
             sequential Batch and against the per-label model {label: func(frame)}.
* ``store``  zip stores written / read with write_/read_max_workers (+chunksize) through
             StoreConfig against the sequential form and against the frames / texts computed
             in the harness.

Schedule control: the task functions are picklable module-level callables that look their
input up (by a canonical digest) in a plan {digest: (input id, delay ms, fail?)}, sleep the
planned delay and append start/done lines to an O_APPEND log in a per-case scratch directory.
The OBSERVED completion order is recovered from that log; for n <= 4 tasks every one of the
n! orders is forced and must actually be observed with thread pools (REQUIRED_TALLIES).
For the pickle zip store, where the library offers no user function, an object cell whose
(un)pickling sleeps inside the worker process plays the same role.
"""
import itertools
import keyword
import os
import pickle
import shutil
import signal
import tempfile
import time
import zipfile
from io import StringIO

import numpy as np

from sfmon import canon
from sfmon.canon import cs, fp, veq
from sfmon.gen import frames as F
from sfmon.gen import labels as L
from sfmon.gen import values as V
from sfmon.runner import HarnessError

PROPERTY = 'C18'
RULE = ('cases = (container spec + block layout, iterator interface incl. values/items form and its arguments, result mode, '
        'dtype/name arguments, max_workers 1..8, chunksize 1..n+1, threads|processes, per-input delay schedule, failing inputs) '
        'for apply_pool; (frames, labels, Batch operation, export, pool configuration, schedule, failing inputs) for Batch; '
        '(frames, labels, zip format, direction, per-label configs, read label sequence, workers, chunksize, schedule) for stores. '
        'For n <= 4 tasks all n! completion orders are forced by delays with thread pools and read back from the task log. '
        'A case is non-trivial when it has >= 2 tasks and >= 2 workers (real reordering possible) or a failing task among >= 2; '
        'distinct = hash of the whole case description')
EXPLANATION = ('all n! completion orders for n in {2,3,4} are forced AND observed (task log) with thread pools on apply_pool and '
               'on Batch.apply; everything else is sampled')
EXHAUSTIVE = {'quick': False, 'thorough': False}
ASSUMPTIONS = [
    'the sequential form is apply()/Batch(max_workers=None)/StoreConfig without workers, as the statement names it; the pairing '
    'model (label i <-> result of input i, inputs from plain iteration of the items form) is computed in the harness',
    'inputs are identified inside workers by a canonical digest (sfmon.canon) of what the function received; equal inputs share a plan entry',
    'completion orders are evidence only: a forced order that was not observed makes the run inconclusive, never a violation',
    'a task that fails must surface as SOME exception from the pool form; its class is recorded, not demanded',
    'fork start method (Linux default): worker processes inherit the harness modules',
]
TIERS = {'quick': {'shards': 8, 'budget_s': 150, 'timeout_s': 300, 'min_nontrivial': 1200},
         'thorough': {'shards': 16, 'budget_s': 1500, 'timeout_s': 2400, 'min_nontrivial': 30000}}
ANCHORS = {
    'static_frame.core.node_iter': ['IterNodeDelegate._apply_iter_items_parallel', 'IterNodeDelegate.apply_pool',
                                    'IterNodeDelegate.apply', 'IterNodeDelegate.apply_iter_items', 'IterNode.get_delegate'],
    'static_frame.core.batch': ['Batch._apply_pool', 'Batch._apply_pool_except', 'Batch._apply_attr', 'Batch.apply',
                                'Batch.apply_except', 'Batch.apply_items', 'Batch.apply_items_except', 'Batch.to_frame',
                                'Batch.to_bus', 'call_func', 'call_func_items', 'call_attr', 'normalize_container'],
    'static_frame.core.store_zip': ['_StoreZip.read_many', '_StoreZip.write', '_StoreZip._payload_to_frame',
                                    'StoreZipPickle._payload_to_bytes', '_StoreZipDelimited._payload_to_bytes',
                                    '_StoreZipDelimited._build_frame', 'StoreZipPickle.read_many'],
    'static_frame.core.store': ['StoreConfigMap.__init__', 'StoreConfig.to_store_config_he', 'StoreConfigMap.from_initializer'],
}
REQUIRED_ANCHORS = ['node_iter.IterNodeDelegate._apply_iter_items_parallel', 'node_iter.IterNodeDelegate.apply_pool',
                    'batch.Batch._apply_pool', 'batch.Batch._apply_pool_except', 'batch.Batch._apply_attr',
                    'batch.Batch.apply', 'batch.Batch.apply_items', 'batch.Batch.apply_except', 'batch.Batch.to_frame',
                    'store_zip._StoreZip.read_many', 'store_zip._StoreZip.write', 'store.StoreConfigMap.__init__']

_PERMS = {n: list(itertools.permutations(range(n))) for n in (2, 3, 4)}


TECHNIQUE = 'runtime monitoring: differential oracle (apply_pool / parallel store reads vs the sequential result) under threads and processes, chunk sizes, failing tasks and worker counts'


def _perm_key(n, order):
    return f'n{n}:' + ','.join(str(i) for i in order)


REQUIRED_TALLIES = (
    [('observed_order_iter_threads', _perm_key(n, p)) for n in (2, 3, 4) for p in _PERMS[n]]
    + [('observed_order_batch_threads', _perm_key(n, p)) for n in (2, 3, 4) for p in _PERMS[n]]
    + [('observed_order_iter_processes', _perm_key(2, (1, 0))), ('observed_order_iter_processes', _perm_key(3, (2, 1, 0))),
       ('observed_order_batch_processes', _perm_key(2, (1, 0))),
       ('observed_order_store_write', _perm_key(2, (1, 0))), ('observed_order_store_read', _perm_key(2, (1, 0))),
       ('executor', 'iter:threads'), ('executor', 'iter:processes'), ('executor', 'batch:threads'), ('executor', 'batch:processes'),
       ('store_branch', 'write:multiprocess'), ('store_branch', 'read:multiprocess'), ('store_branch', 'write:in_process'),
       ('store_format', 'pickle'), ('store_format', 'tsv'), ('store_format', 'csv'),
       ('fail_outcome', 'iter:surfaced'), ('fail_outcome', 'batch:surfaced'), ('fail_outcome', 'batch_except:labels_kept'),
       ('chunking', 'iter:processes:chunked'), ('chunking', 'batch:processes:chunked'), ('chunking', 'store:chunked'),
       ('completion', 'iter:processes:out_of_order'), ('completion', 'batch:processes:out_of_order')]
)

WATCHDOG_S = 90

# --------------------------------------------------------------------------------------
# what runs inside the workers


class TaskFailure(ValueError):
    def __init__(self, ident=-1):
        super().__init__(ident)
        self.ident = ident


def _log(path, kind, ident):
    if path is None:
        return
    line = f'{kind} {ident} {os.getpid()}:{_thread_id()} {time.monotonic_ns()}\n'.encode()
    fd = os.open(path, os.O_WRONLY | os.O_APPEND | os.O_CREAT, 0o600)
    try:
        os.write(fd, line)
    finally:
        os.close(fd)


def _epoch(path):
    """Time stamp of the first line of the task log: the start of the earliest task."""
    try:
        with open(path, 'rb') as f:
            return int(f.readline().split()[-1])
    except Exception:
        return time.monotonic_ns()


def _sleep_planned(path, delay_ms, from_epoch):
    """Sleep the planned delay: from the task's own start, or (forced orders) until the common epoch -- the start
    of the earliest task, read from the log -- plus the delay, so that start skew between workers does not blur
    the intended completion order."""
    if from_epoch and path is not None:
        wait = (_epoch(path) + delay_ms * 1_000_000 - time.monotonic_ns()) / 1e9
    else:
        wait = delay_ms / 1000.0
    if wait > 0:
        time.sleep(min(wait, 0.25))


def _thread_id():
    import threading
    return threading.get_ident()


def _describe(x):
    """Canonical, process-independent description of anything a task can receive."""
    import static_frame as sf
    if isinstance(x, (sf.Series, sf.Frame)):
        return canon.snap(x)
    if isinstance(x, np.ndarray):
        return cs(x)
    if isinstance(x, tuple):
        return ('tuple', 'named' if hasattr(x, '_fields') else 'plain', tuple(getattr(x, '_fields', ())),
                tuple(_describe(e) for e in x))
    return cs(x)


def _digest_value(v):
    return fp(('v', _describe(v)))


def _digest_pair(k, v):
    return fp(('p', _describe(k), _describe(v)))


def _compute(mode, d, v):
    """The user function proper: a pure function of the input (through its digest)."""
    h = int(d[:8], 16)
    if mode == 'digest':
        return d
    if mode == 'int':
        return h % 2001 - 1000
    if mode == 'float':
        return (h % 4001 - 2000) / 8
    if mode == 'bool':
        return bool(h & 1)
    if mode == 'mixed':
        r = h % 4
        return (h % 97, (h % 801) / 4, d[:5], None)[r]
    if mode == 'tuple':
        return (h % 7, d[:3])
    if mode == 'echo':
        return v
    # container-valued modes (Batch)
    if mode == 'self':
        return v
    if mode == 'row0':
        return v.iloc[0] if len(v.index) else v
    if mode == 'col0':
        return v.iloc[:, 0] if v.ndim == 2 and v.shape[1] else v
    if mode == 'array':
        return v.values
    if mode == 'rev':
        return v.iloc[::-1]
    raise KeyError(mode)


class Task:
    """Picklable task: identifies its input, logs, sleeps its planned delay, fails on plan."""

    def __init__(self, log, plan, mode, items, live, from_epoch=False, one_argument=False):
        self.log, self.plan, self.mode, self.items, self.live = log, plan, mode, items, live
        self.from_epoch = from_epoch
        # apply_pool of an iterator interface hands every task ONE argument (the (label, value) pair for the items flavours): a function
        # written for that convention takes one parameter, and a call with two is not the documented call
        self.one_argument = one_argument

    def __call__(self, *args):
        if self.one_argument and len(args) != 1:
            v = args
            d = fp(('unexpected_call_convention', len(args)))
            return _compute(self.mode, d, v)
        if len(args) == 2:
            k, v = args
            d = _digest_pair(k, v)
        elif self.items and len(args) == 1 and isinstance(args[0], tuple) and len(args[0]) == 2:
            k, v = args[0]
            d = _digest_pair(k, v)
        elif len(args) == 1 and not self.items:
            v = args[0]
            d = _digest_value(v)
        else:
            v = args
            d = fp(('unexpected', _describe(tuple(args))))
        ident, delay_ms, fail = self.plan.get(d, (-1, 0, False))
        if self.live:
            _log(self.log, 'S', ident)
            if delay_ms:
                _sleep_planned(self.log, delay_ms, self.from_epoch)
            _log(self.log, 'D', ident)
        if fail:
            raise TaskFailure(ident)
        return _compute(self.mode, d, v)


class SlowCell:
    """Object cell whose pickling ('reduce') or unpickling ('rebuild') sleeps when it happens
    in a process other than the one that created it, i.e. inside a store worker."""
    __slots__ = ('origin', 'ident', 'delay_ms', 'phase', 'log', 'from_epoch')

    def __init__(self, origin, ident, delay_ms, phase, log, from_epoch=False):
        self.origin, self.ident, self.delay_ms, self.phase, self.log = origin, ident, delay_ms, phase, log
        self.from_epoch = from_epoch

    def __reduce__(self):
        if self.phase == 'reduce' and os.getpid() != self.origin:
            _log(self.log, 'S', self.ident)
            _sleep_planned(self.log, self.delay_ms, self.from_epoch)
            _log(self.log, 'D', self.ident)
        return (_rebuild_cell, (self.origin, self.ident, self.delay_ms, self.phase, self.log, self.from_epoch))

    def __repr__(self):
        return f'SlowCell({self.ident})'


def _rebuild_cell(origin, ident, delay_ms, phase, log, from_epoch=False):
    if phase == 'rebuild' and os.getpid() != origin:
        _log(log, 'S', ident)
        _sleep_planned(log, delay_ms, from_epoch)
        _log(log, 'D', ident)
    return SlowCell(origin, ident, delay_ms, phase, log, from_epoch)


# --------------------------------------------------------------------------------------
# harness utilities

class _Watchdog:
    def __init__(self, what, secs=WATCHDOG_S):
        self.what, self.secs = what, secs

    def _fire(self, *a):
        import multiprocessing
        for p in multiprocessing.active_children():  # do not leave stuck workers behind
            try:
                p.kill()
            except Exception:
                pass
        raise HarnessError(f'watchdog: {self.what} exceeded {self.secs}s (inconclusive)')

    def __enter__(self):
        self.old = signal.signal(signal.SIGALRM, self._fire)
        signal.setitimer(signal.ITIMER_REAL, self.secs)
        return self

    def __exit__(self, *exc):
        signal.setitimer(signal.ITIMER_REAL, 0)
        signal.signal(signal.SIGALRM, self.old)
        return False


def _call(fn):
    from concurrent.futures.process import BrokenProcessPool
    try:
        return fn(), None
    except HarnessError:
        raise
    except BrokenProcessPool as e:
        raise HarnessError(f'process pool broke (environment): {e}')
    except Exception as e:  # judged by the caller
        return None, e


def _read_log(path):
    """-> (ids in observed completion order, ids in observed start order, distinct workers)."""
    done, started, workers = [], [], set()
    if path is None or not os.path.exists(path):
        return done, started, 0
    with open(path, 'rb') as f:
        for line in f.read().decode().splitlines():
            kind, ident, who, _t = line.split(' ')
            workers.add(who)
            (done if kind == 'D' else started).append(int(ident))
    return done, started, len(workers)


def _order_class(order):
    if len(order) < 2:
        return 'single'
    if order == sorted(order):
        return 'in_submission_order'
    if order == sorted(order, reverse=True):
        return 'reversed'
    return 'out_of_order'


def _tally_schedule(ctx, api, case, n, ids, log):
    """Evidence about the schedule that was actually realised."""
    done, _started, workers = _read_log(log)
    ex = 'threads' if case['threads'] else 'processes'
    ctx.tally('executor', f'{api}:{ex}')
    ctx.tally('n_tasks', f'{api}:{n}')
    ctx.tally('max_workers', case['max_workers'])
    ctx.tally('distinct_workers_seen', f'{ex}:{workers}')
    oc = _order_class(done)
    ctx.tally('completion', f'{api}:{ex}:{oc}')
    if oc == 'reversed':
        ctx.tally('completion', f'{api}:{ex}:out_of_order')
    cs_ = case['chunksize']
    ctx.tally('chunking', f"{api}:{ex}:{'chunked' if cs_ > 1 else 'unchunked'}")
    ctx.tally('chunksize_class', '1' if cs_ == 1 else ('n+1' if cs_ > n else '2..n'))
    distinct = len(set(ids)) == len(ids)
    if distinct and 2 <= n <= 4 and sorted(done) == list(range(n)):
        ctx.tally(f'observed_order_{api}_{ex}', _perm_key(n, done))
    forced = case.get('forced')
    if forced is not None:
        if len(forced) != n or not distinct:
            ctx.tally('forced_outcome', f'{api}:{ex}:not_applicable(n or duplicate inputs)')
        else:
            ctx.tally('forced_outcome', f"{api}:{ex}:{'as_intended' if tuple(done) == tuple(forced) else 'deviated'}")
    return done, oc


def _delays_for(n, forced, rnd_delays):
    if forced is not None and len(forced) == n and n >= 1:
        step = 30 // max(1, n - 1) if n > 1 else 0
        step = min(step, 15) if n == 2 else step
        out = [0] * n
        for rank, ident in enumerate(forced):
            out[ident] = rank * step
        return out
    return [rnd_delays[i % len(rnd_delays)] for i in range(n)]


# --------------------------------------------------------------------------------------
# generators

_S_KINDS = ['auto', 'int', 'str', 'negint', 'IndexDate', 'hier2', 'tuple', 'float', 'mixed']
_FLAT_KINDS = ['auto', 'int', 'str', 'negint', 'IndexDate', 'tuple', 'float']
_COL_KINDS = ['str', 'int', 'auto', 'negint']
_DTYPES = ['bool', 'int64', 'float64', '<U5', 'object', 'M8[D]', 'int8', 'complex128']
_GROUP_DTYPES = ['int64', '<U5', 'float64', 'M8[D]', 'int8']
_NAMES = (None, 'nm', 5)
_DELAY_POOL = [0, 0, 0, 1, 2, 4, 7, 11]

SERIES_IFACES = ['iter_element', 'iter_group', 'iter_group_labels', 'iter_window', 'iter_window_array']
FRAME_IFACES = ['iter_array', 'iter_series', 'iter_tuple', 'iter_element', 'iter_group', 'iter_group_labels',
                'iter_window', 'iter_window_array']
IFACE_VARIANTS = ([('series', i, it) for i in SERIES_IFACES for it in (False, True)]
                  + [('frame', i, it) for i in FRAME_IFACES for it in (False, True)])
_ELEMENT_MODES = ['digest', 'int', 'float', 'mixed', 'tuple', 'bool', 'echo']
_MODES = ['digest', 'int', 'float', 'mixed', 'tuple', 'bool']
_MODE_DTYPES = {'digest': [None, None, 'object', '<U16'], 'int': [None, None, 'int64', 'float64', 'object'],
                'float': [None, None, 'float64', 'object'], 'bool': [None, None, 'bool', 'object'],
                'mixed': [None, None, 'object'], 'tuple': [None], 'echo': [None]}


def _distinct_values(dt, n, rng):
    """n elements of dtype dt, pairwise unequal (Python ==) and not missing."""
    out = []
    for _ in range(400):
        v = V.element(dt, rng, missing_ok=False)
        if not any(_same(v, o) for o in out):
            out.append(v)
        if len(out) == n:
            return out
    return None


def _same(a, b):
    try:
        return bool(a == b)
    except Exception:
        return False


def _group_values(dt, n, m, rng):
    pool = _distinct_values(dt, n, rng)
    if pool is None:
        return None
    vals = list(pool) + [rng.choice(pool) for _ in range(m - n)]
    rng.shuffle(vals)
    return vals


def _window_len(n, w, s, rng):
    return (n - 1) * s + w if n > 0 else rng.randint(0, w - 1)


def _series_for(rng, iface, n, flat_only):
    kinds = _FLAT_KINDS if flat_only else _S_KINDS
    kind = rng.choice(kinds)
    kw = {}
    dt = rng.choice(_DTYPES)
    if iface == 'iter_element':
        m = n
    elif iface == 'iter_group':
        m = n + (rng.randint(0, 3) if n else 0)
        dt = rng.choice(_GROUP_DTYPES)
        # Series.iter_group().apply labels its result with <class of the source index>.from_labels(group values)
        # (node_iter.py:437): on a hierarchical or datetime index the group VALUES are re-read as tuples / dates in
        # both forms alike (a grouping defect, C13's subject) -- plain Index kinds only here
        kind = rng.choice(['auto', 'int', 'str', 'negint', 'float', 'tuple'])
    elif iface == 'iter_group_labels':
        m = n
        kw = {'depth_level': 0}
        if kind == 'hier2':
            kw = {'depth_level': rng.choice([0, 1, [0, 1]])}
    else:
        w, s = rng.randint(1, 3), rng.randint(1, 2)
        m = _window_len(n, w, s, rng)
        kw = {'size': w, 'step': s}
    labels = L.labels_for(kind, m, rng)
    m = len(labels)
    if iface == 'iter_group':
        vals = _group_values(dt, min(n, m), m, rng) if m else []
        if vals is None:
            dt = 'int64'
            vals = _group_values(dt, min(n, m), m, rng)
    else:
        vals = V.column(dt, m, rng)
    return F.SeriesSpec(labels, kind, dt, vals, rng.choice(_NAMES)), kw


def _frame_for(rng, iface, n, flat_only):
    row_kinds = _FLAT_KINDS if flat_only else _S_KINDS
    kw = {}
    other = rng.randint(1, 4)
    axis = rng.choice([0, 1])
    if iface in ('iter_array', 'iter_series', 'iter_tuple'):
        nr, nc = (other, n) if axis == 0 else (n, other)
        kw = {'axis': axis}
        if iface == 'iter_tuple':
            kw['constructor'] = rng.choice(['namedtuple', 'tuple'])
    elif iface == 'iter_element':
        divs = [d for d in range(1, n + 1) if n % d == 0] if n else [0]
        nr = rng.choice(divs)
        nc = n // nr if nr else rng.randint(0, 2)
        kw = {'axis': axis}
    elif iface == 'iter_group':
        nr, nc = n + (rng.randint(0, 3) if n else 0), rng.randint(1, 4)
        kw = {'axis': 0}
    elif iface == 'iter_group_labels':
        nr, nc = (other, n) if axis == 1 else (n, other)
        kw = {'depth_level': 0, 'axis': axis}
    else:
        w, s = rng.randint(1, 3), rng.randint(1, 2)
        m = _window_len(n, w, s, rng)
        nr, nc = (m, other) if axis == 0 else (other, m)
        kw = {'size': w, 'step': s, 'axis': axis}
    if iface in ('iter_window', 'iter_window_array') and axis == 1:
        # windows across columns are labelled with column labels but the result index is built with the ROW index
        # class (node_iter.py:438 tests axis == 0 for "columns"): a hierarchical / datetime row index re-reads them in
        # both forms alike (C13's subject) -- plain row index kinds here
        row_kinds = ['auto', 'int', 'str', 'negint', 'float', 'tuple']
    col_kinds = _COL_KINDS
    if kw.get('constructor') == 'namedtuple':
        row_kinds, col_kinds = (row_kinds, ['str']) if axis == 1 else (['str'], _COL_KINDS)
    spec = F.random_spec(rng, max_rows=nr, min_rows=nr, max_cols=nc, min_cols=nc, dtypes=_DTYPES,
                         row_kinds=row_kinds, col_kinds=col_kinds, name_pool=_NAMES)
    if iface == 'iter_group' and spec.shape[1]:
        j = rng.randrange(spec.shape[1])
        dt = rng.choice(_GROUP_DTYPES)
        m = spec.shape[0]
        vals = _group_values(dt, min(n, m), m, rng) if m else []
        if vals is None:
            dt = 'int64'
            vals = _group_values(dt, min(n, m), m, rng)
        spec.dtypes[j] = dt
        for r in range(m):
            spec.cells[r][j] = vals[r]
        kw['key'] = spec.cols[j]
    if iface == 'iter_group_labels' and spec.row_kind == 'hier2' and kw['axis'] == 0:
        kw['depth_level'] = rng.choice([0, 1, [0, 1]])
    if kw.get('constructor') == 'namedtuple':
        fields = spec.cols if kw['axis'] == 1 else spec.rows
        if not all(isinstance(x, str) and x.isidentifier() and not x.startswith('_') and not keyword.iskeyword(x) for x in fields):
            kw['constructor'] = 'tuple'  # the library refuses such field names in both forms
    lay = rng.choice(F.layouts(spec.dtypes))
    return spec, lay, kw


def _pool_config(rng, n, forced, threads):
    if forced is not None:
        return len(forced) + rng.choice([0, 0, 1, 3]), (1 if not threads else rng.randint(1, n + 1))
    if not threads:  # forking eight workers per case dominates the cost: keep 8 present, lower the mean
        return rng.choice([1, 2, 2, 3, 3, 4, 5, 6, 8]), rng.randint(1, n + 1)
    return rng.randint(1, 8), rng.randint(1, n + 1)


def _iter_case(rng, variant=None, n=None, forced=None, threads=True, fail_rate=0.12):
    container, iface, items = variant or rng.choice(IFACE_VARIANTS)
    if n is None:
        n = rng.choice([0, 1, 2, 2, 3, 3, 4, 4, 5, 6, 7, 8])
    case = {'kind': 'iter', 'container': container, 'iface': iface, 'items': items, 'threads': threads, 'forced': forced}
    for _attempt in range(40):
        if container == 'series':
            spec, kw = _series_for(rng, iface, n, flat_only=forced is not None)
            lay = None
        else:
            spec, lay, kw = _frame_for(rng, iface, n, flat_only=forced is not None)
        case.update(spec=spec, layout=lay, kw=kw)
        if forced is None:
            break
        if _forced_ok(case, len(forced)):
            break
        if _attempt == 25:
            case['items'] = True  # labels make the inputs distinct
    if not threads and case['kw'].get('constructor') == 'namedtuple':
        # known finding C18-namedtuple-process-pool: rows of the per-call namedtuple class cannot be pickled to worker
        # processes; with more than one work item CPython 3.12's executor can moreover DEADLOCK on the second pickling
        # error (queue feeder thread vs. manager thread on shutdown_lock), so the class is exercised by the literal probe
        # only (one work item) and generated cases use constructor=tuple with processes
        case['kw'] = dict(case['kw'], constructor='tuple')
    element = iface == 'iter_element'
    mode = rng.choice(_ELEMENT_MODES if element else _MODES)
    mw, chunk = _pool_config(rng, n, forced, threads)
    fail = []
    if forced is None and n and rng.random() < fail_rate:
        fail = sorted(rng.sample(range(n), min(n, rng.choice([1, 1, 2]))))
    case.update(mode=mode, dtype=rng.choice(_MODE_DTYPES[mode]), name=rng.choice(_NAMES), max_workers=mw, chunksize=chunk,
                delays=[rng.choice(_DELAY_POOL) for _ in range(8)], fail=fail)
    return case


def _forced_ok(case, n):
    """A forced-order case needs exactly n pairwise-distinct inputs."""
    try:
        pairs = _plain_pairs(_build_container(case), case)
    except Exception:
        return False
    if len(pairs) != n:
        return False
    ds = [_digest_pair(k, v) if case['items'] else _digest_value(v) for k, v in pairs]
    return len(set(ds)) == n


_BATCH_OPS = ['apply', 'apply', 'apply_items', 'apply_except', 'apply_items_except', 'attr', 'chain']
_BATCH_MODES = ['digest', 'int', 'float', 'self', 'row0', 'col0', 'array', 'rev', 'mixed']
_ATTR_OPS = ['iloc_row0', 'iloc_rows_rev', 'iloc_col0', 'head1', 'tail1', 'sum', 'count', 'transpose', 'sort_index_desc',
             'neg', 'mul2', 'shift1', 'roll1', 'isin', 'drop_iloc0', 'loc_min', 'getitem_cols']
_BATCH_DTYPES = ['bool', 'int64', 'float64', '<U5', 'object', 'int8']


def _batch_frames(rng, n, simple=False):
    kind = rng.choice(['str', 'str', 'int', 'tuple'])
    labels = L.flat_labels(kind, n, rng)
    specs, lays = [], []
    same_cols = rng.random() < 0.6
    cols_from = None
    for lab in labels:
        spec = F.random_spec(rng, max_rows=4, min_rows=1, max_cols=4, min_cols=1,
                             dtypes=V.SIMPLE + ['float64'] if simple else _BATCH_DTYPES,
                             row_kinds=['auto', 'int', 'str'] if simple else ['auto', 'int', 'str', 'IndexDate', 'negint'],
                             col_kinds=['str'] if simple else ['str', 'int'], name_pool=(None,))
        if same_cols and cols_from is not None and len(cols_from.cols) == len(spec.cols):
            spec.cols = list(cols_from.cols)
            spec.col_kind = cols_from.col_kind
        elif cols_from is None:
            cols_from = spec
        spec.name = lab
        specs.append(spec)
        lays.append(rng.choice(F.layouts(spec.dtypes)))
    return labels, specs, lays


def _batch_case(rng, n=None, forced=None, threads=True):
    if n is None:
        n = rng.choice([1, 2, 2, 3, 3, 4, 4, 5, 6])
    labels, specs, lays = _batch_frames(rng, n)
    if forced is None and n >= 2 and rng.random() < 0.15:
        # a Batch is a stream of (label, Frame) pairs: labels may repeat (equal Frame names); every pair keeps its own result
        i, j = sorted(rng.sample(range(n), 2))
        labels[j] = labels[i]
        specs[j].name = labels[i]
    from_frames = rng.random() < 0.3
    if not from_frames and forced is None and rng.random() < 0.4:
        # a Batch built from (label, Frame) pairs: the Frames' own names are something else (or nothing); the label is the Batch's
        for i, spec in enumerate(specs):
            spec.name = rng.choice([None, f'nm{i}', 'same'])
    op = 'apply' if forced is not None and rng.random() < 0.6 else rng.choice(_BATCH_OPS)
    if forced is not None and op == 'attr':
        op = 'apply_items'
    mw, chunk = _pool_config(rng, n, forced, threads)
    fail = []
    if op in ('apply_except', 'apply_items_except'):
        fail = sorted(rng.sample(range(n), rng.randint(0, min(n, 2))))
        if rng.random() < 0.85:
            chunk = 1
    elif forced is None and op != 'attr' and rng.random() < 0.12:
        fail = sorted(rng.sample(range(n), 1))
    mode = rng.choice(_BATCH_MODES)
    exports = ['items', 'items', 'items', 'to_frame', 'to_frame']
    if op != 'attr' and mode in ('self', 'rev', 'array'):
        exports.append('to_bus')  # a Bus holds Frames only
        exports.append('to_bus')
    return {'kind': 'batch', 'labels': labels, 'specs': specs, 'layouts': lays, 'op': op, 'attr': rng.choice(_ATTR_OPS),
            'mode': mode, 'export': rng.choice(exports),
            'except_match': rng.random() < 0.8, 'from_frames': from_frames, 'name': rng.choice(_NAMES),
            'max_workers': mw, 'chunksize': chunk, 'threads': threads, 'forced': forced,
            'delays': [rng.choice(_DELAY_POOL) for _ in range(8)], 'fail': fail}


def _store_case(rng, n=None, forced=None, fmt=None, direction=None):
    fmt = fmt or rng.choice(['pickle', 'pickle', 'tsv', 'csv'])
    if n is None:
        n = rng.choice([1, 2, 2, 3, 3, 4, 5, 6])
    labels, specs, lays = _batch_frames(rng, n, simple=fmt != 'pickle')
    labels = [f'L{i}_{rng.choice("abcxyz")}' for i in range(n)]
    encoded = fmt != 'pickle' and forced is None and rng.random() < 0.3
    if encoded:
        # labels that are not strings, written under str() and read back through a decoder: the Frame carries the label, not its text
        labels = rng.sample(range(100, 140), n)
    rng.shuffle(labels)
    for lab, spec in zip(labels, specs):
        spec.name = lab
    direction = direction or rng.choice(['write', 'read'])
    workers = (len(forced) if forced is not None else rng.choice([1, 2, 2, 3, 3, 4, 5, 6, 8]))
    chunk = 1 if forced is not None else rng.randint(1, n + 1)
    read_labels = list(labels)
    if direction == 'read' and forced is None:
        r = rng.random()
        if r < 0.35:
            rng.shuffle(read_labels)
        elif r < 0.6:
            read_labels = [rng.choice(labels) for _ in range(rng.randint(1, n + 2))]
        elif r < 0.7:
            read_labels = [rng.choice(labels)]
    per_label = {}
    if fmt != 'pickle' and rng.random() < 0.6:
        same_depths = rng.random() < 0.4
        for lab, spec in zip(labels, specs):
            if rng.random() < 0.6:
                inc = True if same_depths else rng.random() < 0.5
                per_label[lab] = {'include_index': inc, 'index_depth': 1 if (inc and (same_depths or rng.random() < 0.8)) else 0}
                if spec.cols and rng.random() < 0.6:
                    # configs that differ in nothing but the dtypes they ask for: one column read back as text
                    per_label[lab]['dtypes'] = {rng.choice(spec.cols): 'str'}
    slow = fmt == 'pickle' and (forced is not None or rng.random() < 0.6)
    via = 'store' if forced is not None or rng.random() < 0.75 else 'bus'
    if via == 'bus' and direction == 'read':
        read_labels = list(dict.fromkeys(read_labels))
    return {'kind': 'store', 'fmt': fmt, 'labels': labels, 'specs': specs, 'layouts': lays, 'direction': direction,
            'workers': workers, 'chunksize': chunk, 'read_labels': read_labels, 'per_label': per_label, 'slow': slow,
            'via': via, 'forced': forced, 'delays': [rng.choice(_DELAY_POOL) for _ in range(8)],
            'max_workers': workers, 'threads': False, 'encoded': encoded}


def _align_case(rng):
    attrs = ['read_max_workers', 'read_chunksize', 'write_max_workers', 'write_chunksize']
    default = {'read_max_workers': rng.choice([None, 1, 2, 4]), 'read_chunksize': rng.choice([1, 2, 3]),
               'write_max_workers': rng.choice([None, 1, 2, 4]), 'write_chunksize': rng.choice([1, 2, 3])}
    label_cfg = dict(default)
    if rng.random() < 0.7:
        a = rng.choice(attrs)
        label_cfg[a] = rng.choice([v for v in (None, 1, 2, 3, 4, 5) if v != default[a] and not (a.endswith('chunksize') and v is None)])
    return {'kind': 'align', 'default': default, 'label': label_cfg, 'index_depth': rng.choice([0, 1])}


def probes(ctx):
    return [_probe_namedtuple_process()]


def _probe_namedtuple_process():
    spec = F.FrameSpec(['x', 'y', 'z'], ['p', 'q'], 'str', 'str', ['int64', '<U5'], [[1, 'a'], [2, 'b'], [3, 'c']], None)
    return {'kind': 'iter', 'container': 'frame', 'iface': 'iter_tuple', 'items': False, 'threads': False, 'forced': None,
            'spec': spec, 'layout': F.layout_all_1d(spec.dtypes), 'kw': {'axis': 1, 'constructor': 'namedtuple'},
            'mode': 'digest', 'dtype': None, 'name': None, 'max_workers': 2, 'chunksize': 3, 'delays': [0], 'fail': []}


def generate(ctx):
    rng = ctx.rng
    quick = ctx.tier == 'quick'
    sh, nsh = ctx.shard, ctx.nshards
    # (1) every completion order of n <= 4 tasks, forced with thread pools on apply_pool
    reps = 4 if quick else len(IFACE_VARIANTS)
    jobs = [(n, p, r) for n in (2, 3, 4) for p in _PERMS[n] for r in range(reps)]
    for i, (n, p, r) in enumerate(jobs):
        if i % nsh != sh:
            continue
        variant = IFACE_VARIANTS[(r + 7 * _PERMS[n].index(p)) % len(IFACE_VARIANTS)] if not quick else None
        yield _iter_case(rng, variant=variant, n=n, forced=p, threads=True)
    # (2) the same on Batch (threads)
    jobs = [(n, p, r) for n in (2, 3, 4) for p in _PERMS[n] for r in range(3 if quick else 8)]
    for i, (n, p, r) in enumerate(jobs):
        if i % nsh == sh:
            yield _batch_case(rng, n=n, forced=p, threads=True)
    # (3) forced orders with process pools (fewer: pools are slow to start)
    ns = (2, 3) if quick else (2, 3, 4)
    jobs = [(n, p, r) for n in ns for p in _PERMS[n] for r in range(3 if quick else 10)]
    for i, (n, p, r) in enumerate(jobs):
        if i % nsh == sh:
            yield _iter_case(rng, n=n, forced=p, threads=False)
    jobs = [(n, p, r) for n in ns for p in _PERMS[n] for r in range(2 if quick else 5)]
    for i, (n, p, r) in enumerate(jobs):
        if i % nsh == sh:
            yield _batch_case(rng, n=n, forced=p, threads=False)
    jobs = [(n, p, d, r) for n in ns for p in _PERMS[n] for d in ('write', 'read') for r in range(2 if quick else 4)]
    for i, (n, p, d, r) in enumerate(jobs):
        if i % nsh == sh:
            yield _store_case(rng, n=n, forced=p, fmt='pickle', direction=d)
    # (4) sampled configurations
    plan = ([('iter_t', ctx.n(1400, 40000)), ('iter_p', ctx.n(120, 6000)), ('batch_t', ctx.n(520, 13000)),
             ('batch_p', ctx.n(64, 2800)), ('store', ctx.n(260, 6000)), ('align', ctx.n(48, 480))])
    order = [k for k, c in plan for _ in range(c)]
    rng.shuffle(order)
    for k in order:
        if k == 'iter_t':
            yield _iter_case(rng, threads=True)
        elif k == 'iter_p':
            yield _iter_case(rng, threads=False)
        elif k == 'batch_t':
            yield _batch_case(rng, threads=True)
        elif k == 'batch_p':
            yield _batch_case(rng, threads=False)
        elif k == 'store':
            yield _store_case(rng)
        else:
            yield _align_case(rng)


# --------------------------------------------------------------------------------------
# check: dispatch

def check(case, ctx):
    kind = case['kind']
    if kind == 'align':
        return _check_align(case, ctx)
    fn = {'iter': _check_iter, 'batch': _check_batch, 'store': _check_store}[kind]
    forced = case.get('forced')
    # a forced completion order that was not the observed one (scheduler noise) is re-run, at most twice: every
    # run is judged on its results; the repetition only serves the evidence on observed orders
    for attempt in range(3 if forced is not None else 1):
        tmp = tempfile.mkdtemp(prefix='sfmon-c18-')
        out = {}
        try:
            fn(case, ctx, tmp, out)
        finally:
            shutil.rmtree(tmp, ignore_errors=True)
        if forced is None or out.get('done') is None or tuple(out['done']) == tuple(forced):
            break
        ctx.tally('forced_retry', f'{kind}:attempt{attempt + 1}_deviated')


def _exc_info(e):
    return {'exception': type(e).__name__, 'message': str(e)[:300]} if e is not None else None


# --------------------------------------------------------------------------------------
# apply_pool on iterator interfaces

def _build_container(case):
    if case['container'] == 'series':
        return F.build_series(case['spec'])
    return F.build_frame(case['spec'], case['layout'])


def _kw(case):
    kw = dict(case['kw'])
    if 'constructor' in kw:
        kw['constructor'] = tuple if kw['constructor'] == 'tuple' else None
    return kw


def _delegate(container, case, items):
    return getattr(container, case['iface'] + ('_items' if items else ''))(**_kw(case))


def _plain_pairs(container, case):
    """The sequential inputs and their labels, by plain iteration of the items form."""
    return list(_delegate(container, case, True))


def _iter_klass(case, n, oc, extra=None):
    k = {'api': 'iter', 'container': case['container'], 'iface': case['iface'], 'items': case['items'],
         'executor': 'threads' if case['threads'] else 'processes', 'chunked': case['chunksize'] > 1,
         'workers_ge_tasks': case['max_workers'] >= n, 'single_worker': case['max_workers'] == 1, 'completion': oc,
         'mode': case['mode'], 'dtype_arg': str(case['dtype']), 'failing_task': bool(case['fail']), 'n_tasks_ge_2': n >= 2,
         'constructor': case['kw'].get('constructor'), 'axis': case['kw'].get('axis')}
    if extra:
        k.update(extra)
    return k


def _check_iter(case, ctx, tmp, out):
    container = _build_container(case)
    items, mode = case['items'], case['mode']
    pairs, pairs_exc = _call(lambda: _plain_pairs(container, case))
    name = f"{case['container']}.{case['iface']}{'_items' if items else ''}"
    if pairs_exc is not None:
        # the iterator itself cannot be walked: nothing to schedule; both forms must agree on raising
        pairs = []
    n = len(pairs)
    digests = [(_digest_pair(k, v) if items else _digest_value(v)) for k, v in pairs]
    delays = _delays_for(n, case['forced'], case['delays'])
    fail = set(case['fail'])
    plan, ids = {}, []
    for i, d in enumerate(digests):
        if d not in plan:
            plan[d] = (i, delays[i], False)
        ids.append(plan[d][0])
    for i in fail:
        if i < n:
            ident, dl, _ = plan[digests[i]]
            plan[digests[i]] = (ident, dl, True)
    failing = any(plan[d][2] for d in digests)
    log = os.path.join(tmp, 'tasks.log')
    task_par = Task(log, plan, mode, items, True, from_epoch=case['forced'] is not None, one_argument=True)
    task_seq = Task(None, plan, mode, items, False)
    seq, seq_exc = _call(lambda: _delegate(container, case, items).apply(task_seq, dtype=case['dtype'], name=case['name']))
    with _Watchdog(f'apply_pool {name}'):
        par, par_exc = _call(lambda: _delegate(container, case, items).apply_pool(
            task_par, dtype=case['dtype'], name=case['name'], max_workers=case['max_workers'],
            chunksize=case['chunksize'], use_threads=case['threads']))
    done, oc = _tally_schedule(ctx, 'iter', case, n, ids, log)
    out['done'] = done
    nontrivial = n >= 2 and (case['max_workers'] >= 2 or failing)
    ctx.evaluation(('iter', repr(case['spec']), repr(case['layout']), name, repr(case['kw']), mode, str(case['dtype']),
                    repr(case['name']), case['max_workers'], case['chunksize'], case['threads'], tuple(delays), tuple(sorted(fail))),
                   nontrivial)
    ctx.tally('iface', name)
    ctx.tally('mode', mode)
    ctx.tally('dtype_arg', str(case['dtype']))
    if len(set(digests)) < n:
        ctx.tally('inputs', 'with_equal_inputs')
    ctx.sample({'api': 'apply_pool', 'iface': name, 'kw': repr(case['kw']), 'n_tasks': n, 'max_workers': case['max_workers'],
                'chunksize': case['chunksize'], 'executor': 'threads' if case['threads'] else 'processes',
                'delays_ms': delays, 'forced': case['forced'], 'observed_completion': done})
    klass = _iter_klass(case, n, oc)
    detail = {'iface': name, 'kw': repr(case['kw']), 'n_tasks': n, 'observed_completion': done,
              'max_workers': case['max_workers'], 'chunksize': case['chunksize']}
    if failing:
        return _judge_failing(ctx, 'iter', seq, seq_exc, par, par_exc, klass, detail)
    if _judge_exceptions(ctx, 'iter', seq_exc, par_exc, klass, detail):
        return
    gs, gp = canon.snap(seq), canon.snap(par)
    if gs != gp:
        ctx.violation('pool_result_differs_from_sequential',
                      detail=dict(detail, sequential=canon.brief(gs, 900), pool=canon.brief(gp, 900)), klass=klass)
        return
    # pairing model
    expected = [(k, _compute(mode, d, v)) for (k, v), d in zip(pairs, digests)]
    # echoed object cells of mixed kinds are re-typed by array construction (bool with numbers -> number,
    # bytes with anything -> bytes ...): that is C07's subject and identical in both forms, so only the labels
    # are compared with the model there
    labels_only = mode == 'echo' and _source_dtype_is_object(case)
    if labels_only:
        ctx.tally('model', 'echo of object cells: labels only')
    problem = _pairing_problem(case, container, gp, expected, labels_only)
    if problem:
        ctx.violation('both_forms_differ_from_pairing_model', detail=dict(detail, problem=problem, pool=canon.brief(gp, 900)),
                      klass=klass)
    # labels of the simple axis iterators are known from the spec alone
    spec_labels = _spec_labels(case)
    if spec_labels is not None and [cs(k) for k, _ in pairs] != [cs(x) for x in spec_labels]:
        ctx.violation('iteration_labels_differ_from_spec', detail=dict(detail, labels=[repr(k) for k, _ in pairs]), klass=klass)


def _spec_labels(case):
    spec, iface = case['spec'], case['iface']
    if case['container'] == 'series':
        return list(spec.labels) if iface == 'iter_element' else None
    if iface in ('iter_array', 'iter_series', 'iter_tuple'):
        return list(spec.cols) if case['kw']['axis'] == 0 else list(spec.rows)
    return None


def _loose(e, g):
    """value strength (int 3 == float 3.0; bool and number results are never mixed by the generated modes)."""
    return veq(e, g)


def _source_dtype_is_object(case):
    spec = case['spec']
    if case['container'] == 'series':
        return spec.dtype == 'object'
    return 'object' in spec.dtypes or len(set(spec.dtypes)) > 1


def _pairing_problem(case, container, got, expected, labels_only=False):
    """Compare the snapshot of a pool result with [(label, expected value)] from the model."""
    if case['container'] == 'frame' and case['iface'] == 'iter_element':
        if got['k'] != 'Frame':
            return f"result kind {got['k']}"
        rows, cols = got['index']['labels'], got['columns']['labels']
        cells = {}
        for j, c in enumerate(cols):
            for i, r in enumerate(rows):
                cells[(r, c)] = got['cols'][j][i]
        exp = {}
        for k, v in expected:
            exp[(cs(k[0]), cs(k[1]))] = cs(v)
        if set(exp) != set(cells):
            return 'cell keys differ'
        bad = [repr(k) for k in exp if not labels_only and not _loose(exp[k], cells[k])]
        if bad:
            return 'cells paired with other inputs: ' + ', '.join(bad[:4])
        if got['name'] != cs(case['name']):
            return 'name'
        return None
    if got['k'] != 'Series':
        return f"result kind {got['k']}"
    exp_labels = tuple(cs(k) for k, _ in expected)
    # value strength: an index built from a subset of mixed labels may re-type them (8 -> 8.0), in both forms alike
    if not canon.seq_eq(exp_labels, got['index']['labels'], veq):
        return f"labels {got['index']['labels']!r} expected {exp_labels!r}"
    exp_values = [cs(v) for _, v in expected]
    if len(exp_values) != len(got['values']):
        return 'length'
    bad = [i for i, (e, g) in enumerate(zip(exp_values, got['values'])) if not labels_only and not _loose(e, g)]
    if bad:
        return f'values at positions {bad} belong to other inputs: expected {[exp_values[i] for i in bad][:3]!r}'
    if got['name'] != cs(case['name']):
        return 'name'
    return None


def _judge_exceptions(ctx, api, seq_exc, par_exc, klass, detail):
    """True when the case is settled by the exception outcomes."""
    if seq_exc is None and par_exc is None:
        return False
    if seq_exc is not None and par_exc is not None:
        if type(seq_exc) is type(par_exc) or type(seq_exc).__name__ == type(par_exc).__name__:
            ctx.tally('both_forms_raised', f'{api}:{type(seq_exc).__name__}')
        elif klass.get('n_tasks_ge_2'):
            # several inputs may fail for different reasons; the lazy sequential form meets them label by label, the
            # pool form submits every input first: which error comes out first is not fixed by the statement
            ctx.tally('both_forms_raised', f'{api}:{type(seq_exc).__name__} vs {type(par_exc).__name__} (>= 2 inputs)')
        else:
            ctx.violation('exception_class_differs_from_sequential',
                          detail=dict(detail, sequential=_exc_info(seq_exc), pool=_exc_info(par_exc)),
                          klass=dict(klass, exception=type(par_exc).__name__, sequential_exception=type(seq_exc).__name__))
        return True
    if par_exc is not None:
        ctx.violation('pool_raised_but_sequential_did_not', detail=dict(detail, pool=_exc_info(par_exc)),
                      klass=dict(klass, exception=type(par_exc).__name__))
    else:
        ctx.violation('sequential_raised_but_pool_did_not', detail=dict(detail, sequential=_exc_info(seq_exc)),
                      klass=dict(klass, exception=type(seq_exc).__name__))
    return True


def _judge_failing(ctx, api, seq, seq_exc, par, par_exc, klass, detail):
    if seq_exc is None:
        ctx.violation('failing_task_did_not_surface', detail=dict(detail, form='sequential', got=canon.brief(canon.snap(seq), 600)),
                      klass=dict(klass, form='sequential'))
    if par_exc is None:
        ctx.violation('failing_task_did_not_surface', detail=dict(detail, form='pool', got=canon.brief(canon.snap(par), 600)),
                      klass=dict(klass, form='pool'))
        return
    ctx.tally('fail_outcome', f'{api}:surfaced')
    ctx.tally('fail_surfaced_as', f'{api}:{type(par_exc).__name__}')


# --------------------------------------------------------------------------------------
# Batch

def _attr_apply(name, b):
    if name == 'iloc_row0':
        return b.iloc[0]
    if name == 'iloc_rows_rev':
        return b.iloc[::-1]
    if name == 'iloc_col0':
        return b.iloc[:, 0]
    if name == 'head1':
        return b.head(1)
    if name == 'tail1':
        return b.tail(1)
    if name == 'sum':
        return b.sum()
    if name == 'count':
        return b.count()
    if name == 'transpose':
        return b.T
    if name == 'sort_index_desc':
        return b.sort_index(ascending=False)
    if name == 'neg':
        return -b
    if name == 'mul2':
        return b * 2
    if name == 'shift1':
        return b.shift(1)
    if name == 'roll1':
        return b.roll(1)
    if name == 'isin':
        return b.isin((1, 'a', 0, True))
    if name == 'drop_iloc0':
        return b.drop.iloc[0]
    if name == 'loc_min':
        return b.loc_min()
    if name == 'getitem_cols':
        return b.iloc[:, [0]]
    raise KeyError(name)


def _frame_attr(name, f):
    """The same attribute operation applied directly to one Frame (model side)."""
    class _One:
        def __getattr__(self, a):
            return getattr(f, a)

        def __neg__(self):
            return -f

        def __mul__(self, o):
            return f * o
    return _attr_apply(name, _One())


def _export(b, how):
    if how == 'items':
        return [(k, v) for k, v in b.items()]
    if how == 'to_frame':
        return b.to_frame()
    return b.to_bus()


def _snap_export(x, how):
    if how == 'items':
        return [(cs(k), canon.snap(v)) for k, v in x]
    return canon.snap(x)


def _raw_matches(raw, got):
    """got: snapshot of what the Batch delivered for one label; raw: what the function returned."""
    import static_frame as sf
    if isinstance(raw, (sf.Series, sf.Frame)):
        return canon.snap(raw) == got
    if isinstance(raw, np.ndarray):
        want = canon.snap(sf.Frame(raw) if raw.ndim == 2 else sf.Series(raw))
        return want == got
    return got['k'] == 'Series' and len(got['values']) == 1 and veq(got['values'][0], cs(raw))


def _check_batch(case, ctx, tmp, out):
    import static_frame as sf
    frames = [F.build_frame(s, lay) for s, lay in zip(case['specs'], case['layouts'])]
    labels = list(case['labels'])
    n = len(frames)
    op, mode, how = case['op'], case['mode'], case['export']
    items_form = op in ('apply_items', 'apply_items_except')
    uses_task = op != 'attr'
    # inputs as the task will see them
    if op == 'chain':
        inputs, pre_exc = _call(lambda: [_frame_attr(case['attr'], f) for f in frames])
        if pre_exc is not None:
            inputs = None
    else:
        inputs = frames
    delays = _delays_for(n, case['forced'], case['delays'])
    plan, ids, digests = {}, [], []
    fail = set(case['fail'])
    if uses_task and inputs is not None:
        from static_frame.core.batch import normalize_container
        seen = [normalize_container(x) if op == 'chain' else x for x in inputs]
        for i, (lab, x) in enumerate(zip(labels, seen)):
            d = _digest_pair(lab, x) if items_form else _digest_value(x)
            digests.append(d)
            if d not in plan:
                plan[d] = (i, delays[i], i in fail)
            elif i in fail:
                plan[d] = (plan[d][0], plan[d][1], True)
            ids.append(plan[d][0])
    else:
        seen = None
        ids = list(range(n))
    failing_pos = [i for i, d in enumerate(digests) if plan[d][2]]
    log = os.path.join(tmp, 'tasks.log')
    exc_type = TaskFailure if case['except_match'] else KeyError

    def run(parallel):
        task = Task(log if parallel else None, plan, mode, items_form, parallel, from_epoch=case['forced'] is not None)
        kw = dict(name=case['name'])
        if parallel:
            kw.update(max_workers=case['max_workers'], chunksize=case['chunksize'], use_threads=case['threads'])
        if case['from_frames']:
            b = sf.Batch.from_frames(frames, **kw)
        else:
            b = sf.Batch(iter(list(zip(labels, frames))), **kw)
        if op == 'apply':
            b = b.apply(task)
        elif op == 'apply_items':
            b = b.apply_items(task)
        elif op == 'apply_except':
            b = b.apply_except(task, exc_type)
        elif op == 'apply_items_except':
            b = b.apply_items_except(task, exc_type)
        elif op == 'attr':
            b = _attr_apply(case['attr'], b)
        else:
            b = _attr_apply(case['attr'], b).apply(task)
        return _export(b, how)

    seq, seq_exc = _call(lambda: run(False))
    with _Watchdog(f'Batch {op}'):
        par, par_exc = _call(lambda: run(True))
    done, oc = _tally_schedule(ctx, 'batch', case, n, ids, log)
    out['done'] = done
    opname = op if op not in ('attr', 'chain') else f"{op}:{case['attr']}"
    ctx.tally('batch_op', opname)
    ctx.tally('batch_export', how)
    ctx.tally('mode', f'batch:{mode}')
    nontrivial = n >= 2 and (case['max_workers'] >= 2 or bool(failing_pos))
    ctx.evaluation(('batch', repr(case['specs']), repr(case['layouts']), repr(labels), opname, mode, how, case['except_match'],
                    case['from_frames'], case['max_workers'], case['chunksize'], case['threads'], tuple(delays), tuple(sorted(fail))),
                   nontrivial)
    ctx.sample({'api': 'Batch', 'op': opname, 'export': how, 'n_frames': n, 'max_workers': case['max_workers'],
                'chunksize': case['chunksize'], 'executor': 'threads' if case['threads'] else 'processes',
                'delays_ms': delays, 'forced': case['forced'], 'observed_completion': done})
    klass = {'api': 'batch', 'op': op, 'attr': case['attr'] if op in ('attr', 'chain') else None, 'export': how, 'mode': mode,
             'executor': 'threads' if case['threads'] else 'processes', 'chunked': case['chunksize'] > 1,
             'workers_ge_tasks': case['max_workers'] >= n, 'single_worker': case['max_workers'] == 1, 'completion': oc,
             'failing_task': bool(failing_pos), 'except_match': case['except_match'], 'n_tasks_ge_2': n >= 2}
    detail = {'op': opname, 'export': how, 'labels': [repr(x) for x in labels], 'observed_completion': done,
              'max_workers': case['max_workers'], 'chunksize': case['chunksize'], 'failing_positions': failing_pos}
    excepting = op in ('apply_except', 'apply_items_except')
    if excepting and case['chunksize'] != 1:
        # documented limitation of the pool form (batch.py:429): must be reported, not silently mis-chunked
        if isinstance(par_exc, NotImplementedError):
            ctx.tally('expected_errors', 'apply_except with chunksize != 1 -> NotImplementedError')
        elif par_exc is None and seq_exc is None and _snap_export(par, how) == _snap_export(seq, how):
            ctx.tally('expected_errors', 'apply_except with chunksize != 1 accepted and equal')
        else:
            ctx.violation('apply_except_chunked_neither_refused_nor_equal', detail=dict(detail, pool=_exc_info(par_exc)), klass=klass)
        return
    if failing_pos and not (excepting and case['except_match']):
        return _judge_failing(ctx, 'batch', seq, seq_exc, par, par_exc, klass, detail)
    if _judge_exceptions(ctx, 'batch', seq_exc, par_exc, klass, detail):
        return
    gs, gp = _snap_export(seq, how), _snap_export(par, how)
    if gs != gp:
        ctx.violation('pool_result_differs_from_sequential',
                      detail=dict(detail, sequential=canon.brief(gs, 900), pool=canon.brief(gp, 900)), klass=klass)
        return
    if excepting and failing_pos:
        ctx.tally('fail_outcome', 'batch_except:labels_kept' if how == 'items' else 'batch_except:export_equal')
    if how != 'items':
        return
    # per-label model
    if uses_task:
        if seen is None:
            return
        keep = [i for i in range(n) if not (excepting and i in failing_pos)]
        exp = [(labels[i], _compute(mode, digests[i], seen[i])) for i in keep]
    else:
        exp, model_exc = _call(lambda: [(lab, _frame_attr(case['attr'], f)) for lab, f in zip(labels, frames)])
        if model_exc is not None:
            ctx.tally('model', 'attr model raised although both forms returned')
            return
    if [cs(k) for k, _ in exp] != [k for k, _ in gp]:
        ctx.violation('both_forms_differ_from_pairing_model',
                      detail=dict(detail, problem='labels', expected=[repr(k) for k, _ in exp], pool=[k for k, _ in gp]), klass=klass)
        return
    bad = [repr(k) for (k, raw), (_, g) in zip(exp, gp) if not _raw_matches(raw, g)]
    if bad:
        ctx.violation('both_forms_differ_from_pairing_model',
                      detail=dict(detail, problem='results paired with other labels: ' + ', '.join(bad[:4]), pool=canon.brief(gp, 900)),
                      klass=klass)


# --------------------------------------------------------------------------------------
# zip stores

def _store_cls(fmt):
    from static_frame.core import store_zip
    return {'pickle': store_zip.StoreZipPickle, 'tsv': store_zip.StoreZipTSV, 'csv': store_zip.StoreZipCSV}[fmt]


def _store_config(case, parallel):
    """(config initializer, {label: effective per-label settings})."""
    import static_frame as sf
    w, c = case['workers'], case['chunksize']
    wk = {}
    if parallel:
        wk = {'read_max_workers': w, 'read_chunksize': c} if case['direction'] == 'read' else \
             {'write_max_workers': w, 'write_chunksize': c}
    base = {'index_depth': 1, 'include_index': True} if case['fmt'] != 'pickle' else {}
    if case.get('encoded'):
        wk = dict(wk, label_encoder=str, label_decoder=int)
    default = sf.StoreConfig(**base, **wk)
    if not case['per_label']:
        return default, {}
    m = {lab: sf.StoreConfig(index_depth=o['index_depth'], include_index=o['include_index'],
                             **({'dtypes': {k: str for k in o['dtypes']}} if o.get('dtypes') else {}), **wk)
         for lab, o in case['per_label'].items()}
    return sf.StoreConfigMap(m, default=default), case['per_label']


def _with_slow(frame, cell):
    import static_frame as sf
    col = np.empty(len(frame.index), dtype=object)
    col[:] = None
    col[0] = cell
    arrays = [(lab, arr) for lab, arr in zip(frame.columns, frame._blocks.axis_values(0))]
    arrays.append(('__slow__', col))
    return sf.Frame.from_items(arrays, index=frame.index, name=frame.name)


def _zip_members(fp_):
    with zipfile.ZipFile(fp_) as zf:
        return [(n, zf.read(n)) for n in zf.namelist()]


def _check_store(case, ctx, tmp, out):
    import static_frame as sf
    fmt, direction = case['fmt'], case['direction']
    labels = list(case['labels'])
    n = len(labels)
    delays = _delays_for(n, case['forced'], case['delays'])
    log = os.path.join(tmp, 'tasks.log')
    frames = [F.build_frame(s, lay) for s, lay in zip(case['specs'], case['layouts'])]
    if case['slow']:
        phase = 'reduce' if direction == 'write' else 'rebuild'
        frames = [_with_slow(f, SlowCell(os.getpid(), i, delays[i], phase, log, case['forced'] is not None)) for i, f in enumerate(frames)]
    by_label = dict(zip(labels, frames))
    cls = _store_cls(fmt)
    cfg_seq, _ = _store_config(case, False)
    cfg_par, per = _store_config(case, True)
    w = case['workers']
    multiproc = (w > 1) if direction == 'write' else True
    ctx.tally('store_branch', f"{direction}:{'multiprocess' if multiproc else 'in_process'}")
    ctx.tally('store_format', fmt)
    ctx.tally('store_via', case['via'])
    ctx.tally('chunking', 'store:chunked' if case['chunksize'] > 1 else 'store:unchunked')
    if per:
        ctx.tally('store_config', 'per_label_config_map')
    klass = {'api': 'store', 'fmt': fmt, 'direction': direction, 'via': case['via'], 'workers': 'many' if w > 1 else 'one',
             'chunked': case['chunksize'] > 1, 'per_label_config': bool(per), 'slow_cells': case['slow'],
             'repeated_read_labels': len(set(case['read_labels'])) < len(case['read_labels']), 'n_tasks_ge_2': n >= 2,
             'encoded_labels': bool(case.get('encoded'))}
    detail = {'labels': labels, 'workers': w, 'chunksize': case['chunksize'], 'read_labels': case['read_labels']}
    ext = {'pickle': '.pickle', 'tsv': '.txt', 'csv': '.csv'}[fmt]

    def write(path, cfg):
        if case['via'] == 'bus':
            bus = sf.Bus.from_frames(frames)
            getattr(bus, f'to_zip_{fmt}')(path, config=cfg)
        else:
            cls(path).write(iter(list(zip(labels, frames))), config=cfg)

    def finish(done_ids, nontrivial):
        ctx.evaluation(('store', fmt, direction, case['via'], repr(case['specs']), repr(case['layouts']), repr(labels),
                        repr(case['read_labels']), repr(sorted(case['per_label'].items())), w, case['chunksize'], case['slow'],
                        tuple(delays)), nontrivial)
        ctx.sample({'api': 'store', 'fmt': fmt, 'direction': direction, 'via': case['via'], 'n_frames': n, 'workers': w,
                    'chunksize': case['chunksize'], 'forced': case['forced'], 'observed_completion': done_ids})

    if direction == 'write':
        p_seq, p_par = os.path.join(tmp, 'seq.zip'), os.path.join(tmp, 'par.zip')
        _, seq_exc = _call(lambda: write(p_seq, cfg_seq))
        with _Watchdog(f'store write {fmt}'):
            _, par_exc = _call(lambda: write(p_par, cfg_par))
        done, _s, _w = _read_log(log)
        out['done'] = done
        if case['slow'] and sorted(done) == list(range(n)) and 2 <= n <= 4:
            ctx.tally('observed_order_store_write', _perm_key(n, done))
        ctx.tally('completion', f'store_write:{_order_class(done)}' if done else 'store_write:not_logged')
        finish(done, n >= 2 and w >= 2)
        if _judge_exceptions(ctx, 'store', seq_exc, par_exc, klass, detail):
            return
        ms, mp = _zip_members(p_seq), _zip_members(p_par)
        if [a for a, _ in ms] != [a for a, _ in mp]:
            ctx.violation('pool_result_differs_from_sequential',
                          detail=dict(detail, what='member names/order', sequential=[a for a, _ in ms], pool=[a for a, _ in mp]), klass=klass)
            return
        if [a for a, _ in mp] != [str(lab) + ext for lab in labels]:
            ctx.violation('both_forms_differ_from_pairing_model', detail=dict(detail, problem='member order', pool=[a for a, _ in mp]),
                          klass=klass)
            return
        for lab, (_, bs), (_, bp) in zip(labels, ms, mp):
            if fmt == 'pickle':
                fs_, fp2 = canon.snap(pickle.loads(bs)), canon.snap(pickle.loads(bp))
                want = canon.snap(by_label[lab])
                if fs_ != fp2:
                    ctx.violation('pool_result_differs_from_sequential', detail=dict(detail, label=lab, pool=canon.brief(fp2, 600)), klass=klass)
                    return
                if fp2 != want:
                    ctx.violation('both_forms_differ_from_pairing_model',
                                  detail=dict(detail, problem=f'member {lab} holds another frame', pool=canon.brief(fp2, 600)), klass=klass)
                    return
            else:
                if bs != bp:
                    ctx.violation('pool_result_differs_from_sequential',
                                  detail=dict(detail, label=lab, sequential=bs[:300].decode(), pool=bp[:300].decode()), klass=klass)
                    return
                o = per.get(lab, {'include_index': True})
                dst = StringIO()
                exporter = sf.Frame.to_tsv if fmt == 'tsv' else sf.Frame.to_csv
                exporter(by_label[lab], dst, include_index=o['include_index'], include_index_name=True,
                         include_columns=True, include_columns_name=False)
                if dst.getvalue().encode() != bp:
                    ctx.violation('both_forms_differ_from_pairing_model',
                                  detail=dict(detail, problem=f'member {lab} is not the text of its frame under its own config',
                                              pool=bp[:300].decode()), klass=klass)
                    return
        return

    # read: a sequentially written file, read back with and without workers
    path = os.path.join(tmp, 'src.zip')
    _, w_exc = _call(lambda: write(path, cfg_seq))
    if w_exc is not None:
        ctx.tally('store_setup', f'sequential write raised {type(w_exc).__name__}')
        finish([], False)
        return
    rl = list(case['read_labels'])

    def read(cfg):
        if case['via'] == 'bus':
            bus = getattr(sf.Bus, f'from_zip_{fmt}')(path, config=cfg)
            return [f for _, f in bus.loc[rl].items()]
        st = cls(path)
        if len(rl) == 1:
            return [st.read(rl[0], config=cfg)]
        return list(st.read_many(iter(rl), config=cfg))

    seq, seq_exc = _call(lambda: read(cfg_seq))
    with _Watchdog(f'store read {fmt}'):
        par, par_exc = _call(lambda: read(cfg_par))
    done, _s, _w = _read_log(log)
    out['done'] = done
    if case['slow'] and rl == labels and sorted(done) == list(range(n)) and 2 <= n <= 4:
        ctx.tally('observed_order_store_read', _perm_key(n, done))
    ctx.tally('completion', f'store_read:{_order_class(done)}' if done else 'store_read:not_logged')
    ctx.tally('read_labels', 'repeated' if klass['repeated_read_labels'] else ('in_file_order' if rl == labels else 'reordered_or_subset'))
    finish(done, len(rl) >= 2 and w >= 2)
    if _judge_exceptions(ctx, 'store', seq_exc, par_exc, klass, detail):
        return
    gs, gp = [canon.snap(f) for f in seq], [canon.snap(f) for f in par]
    if gs != gp:
        ctx.violation('pool_result_differs_from_sequential',
                      detail=dict(detail, sequential=canon.brief(gs, 900), pool=canon.brief(gp, 900)), klass=klass)
        return
    if len(gp) != len(rl):
        ctx.violation('both_forms_differ_from_pairing_model', detail=dict(detail, problem=f'{len(gp)} frames for {len(rl)} labels'), klass=klass)
        return
    members = dict(_zip_members(path))
    for lab, g in zip(rl, gp):
        if fmt == 'pickle':
            want = canon.snap(by_label[lab])
        else:
            o = per.get(lab, {'index_depth': 1})
            ctor = sf.Frame.from_tsv if fmt == 'tsv' else sf.Frame.from_csv
            model, m_exc = _call(lambda: ctor(StringIO(members[str(lab) + ext].decode()), index_depth=o['index_depth'],
                                              columns_depth=1, name=lab, **({'dtypes': {k: str for k in o['dtypes']}} if o.get('dtypes') else {})))
            if m_exc is not None:
                ctx.tally('model', 'delimited constructor raised in the harness although both forms returned')
                continue
            want = canon.snap(model)
        if g != want:
            ctx.violation('both_forms_differ_from_pairing_model',
                          detail=dict(detail, problem=f'frame returned for label {lab} is not the frame stored under it',
                                      pool=canon.brief(g, 600), expected=canon.brief(want, 600)), klass=klass)
            return


def _check_align(case, ctx):
    """StoreConfigMap: per-label worker settings must match the default (store.py:382)."""
    import static_frame as sf
    default = sf.StoreConfig(index_depth=0, **case['default'])
    label = sf.StoreConfig(index_depth=case['index_depth'], **case['label'])
    mismatch = sorted(a for a in case['default'] if case['default'][a] != case['label'][a])
    out, exc = _call(lambda: sf.StoreConfigMap({'a': label}, default=default))
    ctx.evaluation(('align', repr(sorted(case['default'].items())), repr(sorted(case['label'].items()))), bool(mismatch))
    ctx.tally('config_alignment', 'mismatch' if mismatch else 'aligned')
    klass = {'api': 'store_config', 'mismatch': bool(mismatch)}
    if mismatch:
        if exc is None:
            ctx.violation('inconsistent_worker_settings_accepted', detail={'mismatch': mismatch}, klass=klass)
        elif not isinstance(exc, sf.ErrorInitStoreConfig):
            ctx.violation('inconsistent_worker_settings_wrong_error', detail=_exc_info(exc), klass=dict(klass, exception=type(exc).__name__))
        else:
            ctx.tally('expected_errors', 'ErrorInitStoreConfig')
    elif exc is not None:
        ctx.violation('aligned_worker_settings_rejected', detail=_exc_info(exc), klass=dict(klass, exception=type(exc).__name__))
    elif out['a'] is not label or out['zzz'] is not default:
        ctx.violation('config_map_lookup', detail={}, klass=klass)
