"""C16 — single-table export/import round trips reproduce the Frame.

Three case families, all judged against the FrameSpec the Frame was built from (the
reference model is the spec itself: a round trip must give back its labels and cells):

* delim   to_csv / to_tsv / to_delimited(',', tab, '|', ';') -> from_csv / from_tsv /
          from_delimited with the matching index_depth / columns_depth (and, optionally,
          the matching name options), through a StringIO or a temp file;
* memory  to_pairs / items / iter_tuple / iter_tuple_items / values / iter_array ->
          from_items / from_dict / from_records / from_records_items / from_dict_records(_items);
* pickle  pickle (protocols 2..5) and copy.deepcopy of Frame / FrameGO / FrameHE / Series.

Scope (which texts are "unambiguous for their type") is decided by the classifier documented
in sfmon/gen/c16_text.py.
"""
import copy
import io
import keyword
import os
import pickle
import shutil
import tempfile

import numpy as np

from sfmon import canon
from sfmon.canon import cs, veq
from sfmon.gen import c16_text as T
from sfmon.gen import frames as F
from sfmon.gen import labels as L
from sfmon.gen import values as V

PROPERTY = 'C16'
RULE = ('cases = (FrameSpec, block layout, family, configuration): delim = route csv/tsv/delimited x delimiter x quote char x '
        'include_index x include_columns x name option x StringIO/file x Frame/FrameGO over bool/int/float/str(+missing) columns, '
        'str/int labels, index depth 1-3, columns depth 1-2, texts from an alphabet with delimiters, quotes, spaces and '
        'digit-looking strings filtered by the ambiguity classifier; memory = one of 11 export->constructor routes; pickle = '
        'protocol 2-5 or deepcopy of Frame/FrameGO/FrameHE/Series over all dtype kinds and index kinds; a case is non-trivial when '
        'the table has >= 1 row and >= 1 column; distinct = hash of (spec, layout, configuration)')
EXPLANATION = 'sampled; the configuration factors (route x delimiter x include flags x names) are all reached and tallied'
EXHAUSTIVE = {'quick': False, 'thorough': False}
ASSUMPTIONS = ['the reference is the FrameSpec the Frame was built from; labels compared exactly, delimited cells exactly '
               '(type kind and value; float text is exact), in-memory routes at value strength (NaN==NaN, int==float iff equal)',
               'ambiguity classifier (gen/c16_text.py): str columns need one plain text, labels/names must be plain, no control '
               'characters, no StoreFilter aliases, "" only in frames without missing values (then store_filter=None on import)',
               'a zero-row table written without its header, and tables with neither rows nor columns, carry no text and are not judged',
               'iter_tuple is called with constructor=tuple when the column labels are not valid namedtuple fields (documented requirement)']
TIERS = {'quick': {'shards': 8, 'budget_s': 300, 'min_nontrivial': 15000},
         'thorough': {'shards': 16, 'budget_s': 2400, 'min_nontrivial': 150000}}
ANCHORS = {
    'static_frame.core.frame': ['Frame._to_str_records', 'Frame.to_delimited', 'Frame.to_csv', 'Frame.to_tsv',
                                'Frame.from_delimited', 'Frame.from_csv', 'Frame.from_tsv', 'Frame._structured_array_to_d_ia_cl',
                                'Frame.to_pairs', 'Frame.from_items', 'Frame.from_dict', 'Frame.from_records',
                                'Frame.from_records_items', 'Frame.from_dict_records', 'Frame.from_dict_records_items',
                                'Frame.items', 'Frame._axis_tuple', 'Frame.__deepcopy__'],
    'static_frame.core.container_util': ['apex_to_name', 'array_from_value_iter'],
    'static_frame.core.store_filter': ['StoreFilter.from_type_filter_element', 'StoreFilter.to_type_filter_array',
                                       'StoreFilter.to_type_filter_iterable'],
    'static_frame.core.type_blocks': ['TypeBlocks.__setstate__', 'TypeBlocks.__deepcopy__', 'TypeBlocks.element_items'],
    'static_frame.core.index': ['Index.__setstate__', 'Index.__deepcopy__'],
    'static_frame.core.index_hierarchy': ['IndexHierarchy.__deepcopy__'],
    'static_frame.core.series': ['Series.__setstate__', 'Series.__deepcopy__'],
    'static_frame.core.util': ['iterable_to_array_1d'],
}
REQUIRED_ANCHORS = ['frame.Frame._to_str_records', 'frame.Frame.to_delimited', 'frame.Frame.from_delimited',
                    'frame.Frame._structured_array_to_d_ia_cl', 'container_util.apex_to_name',
                    'store_filter.StoreFilter.to_type_filter_array', 'store_filter.StoreFilter.from_type_filter_element',
                    'frame.Frame.to_pairs', 'frame.Frame.from_items', 'frame.Frame.from_records', 'frame.Frame.from_dict_records',
                    'type_blocks.TypeBlocks.__setstate__', 'index.Index.__setstate__', 'series.Series.__setstate__',
                    'frame.Frame.__deepcopy__']
REQUIRED_TALLIES = [('delim_route', 'csv'), ('delim_route', 'tsv'), ('delim_route', 'delimited'),
                    ('delimiter', 'comma'), ('delimiter', 'tab'), ('delimiter', 'pipe'), ('delimiter', 'semicolon'),
                    ('import_branch', 'csv.reader'), ('import_branch', 'raw_tab'),
                    ('include', 'index+columns'), ('include', 'index'), ('include', 'columns'), ('include', 'neither'),
                    ('names', 'index'), ('names', 'columns'),
                    ('hostile_text', 'delimiter_in_field'), ('hostile_text', 'quote_char_in_field'),
                    ('hostile_text', 'space_edge'), ('hostile_text', 'empty_string'), ('hostile_text', 'lookalike_in_str_column'),
                    ('hostile_text', 'missing_value'), ('hostile_text', 'int_beyond_2p53'), ('hostile_text', 'negative_number'),
                    ('depths', 'i3/c2'), ('depths', 'i1/c1'),
                    ('family', 'delim'), ('family', 'memory'), ('family', 'pickle'), ('pickle_op', 'deepcopy')]

DELIM_NAMES = {',': 'comma', '\t': 'tab', '|': 'pipe', ';': 'semicolon'}
MEMORY_ROUTES = ['pairs0->from_items', 'pairs0->from_dict', 'pairs1->from_dict_records', 'pairs1->from_dict_records_items',
                 'items->from_items', 'items->from_dict', 'iter_array->from_items', 'iter_tuple->from_records',
                 'iter_tuple_items->from_records_items', 'values->from_records', 'iter_tuple0->from_items',
                 'iter_array1->from_records', 'iter_array_items1->from_records_items']
ROW_WISE = ('iter_tuple->from_records', 'iter_tuple_items->from_records_items', 'pairs1->from_dict_records',
            'pairs1->from_dict_records_items', 'values->from_records', 'iter_array1->from_records', 'iter_array_items1->from_records_items')
_MEM_DTYPES_ROW = ['bool', 'int64', 'float64', '<U5', 'object', 'int8', 'float32', '<U1', 'complex128']
_MEM_DTYPES_COL = _MEM_DTYPES_ROW + ['M8[D]', 'm8[D]', 'S5', 'uint8']
_MEM_ROW_KINDS = ['auto', 'int', 'str', 'negint', 'hier2', 'hier3', 'float']
_MEM_COL_KINDS = ['str', 'int', 'auto', 'hier2', 'negint']
_PICKLE_ROW_KINDS = ['auto', 'int', 'str', 'negint', 'IndexDate', 'hier2', 'hier3', 'mixed', 'float', 'IndexYearMonth', 'tuple', 'range']
_PICKLE_COL_KINDS = ['str', 'int', 'auto', 'hier2', 'negint', 'mixed', 'IndexDate']


# --------------------------------------------------------------------------------------
# generation

TECHNIQUE = 'runtime monitoring: round-trip oracle (export then import must reproduce labels, cells at value strength and names) for delimited text, pickle, records / pairs / items constructors and structured arrays'


def _delim_case(rng):
    spec, _ = T.gen_table(rng)
    lays = F.layouts(spec.dtypes, limit=24)
    lay = rng.choice(lays)
    route = rng.choice(['csv', 'csv', 'tsv', 'tsv', 'delimited', 'delimited'])
    delimiter = {'csv': ',', 'tsv': '\t'}.get(route) or rng.choice(T.DELIMITERS)
    r = rng.random()
    include_index, include_columns = (True, True) if r < 0.7 else ((True, False) if r < 0.8 else ((False, True) if r < 0.9 else (False, False)))
    names, index_name, columns_name = 'none', None, None
    if include_index and include_columns and rng.random() < 0.3:
        names = rng.choice(['index', 'columns'])
        depth = _depth(spec.row_kind) if names == 'index' else _depth(spec.col_kind)
        nm = rng.sample(T.NAME_STR, depth)
        if names == 'index':
            index_name = nm[0] if depth == 1 else tuple(nm)
        else:
            columns_name = nm[0] if depth == 1 else tuple(nm)
    return {'kind': 'delim', 'spec': spec, 'layout': lay, 'route': route, 'delimiter': delimiter,
            'quote_char': "'" if rng.random() < 0.15 else '"', 'include_index': include_index,
            'include_columns': include_columns, 'names': names, 'index_name': index_name, 'columns_name': columns_name,
            'medium': 'path' if rng.random() < 0.2 else 'stringio', 'cls': 'FrameGO' if rng.random() < 0.2 else 'Frame',
            'filter_off_mode': rng.choice(['None', 'disabled'])}


def _memory_case(rng):
    route = rng.choice(MEMORY_ROUTES)
    dtypes = _MEM_DTYPES_ROW if route in ROW_WISE else _MEM_DTYPES_COL
    spec = F.random_spec(rng, max_rows=5, max_cols=5, min_rows=0, min_cols=0, dtypes=dtypes,
                         row_kinds=_MEM_ROW_KINDS, col_kinds=_MEM_COL_KINDS)
    # object columns: one kind of value (str / int / float / bool / int beyond int64) plus missing values --
    # the statement quantifies over bool/int/float/str columns with missing values, not over arbitrary mixtures
    for j, dt in enumerate(spec.dtypes):
        if dt == 'object':
            base = rng.choice(['str', 'int', 'float', 'bool', 'bigint'])
            pool = {'str': ['a', 'b', '', 'x y', '12'], 'int': [0, 1, -3, 2**53 + 1], 'float': [0.5, -2.25, 1e10, 3.0],
                    'bool': [True, False], 'bigint': [2**70, -2**64, 1]}[base]
            p_miss = rng.choice([0.0, 0.3, 0.6])
            for row in spec.cells:
                row[j] = (None if rng.random() < 0.5 else float('nan')) if rng.random() < p_miss else rng.choice(pool)
    lay = rng.choice(F.layouts(spec.dtypes, limit=24))
    return {'kind': 'memory', 'spec': spec, 'layout': lay, 'route': route, 'cls': rng.choice(['Frame', 'Frame', 'FrameGO', 'FrameHE']),
            'tuple_constructor': rng.random() < 0.5, 'pass_index_object': rng.random() < 0.5}


def _pickle_case(rng):
    op = rng.choice(['pickle', 'pickle', 'deepcopy'])
    proto = rng.choice([2, 3, 4, 5])
    if rng.random() < 0.25:
        spec = F.random_series_spec(rng, max_n=6, dtypes=V.ALL_DTYPES,
                                    kinds=['auto', 'int', 'str', 'negint', 'IndexDate', 'hier2', 'mixed', 'float', 'tuple'])
        return {'kind': 'pickle', 'container': 'Series', 'spec': spec, 'op': op, 'protocol': proto,
                'cls': rng.choice(['Series', 'SeriesHE'])}
    spec = F.random_spec(rng, max_rows=5, max_cols=5, dtypes=V.ALL_DTYPES, row_kinds=_PICKLE_ROW_KINDS, col_kinds=_PICKLE_COL_KINDS)
    lay = rng.choice(F.layouts(spec.dtypes, limit=24))
    return {'kind': 'pickle', 'container': 'Frame', 'spec': spec, 'layout': lay, 'op': op, 'protocol': proto,
            'cls': rng.choice(['Frame', 'Frame', 'FrameGO', 'FrameHE']),
            'index_name': rng.choice([None, 'ix', ('a', 1)]), 'columns_name': rng.choice([None, 'cx', 5])}


def generate(ctx):
    rng = ctx.rng
    for _ in range(ctx.n(60000, 900000)):
        r = rng.random()
        if r < 0.62:
            yield _delim_case(rng)
        elif r < 0.87:
            yield _memory_case(rng)
        else:
            yield _pickle_case(rng)


def probes(ctx):
    from sfmon.gen.frames import FrameSpec, SeriesSpec
    base = {'kind': 'delim', 'layout': None, 'quote_char': '"', 'include_index': True, 'include_columns': True, 'names': 'none',
            'index_name': None, 'columns_name': None, 'medium': 'stringio', 'cls': 'Frame', 'filter_off_mode': 'None'}
    out = []
    # TSV field holding the quote character
    out.append(dict(base, spec=FrameSpec(['x', 'y'], ['a', 'b'], 'str', 'str', ['int64', '<U3'], [[1, 'q"t'], [2, 'ab']]),
                    route='tsv', delimiter='\t'))
    # a column whose cells are all missing
    out.append(dict(base, spec=FrameSpec(['x', 'y'], ['a', 'b'], 'str', 'str', ['<U1', 'float64'], [['p', T.NAN], ['q', T.NAN]]),
                    route='csv', delimiter=','))
    # a table whose text has a single column
    out.append(dict(base, spec=FrameSpec([0, 1, 2], ['a'], 'int', 'str', ['int64'], [[1], [2], [3]]),
                    route='csv', delimiter=',', include_index=False))
    # rows of a frame without columns are not written
    out.append(dict(base, spec=FrameSpec([('x', 1), ('x', 2)], [], 'hier2', 'str', [], [[], []]), route='csv', delimiter=','))
    # a leading space in the first field of a line
    out.append(dict(base, spec=FrameSpec([' x', 'y'], ['a', 'b'], 'str', 'str', ['int64', 'bool'], [[1, True], [2, False]]),
                    route='csv', delimiter=','))
    # no data row, index_depth 2
    out.append(dict(base, spec=FrameSpec([], ['a', 'b'], 'hier2', 'str', ['int64', 'bool'], []), route='csv', delimiter=','))
    # columns_depth 2 read with store_filter=None (the table holds '' and no missing value)
    out.append(dict(base, spec=FrameSpec(['x', 'y'], [('A', 'p'), ('A', 'q')], 'str', 'hier2', ['<U1', 'int64'], [['', 1], ['k', 2]]),
                    route='csv', delimiter=','))
    # an int-looking text before a non-numeric text in one str column
    out.append(dict(base, spec=FrameSpec(['x', 'y'], ['a', 'b'], 'str', 'str', ['<U2', 'int64'], [['12', 1], ['ab', 2]]),
                    route='csv', delimiter=','))
    # an object column of bools and NaN rebuilt from its elements
    out.append({'kind': 'memory', 'spec': FrameSpec(['x', 'y'], ['a', 'b'], 'str', 'str', ['object', 'int64'], [[True, 1], [T.NAN, 2]]),
                'layout': None, 'route': 'pairs0->from_items', 'cls': 'Frame', 'tuple_constructor': True, 'pass_index_object': True})
    # unpickled index positions
    out.append({'kind': 'pickle', 'container': 'Frame', 'spec': FrameSpec(['x', 'y'], ['a', 'b'], 'str', 'str', ['int64', 'bool'],
                                                                        [[1, True], [2, False]]),
                'layout': None, 'op': 'pickle', 'protocol': 4, 'cls': 'Frame', 'index_name': None, 'columns_name': None})
    # items() with hierarchical columns
    out.append({'kind': 'memory', 'spec': FrameSpec(['x', 'y'], [('A', 1), ('A', 2)], 'str', 'hier2', ['int64', 'int64'], [[1, 2], [3, 4]]),
                'layout': None, 'route': 'items->from_items', 'cls': 'Frame', 'tuple_constructor': True, 'pass_index_object': True})
    # int beyond 2**53 in a row of numeric columns of different kinds
    out.append({'kind': 'memory', 'spec': FrameSpec(['x', 'y'], ['a', 'b'], 'str', 'str', ['int64', 'float64'], [[2**53 + 1, 1.5], [3, 2.5]]),
                'layout': None, 'route': 'iter_tuple->from_records', 'cls': 'Frame', 'tuple_constructor': True, 'pass_index_object': True})
    return out


# --------------------------------------------------------------------------------------
# helpers

def _depth(kind):
    return int(kind[4]) if kind.startswith('hier') else 1


def _cls(name):
    import static_frame as sf
    return getattr(sf, name)


def _build(spec, layout, cls, index_name=None, columns_name=None):
    """The Frame described by spec with this block layout and these axis names."""
    from static_frame.core.type_blocks import TypeBlocks
    import static_frame as sf
    if layout is None:
        layout = F.layout_all_1d(spec.dtypes)
    nr, nc = spec.shape
    idx = L.build_index(spec.row_kind, spec.rows, name=index_name)
    col = L.build_index(spec.col_kind, spec.cols, name=columns_name, go=cls is sf.FrameGO)
    if idx is None and index_name is not None:
        idx = sf.Index(range(nr), name=index_name)
    if col is None and columns_name is not None:
        col = (sf.IndexGO if cls is sf.FrameGO else sf.Index)(range(nc), name=columns_name)
    if nc == 0:
        return cls(index=idx if idx is not None else range(nr), columns=col if col is not None else (), name=spec.name)
    tb = TypeBlocks.from_blocks(F.blocks_for(spec, layout))
    return cls(tb, index=idx, columns=col, name=spec.name)


def _call(fn):
    try:
        return fn(), None
    except Exception as e:  # judged by the caller
        return None, e


def _labels_cs(labels):
    return tuple(cs(l) for l in labels)


def _coltype(dt):
    if dt == 'object':
        return 'strobj'
    if dt.startswith('<U'):
        return 'str'
    return dt


def _is_nan(v):
    return isinstance(v, float) and v != v


def _cell_text(v):
    """Text class of a cell as the property sees it: '' for NaN (missing), 'None' for None."""
    if v is None:
        return 'None'
    if _is_nan(v):
        return ''
    return f'{v}'


# --------------------------------------------------------------------------------------
# delimited

def _delim_scope(case):
    """(reason or None, filter_off): the ambiguity classifier applied to the whole case."""
    spec = case['spec']
    nr, nc = spec.shape
    has_missing = any(v is None or _is_nan(v) for row in spec.cells for v in row)
    has_empty = any(isinstance(v, str) and v == '' for row in spec.cells for v in row)
    if has_missing and has_empty:
        return 'empty_string_with_missing', False
    filter_off = has_empty
    aliases = frozenset() if filter_off else T.DEFAULT_ALIASES
    if nr == 0 and not case['include_columns']:
        return 'no_text', filter_off
    if nc == 0 and not case['include_index']:
        return 'no_text', filter_off
    # labels and names
    for axis, kind, labels, inc in (('index', spec.row_kind, spec.rows, case['include_index']),
                                    ('columns', spec.col_kind, spec.cols, case['include_columns'])):
        d = _depth(kind)
        for level in range(d):
            lv = [l[level] if d > 1 else l for l in labels]
            kinds = {type(x) is str for x in lv}
            if len(kinds) > 1:
                return f'{axis}_level_mixes_int_and_str', filter_off
            for x in lv:
                why = T.label_scope(x, aliases)
                if why:
                    return f'{axis}_{why}', filter_off
        if len(set(labels)) != len(labels):
            return f'{axis}_duplicates', filter_off
    for nm in (case['index_name'], case['columns_name']):
        if nm is not None:
            for x in (nm if isinstance(nm, tuple) else (nm,)):
                if not isinstance(x, str) or T.text_class(x, aliases) != 'plain':
                    return 'name_not_plain', filter_off
    for j, dt in enumerate(spec.dtypes):
        ct = _coltype(dt)
        col = spec.col_values(j)
        if ct == 'bool':
            ok = all(isinstance(v, bool) for v in col)
        elif ct.startswith('int'):
            ok = all(isinstance(v, int) and not isinstance(v, bool) and -2**63 <= v < 2**63 for v in col)
        elif ct == 'float64':
            ok = all(isinstance(v, float) for v in col)
        elif ct == 'str':
            ok = all(isinstance(v, str) for v in col)
            if ok:
                why = T.str_column_scope(col, aliases, empty_ok=filter_off)
                if why:
                    return f'str_column_{why}', filter_off
        elif ct == 'strobj':
            ok = all(v is None or _is_nan(v) or isinstance(v, str) for v in col)
            if ok:
                texts = [v for v in col if isinstance(v, str)]
                for t in texts:
                    if T.text_class(t, aliases) != 'plain':
                        return 'strobj_text_not_plain', filter_off
        else:
            ok = False
        if not ok:
            return f'column_type_{ct}', filter_off
    return None, filter_off


def _int_text_hazard(spec, include_index):
    """Input class: some text column (a str data column or a str index level) holds an
    int-looking text before a text that is not a number."""
    columns = []
    for j, dt in enumerate(spec.dtypes):
        if _coltype(dt) in ('str', 'strobj'):
            columns.append([_cell_text(v) for v in spec.col_values(j)])
    if include_index:
        d = _depth(spec.row_kind)
        for level in range(d):
            lv = [l[level] if d > 1 else l for l in spec.rows]
            if lv and isinstance(lv[0], str):
                columns.append(lv)
    for col in columns:
        seen_int = False
        for t in col:
            if _parses_as(int, t):
                seen_int = True
            elif seen_int and not _parses_as(float, t) and t != '':
                return True
    return False


def _parses_as(fn, t):
    try:
        fn(t)
        return True
    except (ValueError, OverflowError):
        return False


def _field_quoted(text, delimiter, quote_char):
    """csv QUOTE_MINIMAL (statement level: a field must be quoted when it holds the delimiter
    or the quote character; in-scope texts hold no line break)."""
    return delimiter in text or quote_char in text


def _tally_hostile(ctx, case, spec, filter_off):
    d, q = case['delimiter'], case['quote_char']
    seen = set()
    for j, dt in enumerate(spec.dtypes):
        ct = _coltype(dt)
        col = spec.col_values(j)
        for v in col:
            if isinstance(v, str):
                if d in v:
                    seen.add('delimiter_in_field')
                if q in v:
                    seen.add('quote_char_in_field')
                if v != v.strip(' '):
                    seen.add('space_edge')
                if v == '':
                    seen.add('empty_string')
                elif ct == 'str' and T.text_class(v) == 'lookalike':
                    seen.add('lookalike_in_str_column')
                if not v.isascii():
                    seen.add('non_ascii')
            elif v is None or _is_nan(v):
                seen.add('missing_value')
            elif isinstance(v, bool):
                seen.add('boolean')
            elif isinstance(v, int):
                if abs(v) > 2**53:
                    seen.add('int_beyond_2p53')
                if v < 0:
                    seen.add('negative_number')
            elif isinstance(v, float):
                if v in (float('inf'), float('-inf')):
                    seen.add('infinity')
                if v < 0:
                    seen.add('negative_number')
                if abs(v) >= 1e16 or (v != 0 and abs(v) < 1e-4):
                    seen.add('float_scientific_text')
        if col and all(_cell_text(v) == '' for v in col):
            seen.add('all_empty_text_column')
    for labels, inc in ((spec.rows, case['include_index']), (spec.cols, case['include_columns'])):
        if inc:
            for l in labels:
                for x in (l if isinstance(l, tuple) else (l,)):
                    if isinstance(x, str) and (d in x or q in x):
                        seen.add('quoted_label')
    for s in seen:
        ctx.tally('hostile_text', s)


def _export(f, case, write_kw, path):
    route, d = case['route'], case['delimiter']
    target = path if path else io.StringIO()
    if route == 'csv':
        f.to_csv(target, **write_kw)
    elif route == 'tsv':
        f.to_tsv(target, **write_kw)
    else:
        f.to_delimited(target, delimiter=d, **write_kw)
    if path:
        with open(path, 'r', newline='') as fh:
            return fh.read()
    return target.getvalue()


def _import(cls, case, read_kw, text, path):
    route, d = case['route'], case['delimiter']
    source = path if path else io.StringIO(text)
    if route == 'csv':
        return cls.from_csv(source, **read_kw)
    if route == 'tsv':
        return cls.from_tsv(source, **read_kw)
    return cls.from_delimited(source, delimiter=d, **read_kw)


def _check_delim(case, ctx):
    spec = case['spec']
    nr, nc = spec.shape
    reason, filter_off = _delim_scope(case)
    if reason:
        ctx.tally('out_of_scope', reason)
        return
    cls = _cls(case['cls'])
    d, q = case['delimiter'], case['quote_char']
    inc_i, inc_c = case['include_index'], case['include_columns']
    idepth, cdepth = _depth(spec.row_kind), _depth(spec.col_kind)
    f = _build(spec, case['layout'], cls, case['index_name'], case['columns_name'])
    text_columns = (idepth if inc_i else 0) + nc
    config = (case['route'], d, q, inc_i, inc_c, case['names'], case['index_name'], case['columns_name'], case['medium'], case['cls'])
    ctx.evaluation(('delim', repr(spec), repr(case['layout']), config), nr >= 1 and nc >= 1)
    ctx.tally('family', 'delim')
    ctx.tally('delim_route', case['route'])
    ctx.tally('delimiter', DELIM_NAMES[d])
    ctx.tally('import_branch', 'raw_tab' if d == '\t' else 'csv.reader')
    ctx.tally('quote_char', q)
    ctx.tally('include', {(True, True): 'index+columns', (True, False): 'index', (False, True): 'columns', (False, False): 'neither'}[(inc_i, inc_c)])
    ctx.tally('names', case['names'])
    ctx.tally('medium', case['medium'])
    ctx.tally('frame_class', case['cls'])
    ctx.tally('depths', f'i{idepth}/c{cdepth}')
    ctx.tally('shape', f'{min(nr, 4)}{"+" if nr > 4 else ""}x{min(nc, 4)}{"+" if nc > 4 else ""}')
    ctx.tally('layout_blocks', len(case['layout']) if case['layout'] is not None else nc)
    for dt in spec.dtypes:
        ctx.tally('column_type', _coltype(dt))
    _tally_hostile(ctx, case, spec, filter_off)

    write_kw = {'include_index': inc_i, 'include_columns': inc_c}
    read_kw = {'index_depth': idepth if inc_i else 0, 'columns_depth': cdepth if inc_c else 0}
    if q != '"':
        write_kw['quote_char'] = q
        read_kw['quote_char'] = q
    if case['names'] == 'index':
        read_kw['index_name_depth_level'] = 0
    elif case['names'] == 'columns':
        write_kw.update(include_index_name=False, include_columns_name=True)
        read_kw['columns_name_depth_level'] = 0
    if filter_off:
        # the matching configuration for a table holding '' and no missing value: nothing is decoded
        if case.get('filter_off_mode', 'None') == 'None':
            read_kw['store_filter'] = None
        else:
            import static_frame as sf
            empty = frozenset()
            read_kw['store_filter'] = sf.StoreFilter(to_nan=empty, to_nat=empty, to_none=empty, to_posinf=empty, to_neginf=empty)
    filter_mode = case.get('filter_off_mode', 'None') if filter_off else 'default'
    aliases = frozenset() if filter_off else T.DEFAULT_ALIASES

    klass = {'kind': 'delim', 'route': case['route'], 'delimiter': DELIM_NAMES[d], 'quote_char': q, 'include_index': inc_i,
             'include_columns': inc_c, 'names': case['names'], 'medium': case['medium'], 'text_columns': text_columns,
             'rows': min(nr, 2), 'zero_columns': nc == 0, 'index_depth': idepth, 'columns_depth': cdepth,
             'import_store_filter': filter_mode,
             'int_text_precedes_non_numeric_text': _int_text_hazard(spec, inc_i)}
    ctx.tally('import_store_filter', filter_mode)

    tmp = tempfile.mkdtemp(prefix='sfmon-c16-') if case['medium'] == 'path' else None
    path = os.path.join(tmp, 'table.txt') if tmp else None
    try:
        text, exc = _call(lambda: _export(f, case, write_kw, path))
        if exc is not None:
            ctx.violation('delimited_export_raised', detail={'exception': type(exc).__name__, 'message': str(exc)[:300]},
                          klass=dict(klass, part='export', exception=type(exc).__name__))
            return
        g, exc = _call(lambda: _import(cls, case, read_kw, text, path))
    finally:
        if tmp:
            shutil.rmtree(tmp, ignore_errors=True)
    ctx.sample({'delim': spec.brief(), 'route': case['route'], 'delimiter': d, 'text': text[:200]})
    shown = text if len(text) <= 700 else text[:700] + '…'
    if exc is not None:
        ctx.violation('delimited_import_raised', detail={'exception': type(exc).__name__, 'message': str(exc)[:300], 'text': shown},
                      klass=dict(klass, part='import', exception=type(exc).__name__))
        return
    if type(g) is not cls:
        ctx.violation('delimited_result_class', detail={'got': type(g).__name__}, klass=dict(klass, part='class'))

    # --- expected table (the spec) vs the Frame read back
    exp_rows = list(spec.rows) if inc_i else list(range(nr))
    exp_cols = list(spec.cols) if inc_c else list(range(nc))
    if tuple(g.shape) != (nr, nc):
        ctx.violation('delimited_shape_mismatch', detail={'expected': (nr, nc), 'got': tuple(g.shape), 'text': shown,
                                                          'got_frame': canon.brief(canon.snap(g), 600)},
                      klass=dict(klass, part='shape'))
        return
    ioff = idepth if inc_i else 0  # text position of the first data column

    def hazard(text, pos):
        """Input class of one text field at text-column position `pos` (never the value read back)."""
        out = []
        if isinstance(text, str):
            if d == '\t' and q in text:
                out.append('tab_quoted')
            if (pos == 0 and text[:1] == ' ') or (pos == text_columns - 1 and text[-1:] == ' '):
                out.append('line_edge_space')
        return '+'.join(out) or 'none'

    for axis, exp, idx, depth, included in (('index', exp_rows, g.index, idepth, inc_i), ('columns', exp_cols, g.columns, cdepth, inc_c)):
        got = canon.index_labels(idx)
        want_depth = depth if included else 1
        if not exp:
            want_depth = idx.depth  # an axis without labels: nothing to compare
        lk = dict(klass, part=f'{axis}_labels', axis=axis, label_kind=spec.row_kind if axis == 'index' else spec.col_kind)
        if len(got) != len(exp) or idx.depth != want_depth:
            ctx.violation('delimited_labels_mismatch', detail={'axis': axis, 'expected': _labels_cs(exp), 'got': _labels_cs(got),
                                                               'got_depth': idx.depth, 'text': shown},
                          klass=dict(lk, field_hazard='structure'))
            continue
        by_hazard = {}
        for i, (e, gv) in enumerate(zip(exp, got)):
            et = e if isinstance(e, tuple) else (e,)
            gt = gv if isinstance(gv, tuple) else (gv,)
            for level, (x, y) in enumerate(zip(et, gt)):
                if cs(x) != cs(y):
                    pos = level if axis == 'index' else ioff + i
                    hz = hazard(x, pos) if included else 'none'
                    by_hazard.setdefault(hz, []).append({'position': i, 'level': level, 'expected': cs(x), 'got': cs(y)})
        for hz, items in by_hazard.items():
            ctx.violation('delimited_labels_mismatch', detail={'axis': axis, 'differing': items[:8], 'text': shown},
                          klass=dict(lk, field_hazard=hz))
    # axis names written into the apex
    for which in ('index', 'columns'):
        if case['names'] != which:
            continue
        nm = case[f'{which}_name']
        got_nm = (g.index if which == 'index' else g.columns).name
        if cs(got_nm) != cs(nm):
            et = nm if isinstance(nm, tuple) else (nm,)
            gt = got_nm if isinstance(got_nm, tuple) else (got_nm,)
            if len(et) != len(gt):
                hz = 'structure'
            else:
                hzs = {hazard(x, level if which == 'index' else 0) for level, (x, y) in enumerate(zip(et, gt)) if cs(x) != cs(y)}
                hz = hzs.pop() if len(hzs) == 1 else 'none'
            ctx.violation('delimited_name_mismatch', detail={'axis': which, 'expected': cs(nm), 'got': cs(got_nm), 'text': shown},
                          klass=dict(klass, part=f'{which}_name', field_hazard=hz))
    # cells, column by column; one violation per (column type, input class of the differing fields)
    got_cols = canon.frame_columns(g)
    groups = {}
    for j in range(nc):
        if nr == 0:
            break  # no cell text: neither values nor a type can be read back
        ct = _coltype(spec.dtypes[j])
        col = spec.col_values(j)
        e = [cs(v) for v in col]
        garr = got_cols[j]
        gc = canon.arr_cells(garr)
        want_kind = {'bool': 'b', 'str': 'U', 'float64': 'f', 'strobj': None}.get(ct, 'i')
        kind_ok = want_kind is None or garr.dtype.kind == want_kind
        bad = [i for i in range(nr) if e[i] != gc[i]]
        if kind_ok and not bad:
            continue
        pos = ioff + j
        detail = {'column': j, 'expected': e, 'got': gc, 'got_dtype': str(garr.dtype)}
        if all(_cell_text(v) == '' for v in col):
            groups.setdefault((ct, 'all_empty_text_column', kind_ok, False), detail)
            continue
        # input class: a text at a line edge whose space-stripped form is empty or a StoreFilter alias
        blank_edge = any(isinstance(v, str) and 'line_edge_space' in hazard(v, pos)
                         and T.text_class(v.strip(' '), aliases) in ('empty', 'alias') for v in col)
        if not bad:
            groups.setdefault((ct, 'none', kind_ok, blank_edge), detail)
        for i in bad:
            groups.setdefault((ct, hazard(col[i], pos), kind_ok, blank_edge), detail)
    for (ct, hz, kind_ok, blank_edge), detail in groups.items():
        ctx.violation('delimited_cells_mismatch', detail=dict(detail, text=shown),
                      klass=dict(klass, part='cells', column_type=ct, field_hazard=hz, dtype_kind_ok=kind_ok,
                                 edge_text_strips_to_empty_or_alias=blank_edge))


# --------------------------------------------------------------------------------------
# in-memory routes

def _identifiers(labels):
    return all(isinstance(l, str) and l.isidentifier() and not keyword.iskeyword(l) and not l.startswith('_') for l in labels) \
        and len(set(labels)) == len(labels)


def _check_memory(case, ctx):
    import static_frame as sf
    spec, route = case['spec'], case['route']
    nr, nc = spec.shape
    cls = _cls(case['cls'])
    f = _build(spec, case['layout'], cls)
    hier_i, hier_c = spec.row_kind.startswith('hier'), spec.col_kind.startswith('hier')
    ih = sf.IndexHierarchy.from_labels
    ihc = sf.IndexHierarchyGO.from_labels if cls is sf.FrameGO else ih
    ikw = {'index_constructor': ih} if hier_i else {}
    ckw = {'columns_constructor': ihc} if hier_c else {}
    rows, cols = list(spec.rows), list(spec.cols)
    index_arg = f.index if case['pass_index_object'] else rows
    if hier_i and not case['pass_index_object'] and nr == 0:
        index_arg = f.index  # an empty label list carries no depth
    columns_arg = cols
    if hier_c and nc == 0:
        columns_arg = f.columns
    use_tuple = case['tuple_constructor'] or not _identifiers(cols)
    tkw = {'constructor': tuple} if use_tuple else {}
    kinds = {np.dtype('O' if dt == 'object' else dt).kind for dt in spec.dtypes}

    # routes that cannot carry the table are not judged (and say so)
    skip = None
    if route in ('pairs0->from_items', 'pairs0->from_dict', 'items->from_items', 'items->from_dict', 'iter_array->from_items') and nc == 0:
        skip = 'no_columns_no_items'
    elif route in ('pairs1->from_dict_records', 'pairs1->from_dict_records_items') and (nr == 0 or nc == 0):
        skip = 'no_records'
    elif route == 'pairs1->from_dict_records_items' and (hier_i or hier_c):
        skip = 'no_constructor_arguments'
    elif route in ('iter_tuple->from_records', 'iter_tuple_items->from_records_items') and nc == 0:
        skip = 'no_columns'
    elif route in ('iter_tuple_items->from_records_items', 'iter_array_items1->from_records_items') and hier_i:
        skip = 'no_constructor_arguments'
    elif route in ('iter_array1->from_records', 'iter_array_items1->from_records_items') and nc == 0:
        skip = 'no_columns'
    elif route in ('iter_array1->from_records', 'iter_array_items1->from_records_items') and len(kinds) > 1 and kinds <= set('iufc'):
        skip = 'row_arrays_promote_numeric_kinds'  # a row of numbers of different kinds is one array of the resolved dtype
    elif route == 'values->from_records' and (nc == 0 or nr == 0):
        skip = 'empty_values'
    elif route == 'values->from_records' and len(kinds) > 1 and kinds <= set('iufc'):
        skip = 'values_promotes_numeric_kinds'  # documented: .values is one array of one resolved dtype
    elif route == 'iter_tuple0->from_items' and (nr == 0 or nc == 0):
        skip = 'empty'
    ctx.tally('family', 'memory')
    if skip:
        ctx.tally('memory_not_judged', f'{route}:{skip}')
        return
    ctx.evaluation(('memory', repr(spec), repr(case['layout']), route, case['cls'], use_tuple, case['pass_index_object']), nr >= 1 and nc >= 1)
    ctx.tally('memory_route', route)
    ctx.tally('frame_class', case['cls'])
    ctx.tally('memory_index_kinds', f'{spec.row_kind}/{spec.col_kind}')
    for dt in set(spec.dtypes):
        ctx.tally('memory_dtype', dt)

    name = spec.name

    def run():
        if route == 'pairs0->from_items':
            pairs = f.to_pairs(0)
            idx = [r for r, _ in pairs[0][1]]
            return cls.from_items(((c, tuple(v for _, v in col)) for c, col in pairs), index=idx if (idx or not hier_i) else index_arg,
                                  name=name, **ikw, **ckw)
        if route == 'pairs0->from_dict':
            pairs = f.to_pairs(0)
            idx = [r for r, _ in pairs[0][1]]
            return cls.from_dict({c: [v for _, v in col] for c, col in pairs}, index=idx if (idx or not hier_i) else index_arg,
                                 name=name, **ikw, **ckw)
        if route == 'pairs1->from_dict_records':
            pairs = f.to_pairs(1)
            return cls.from_dict_records([dict(row) for _, row in pairs], index=[r for r, _ in pairs], name=name, **ikw, **ckw)
        if route == 'pairs1->from_dict_records_items':
            return cls.from_dict_records_items(((r, dict(row)) for r, row in f.to_pairs(1)), name=name)
        if route == 'items->from_items':
            return cls.from_items(f.items(), index=index_arg, name=name, **ikw, **ckw)
        if route == 'items->from_dict':
            return cls.from_dict(dict(f.items()), index=index_arg, name=name, **ikw, **ckw)
        if route == 'iter_array->from_items':
            return cls.from_items(zip(cols, f.iter_array(axis=0)), index=index_arg, name=name, **ikw, **ckw)
        if route == 'iter_tuple->from_records':
            return cls.from_records(f.iter_tuple(axis=1, **tkw), index=index_arg, columns=columns_arg, name=name, **ikw, **ckw)
        if route == 'iter_tuple_items->from_records_items':
            return cls.from_records_items(f.iter_tuple_items(axis=1, **tkw), columns=columns_arg, name=name, **ckw)
        if route == 'iter_array1->from_records':
            return cls.from_records(f.iter_array(axis=1), index=index_arg, columns=columns_arg, name=name, **ikw, **ckw)
        if route == 'iter_array_items1->from_records_items':
            return cls.from_records_items(f.iter_array_items(axis=1), columns=columns_arg, name=name, **ckw)
        if route == 'values->from_records':
            return cls.from_records(f.values, index=index_arg, columns=columns_arg, name=name, **ikw, **ckw)
        if route == 'iter_tuple0->from_items':
            return cls.from_items(zip(cols, f.iter_tuple(axis=0, constructor=tuple)), index=index_arg, name=name, **ikw, **ckw)
        raise KeyError(route)

    row_wise = route in ROW_WISE
    numeric_mixed = row_wise and len(kinds) > 1 and kinds <= set('iufc')
    klass = {'kind': 'memory', 'route': route, 'row_wise': row_wise, 'row_kind': spec.row_kind, 'col_kind': spec.col_kind,
             'cls': case['cls'], 'rows_numeric_of_different_kinds': numeric_mixed,
             'uses_items_exporter': route.startswith('items->'), 'columns_hierarchical': hier_c,
             'zero_rows': nr == 0, 'zero_columns': nc == 0}
    g, exc = _call(run)
    if exc is not None:
        ctx.violation('memory_route_raised', detail={'exception': type(exc).__name__, 'message': str(exc)[:300]},
                      klass=dict(klass, part='raised', exception=type(exc).__name__))
        return
    ctx.sample({'memory': spec.brief(), 'route': route})
    if type(g) is not cls:
        ctx.violation('memory_result_class', detail={'got': type(g).__name__}, klass=dict(klass, part='class'))
    if tuple(g.shape) != (nr, nc):
        ctx.violation('memory_shape_mismatch', detail={'expected': (nr, nc), 'got': tuple(g.shape)}, klass=dict(klass, part='shape'))
        return
    exp_rows = rows
    for axis, exp, idx, kind in (('index', exp_rows, g.index, spec.row_kind), ('columns', cols, g.columns, spec.col_kind)):
        got = canon.index_labels(idx)
        if _labels_cs(exp) != _labels_cs(got) or (exp and idx.depth != _depth(kind)):
            ctx.violation('memory_labels_mismatch', detail={'axis': axis, 'expected': _labels_cs(exp), 'got': _labels_cs(got), 'got_depth': idx.depth},
                          klass=dict(klass, part=f'{axis}_labels', axis=axis))
    if cs(g.name) != cs(name):
        ctx.violation('memory_name_mismatch', detail={'expected': cs(name), 'got': cs(g.name)}, klass=dict(klass, part='name'))
    got_cols = canon.frame_columns(g)
    groups = {}
    for j in range(nc):
        col = spec.col_values(j)
        src = spec.col_array(j)
        e = canon.arr_cells(src)
        gc = canon.arr_cells(got_cols[j])
        bad = [i for i in range(nr) if not _mem_eq(e[i], gc[i])]
        if nr:
            ctx.tally('memory_dtype_kind', f"{'row' if row_wise else 'col'}-wise:{src.dtype.kind}->{got_cols[j].dtype.kind}")
        if (route in ('iter_array1->from_records', 'iter_array_items1->from_records_items') and nr and not bad and src.dtype.kind in 'biufcU'
                and got_cols[j].dtype.kind != src.dtype.kind and (len(kinds) > 1 or src.dtype.kind not in 'iufc')):
            # rows given as 1-D arrays: as for rows given as tuples, each column's type is found again from its cells ("the same kinds of types")
            ctx.violation('memory_dtype_kind_lost', detail={'column': j, 'source_dtype': str(src.dtype), 'got_dtype': str(got_cols[j].dtype)},
                          klass=dict(klass, part='dtype_kind', column_kind=src.dtype.kind))
        if not bad:
            continue
        only_big = all(e[i][0] == 'int' and abs(e[i][1]) > 2**53 for i in bad)
        only_bool = all(e[i][0] == 'bool' for i in bad)
        bool_meets_number = spec.dtypes[j] == 'object' and any(c[0] == 'bool' for c in e) and any(c[0] in ('int', 'float') for c in e) \
            and all(c[0] in ('bool', 'int', 'float') for c in e)
        key = (spec.dtypes[j], only_big, only_bool, bool_meets_number)
        if key not in groups:
            groups[key] = {'column': j, 'expected': e, 'got': gc, 'got_dtype': str(got_cols[j].dtype)}
    for (dt, only_big, only_bool, bool_meets_number), detail in groups.items():
        ctx.violation('memory_cells_mismatch', detail=detail,
                      klass=dict(klass, part='cells', column_dtype=dt, mismatch_only_at_int_beyond_2p53=only_big,
                                 mismatch_only_at_bool_cells=only_bool, object_column_of_bools_and_numbers_only=bool_meets_number))


def _mem_eq(e, g):
    """value strength; a datetime64 / timedelta64 cell presented as the equal Python
    date / datetime / timedelta object is not accepted (it is a different kind of value)."""
    return veq(e, g)


# --------------------------------------------------------------------------------------
# pickle / deepcopy

def _flags(x):
    """{public array name: writeable} for every array a container hands out."""
    import static_frame as sf
    out = {}

    def index_flags(prefix, idx):
        if idx.depth == 1:
            out[f'{prefix}.values'] = bool(idx.values.flags.writeable)
        else:
            for dd in range(idx.depth):
                out[f'{prefix}.values_at_depth'] = out.get(f'{prefix}.values_at_depth', False) or bool(idx.values_at_depth(dd).flags.writeable)
        out[f'{prefix}.positions'] = bool(idx.positions.flags.writeable)

    if isinstance(x, sf.Frame):
        for i, a in enumerate(canon.frame_columns(x)):
            out['column_arrays'] = out.get('column_arrays', False) or bool(a.flags.writeable)
        index_flags('index', x.index)
        index_flags('columns', x.columns)
    else:
        out['values'] = bool(x.values.flags.writeable)
        index_flags('index', x.index)
    return out


def _check_pickle(case, ctx):
    import static_frame as sf
    spec, op = case['spec'], case['op']
    cls = _cls(case['cls'])
    if case['container'] == 'Series':
        x = F.build_series(spec, cls)
        nontrivial = len(spec.labels) >= 1
        kinds = spec.kind
    else:
        x = _build(spec, case['layout'], cls, case['index_name'], case['columns_name'])
        nontrivial = spec.shape[0] >= 1 and spec.shape[1] >= 1
        kinds = f'{spec.row_kind}/{spec.col_kind}'
    before = canon.snap(x)
    flags_before = _flags(x)
    ctx.evaluation(('pickle', case['container'], repr(spec), repr(case.get('layout')), op, case['protocol'], case['cls'],
                    case.get('index_name'), case.get('columns_name')), nontrivial)
    ctx.tally('family', 'pickle')
    ctx.tally('pickle_op', op if op == 'deepcopy' else f'pickle{case["protocol"]}')
    ctx.tally('pickle_class', case['cls'])
    ctx.tally('pickle_index_kinds', kinds)
    klass = {'kind': 'pickle', 'op': op, 'container': case['container'], 'cls': case['cls'], 'index_kinds': kinds}
    if op == 'pickle':
        y, exc = _call(lambda: pickle.loads(pickle.dumps(x, protocol=case['protocol'])))
    else:
        y, exc = _call(lambda: copy.deepcopy(x))
    if exc is not None:
        ctx.violation('pickle_raised', detail={'exception': type(exc).__name__, 'message': str(exc)[:300]},
                      klass=dict(klass, part='raised', exception=type(exc).__name__))
        return
    after = canon.snap(y)
    if type(y) is not type(x):
        ctx.violation('pickle_class_changed', detail={'got': type(y).__name__}, klass=dict(klass, part='class'))
    if after != before:
        diff = [k for k in before if before[k] != after.get(k)]
        ctx.violation('pickle_content_changed', detail={'differs': diff, 'before': canon.brief(before, 700), 'after': canon.brief(after, 700)},
                      klass=dict(klass, part='content', differs=sorted(diff)))
    if canon.snap(x) != before:
        ctx.violation('pickle_source_changed', detail={}, klass=dict(klass, part='source'))
    flags_after = _flags(y)
    ctx.tally('flags_checked', len(flags_after))
    if any(flags_before.values()):
        ctx.tally('source_had_writeable_array', ','.join(k for k, v in flags_before.items() if v))
    bad = sorted(k for k, v in flags_after.items() if v and not flags_before.get(k, False))
    if bad:
        only_positions = all(k.endswith('.positions') for k in bad)
        ctx.violation('pickle_array_writeable', detail={'writeable_after': bad},
                      klass=dict(klass, part='flags', only_index_positions=only_positions,
                                 arrays=sorted({k.split('.')[-1] for k in bad})))


# --------------------------------------------------------------------------------------

def check(case, ctx):
    if case['kind'] == 'delim':
        return _check_delim(case, ctx)
    if case['kind'] == 'memory':
        return _check_memory(case, ctx)
    return _check_pickle(case, ctx)
