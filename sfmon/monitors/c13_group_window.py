"""C13 — grouping partitions the container; windows cover it as specified.

Groups: `refgroup` = {key: [member positions]} built by one pass over the spec; the library's
groups (iter_group / iter_group_items / iter_group_labels[_items] on Series and Frame, both
axes, one or several key lines, flat and hierarchical label depths) are compared as a mapping
(group order is not asserted): members in original order with exact labels and cells, keys
pairwise distinct, every member's key equal to its group's label; `.apply(func)` gives one
result per group labelled by its key.
Windows: reference enumeration written from doc_str.window: window k starts at element
start_shift + k*step, has size + k*size_increment elements, is clipped to the container, is
labelled by the element at (right edge + label_shift) and dropped when that label does not
exist or (window_sized) when it is incomplete; windows start at elements up to the last one."""
import datetime
import itertools

import numpy as np

from sfmon import canon
from sfmon.canon import cs, veq
from sfmon.gen import frames as F
from sfmon.gen import labels as L
from sfmon.gen import values as V

PROPERTY = 'C13'
RULE = ('group cases = (Series|Frame spec whose key cells come from small per-dtype pools without NaN/NaT, block layout (each Frame '
        'group spec in 2 (quick) / 3 (thorough) distinct layouts), axis, '
        'key form in label/list/slice with 1..3 key lines | depth level(s)), each run through items / values / apply / '
        'items-apply forms, one evaluation per form; window cases = (spec with n members, size, step, window_sized, '
        'label_shift, start_shift, size_increment[, window_valid, window_func]) run through iter_window_items / iter_window / '
        'iter_window_array[_items]; non-trivial = grouped/windowed axis has >= 2 members (windows: and the reference yields '
        '>= 1 window); distinct = hash of (spec, layout, arguments, form)')
EXPLANATION = ('window parameters are enumerated completely for n <= 6 (size 1..n+1, step 1..3, label_shift and start_shift '
               '-2..2, size_increment 0..2, window_sized on/off: 12 600 combinations; plus shrinking windows: size 2..n+4, step 1..2, shifts -1..1, '
               'size_increment -3..-1: 5 832 combinations; quick: each on one of Series / Frame axis 0 / '
               'Frame axis 1, thorough: each on all three); group specs and larger windows are sampled')
EXHAUSTIVE = {'quick': False, 'thorough': False}
ASSUMPTIONS = [
    'key equality is Python equality of the key cells (1 == 1.0 == True, 0.0 == -0.0, a datetime64 equals the date object NumPy presents it as); str(x) equality is not key equality',
    'window termination: windows start at elements start_shift + k*step that are <= the last element (also for k = 0); a window wholly before the first element is empty, not dropped, when window_sized is off',
    'size_increment < 0 (shrinking windows): window k has size + k*size_increment elements while that is >= 1; whether the window of size exactly 0 is yielded is not judged; step = 0 is not combined with a negative increment',
    'step = 0 with size_increment >= 1 (expanding windows): the library must yield a prefix of the reference sequence that contains every window whose right edge is inside the container',
    'as_array windows of a Frame are compared at value strength modulo NumPy row/column consolidation (ints kept within 2**31 in window specs)',
    'the name of a group / window container is not asserted; the class (Frame vs FrameGO) is recorded only',
    'scope of key cells: bytes keys only as the single key dtype (S + U columns resolve to U, bytes + int keys become an S-dtype index in apply: dtype resolution, C07); tuple key cells only for Series and axis-0 keys (a row array cannot hold them); uint64 keys stay below 2**53',
]
TIERS = {'quick': {'shards': 8, 'budget_s': 150, 'min_nontrivial': 40000},
         'thorough': {'shards': 16, 'budget_s': 1500, 'min_nontrivial': 400000}}
ANCHORS = {
    'static_frame.core.frame': ['Frame._axis_group_loc_items', 'Frame._axis_group_sort_items', 'Frame._axis_group_iloc_items',
                                'Frame._axis_group_labels_items', 'Frame._axis_window_items'],
    'static_frame.core.series': ['Series._axis_group_items', 'Series._axis_group_labels_items', 'Series._axis_window_items'],
    'static_frame.core.type_blocks': ['TypeBlocks.group'],
    'static_frame.core.util': ['array_to_groups_and_locations', 'array2d_to_tuples'],
    'static_frame.core.container_util': ['axis_window_items'],
    'static_frame.core.node_iter': ['IterNodeDelegate.apply', 'IterNodeDelegate.apply_iter_items', 'IterNode.get_delegate'],
}
REQUIRED_ANCHORS = ['frame.Frame._axis_group_sort_items', 'type_blocks.TypeBlocks.group', 'frame.Frame._axis_group_loc_items',
                    'frame.Frame._axis_group_labels_items', 'series.Series._axis_group_items',
                    'series.Series._axis_group_labels_items', 'util.array_to_groups_and_locations',
                    'container_util.axis_window_items', 'node_iter.IterNodeDelegate.apply']
REQUIRED_TALLIES = [('impl_ran', 'sort_items'), ('impl_ran', 'typeblocks_group'), ('impl_ran', 'sort_items+axis1'),
                    ('impl_ran', 'typeblocks_group+axis1'), ('branch_ran', 'unique_direct'), ('branch_ran', 'unique_str_fallback'),
                    ('window_container', 'series'), ('window_container', 'frame_axis0'), ('window_container', 'frame_axis1'),
                    ('group_shape', 'single_group'), ('group_shape', 'all_distinct'), ('group_shape', 'few_distinct')]

BIG = 2 ** 53

# --------------------------------------------------------------------------------------
# key pools: no NaN / NaT; the first entries of the numeric / string pools are "1-like" and
# "0-like" so that keys drawn by pool position collide across dtypes (axis-1 grouping).

_KEY_POOLS = {
    'bool': ('bool', [True, False]),
    'int64': ('int64', [1, 0, -1, 3, 7, 12]),
    'int64big': ('int64', [BIG + 1, BIG, 2 ** 63 - 1, 1, 0]),
    'int8': ('int8', [1, 0, -1, 127, -128]),
    'uint8': ('uint8', [1, 0, 255, 3]),
    'uint64': ('uint64', [1, 0, 3, 2 ** 40]),
    'float64': ('float64', [1.0, 0.0, -0.0, 1.5, -2.25, float('inf'), float('-inf'), 3.0]),
    # distinct keys that are relatively or absolutely close: equality of keys is exact equality, never closeness
    'float64_close': ('float64', [250000.0, 250001.0, 1577836800.0, 1577836860.0, 1e-9, 2e-9, 0.0, 1.0, 1.0000000001]),
    'float32': ('float32', [1.0, 0.0, 1.5, -2.25, 0.5]),
    'complex128': ('complex128', [1 + 0j, 0j, 1 + 2j, -1.5j, 3 + 0j]),
    '<U5': ('<U5', ['1', '0', '', 'a', 'b', 'ab', 'None', 'True', '1.0']),
    'S5': ('S5', [b'1', b'', b'a', b'ab']),
    'M8[D]': ('M8[D]', ['2020-01-01', '1999-12-31', '2001-06-15', '2020-01-02']),
    'M8[s]': ('M8[s]', ['2020-01-01T00:00:00', '1999-12-31T23:59:59', '2001-06-15T12:30:00']),
    'm8[D]': ('m8[D]', [1, 0, -1, 365]),
    'obj_int': ('object', [1, 0, 2, 3, 2 ** 70]),
    'obj_str': ('object', ['1', '0', 'a', 'b', '']),
    'obj_num': ('object', [1, 0, True, False, 1.0, 2.5]),
    'obj_mixed': ('object', [1, '1', None, 'None', True, 'True', 2.5, '2.5', 'a', 0, -0.0]),
    'obj_none': ('object', [None, 'a', 'None', 'b']),
    'obj_tuple': ('object', [(1, 2), (1, 3), (2, 2)]),
    'obj_tuple_mixed': ('object', [(1, 2), 'a', (1, 3), 1]),
}
_KEY_POOL_WEIGHTED = (['float64_close', 'float64_close', 'bool', 'int64', 'int64', 'int8', 'uint8', 'float64', 'float64', 'float32', 'complex128', '<U5', '<U5', 'S5',
                       'M8[D]', 'M8[s]', 'm8[D]', 'int64big', 'uint64', 'obj_int', 'obj_str', 'obj_num', 'obj_mixed', 'obj_mixed',
                       'obj_none', 'obj_tuple', 'obj_tuple_mixed'])
_OTHER_DTYPES = ['bool', 'int64', 'float64', '<U5', 'object', 'M8[D]', 'int8', 'float32', 'complex128']
_MEMBER_KINDS = ['auto', 'int', 'str', 'negint', 'IndexDate', 'hier2', 'mixed', 'float']
_KEYED_KINDS = ['str', 'int', 'auto', 'hier2', 'IndexDate', 'negint']
_WIN_DTYPES = ['bool', 'int64', 'float64', '<U5', 'object', 'M8[D]', 'int8', 'float32']
_WIN_KINDS = ['auto', 'int', 'str', 'IndexDate', 'hier2', 'mixed', 'float', 'negint']


TECHNIQUE = 'runtime monitoring: partition oracle for groups (one-pass reference grouping) and a positional window model over an exhaustive small parameter space; private sys.monitoring probe records which implementation branch ran'


def _norm(dt, v):
    return V.normalize(dt, v)


def _tame_value(v):
    if isinstance(v, int) and not isinstance(v, bool) and abs(v) > 2 ** 31:
        return v % 97
    return v


# --------------------------------------------------------------------------------------
# key equality (written from the statement: "share the group key", "distinct keys")

_NS = {'ns': 1, 'us': 10 ** 3, 'ms': 10 ** 6, 's': 10 ** 9, 'm': 60 * 10 ** 9, 'h': 3600 * 10 ** 9, 'D': 86400 * 10 ** 9,
       'W': 7 * 86400 * 10 ** 9}


def _to_ns(v, kind):
    """exact nanosecond count (Python int) of a datetime64 / timedelta64 scalar."""
    unit = np.datetime_data(v.dtype)[0]
    if unit in _NS:
        return int(v.astype(np.int64)) * _NS[unit]
    try:
        return int(v.astype(f'{kind}[D]').astype(np.int64)) * _NS['D']
    except Exception:
        return (unit, int(v.astype(np.int64)))


def keyform(v):
    """Hashable form under which two key cells are the same key iff they are equal as Python
    values (numbers by exact value across bool/int/float/complex; datetime64 and the
    date/datetime objects by instant; tuples element-wise)."""
    if v is None:
        return ('None',)
    if isinstance(v, (bool, np.bool_)):
        return ('num', int(v))
    if isinstance(v, (int, np.integer)) and not isinstance(v, np.timedelta64):
        return ('num', int(v))
    if isinstance(v, (float, np.floating)):
        f = float(v)
        if f != f:
            return ('nan',)
        return ('num', int(f)) if f.is_integer() else ('num', f)
    if isinstance(v, (complex, np.complexfloating)):
        c = complex(v)
        if c.imag == 0:
            return keyform(c.real)
        return ('cnum', c.real, c.imag)
    if isinstance(v, (str, np.str_)):
        return ('str', str(v))
    if isinstance(v, (bytes, np.bytes_)):
        return ('bytes', bytes(v))
    if isinstance(v, np.datetime64):
        if np.isnat(v):
            return ('nat',)
        return ('dt', _to_ns(v, 'M8'))
    if isinstance(v, np.timedelta64):
        if np.isnat(v):
            return ('nat',)
        return ('td', _to_ns(v, 'm8'))
    if isinstance(v, datetime.datetime):
        return ('dt', int(np.datetime64(v, 'ns').astype(np.int64)))
    if isinstance(v, datetime.date):
        return ('dt', int(np.datetime64(v, 'ns').astype(np.int64)))
    if isinstance(v, datetime.timedelta):
        return ('td', int(np.timedelta64(v, 'ns').astype(np.int64)))
    if isinstance(v, (tuple, list)):
        return ('tuple', tuple(keyform(x) for x in v))
    if isinstance(v, np.ndarray):
        return ('tuple', tuple(keyform(x) for x in (v if v.dtype == object or v.dtype.kind in 'Mm' else v.tolist())))
    return ('other', type(v).__name__, repr(v))


def _pystr(v):
    """str() of the cell as the Python object NumPy's object conversion holds."""
    if isinstance(v, np.datetime64):
        return str(v)
    if isinstance(v, np.generic):
        return str(v.item())
    return str(v)


def _pairwise_unorderable(cells):
    for a, b in itertools.combinations(cells, 2):
        try:
            a < b  # noqa: B015
        except TypeError:
            return True
        except Exception:
            return True
    return False


_NUMERIC_KINDS = 'iuf'


def _resolved_kind(dtypes):
    """Kind of the array that holds cells of these column dtypes together (a model of the
    library's documented resolution: equal dtypes stay, numbers promote as NumPy does, all
    strings stay strings, anything else is object)."""
    dts = [np.dtype(object if d == 'object' else d) for d in dtypes]
    if all(d == dts[0] for d in dts):
        return 'object' if dts[0] == object else dts[0].kind
    if all(d.kind in 'iufc' for d in dts):
        return np.result_type(*dts).kind
    if all(d.kind == 'U' for d in dts) or all(d.kind == 'S' for d in dts):
        return dts[0].kind
    if all(d.kind == 'M' for d in dts) or all(d.kind == 'm' for d in dts):
        return dts[0].kind
    return 'object'


def key_info(key_rows, dtypes, two_d=False):
    """Input-class description of a key table: key_rows[m] = tuple of the member's key
    cells, dtypes = dtype string per key line; two_d: the library holds the keys in a 2-D
    array (list / slice key, list of depths) even when there is one key line."""
    single = len(dtypes) == 1 and not two_d
    kind = _resolved_kind(dtypes)
    flat = [c for row in key_rows for c in row]
    info = {'nkeys': len(dtypes), 'key_resolved': kind,
            'has_tuple_cell': any(isinstance(c, tuple) for c in flat),
            'has_none_cell': any(c is None for c in flat)}
    if single:
        info['unorderable'] = kind == 'object' and _pairwise_unorderable([r[0] for r in key_rows])
    else:
        info['unorderable'] = kind == 'object'
    # str collision: two different keys with equal str rows, or one key with two str rows
    by_key, by_str = {}, {}
    for row in key_rows:
        kf = tuple(keyform(c) for c in row)
        st = tuple(_pystr(c) for c in row)
        by_key.setdefault(kf, set()).add(st)
        by_str.setdefault(st, set()).add(kf)
    info['str_collision'] = any(len(v) > 1 for v in by_key.values()) or any(len(v) > 1 for v in by_str.values())
    # ints beyond 2**53 held together with floats / complex
    int_big = any(isinstance(c, int) and not isinstance(c, bool) and abs(c) > BIG for c in flat)
    int_cols = [d for d in dtypes if d != 'object' and np.dtype(d).kind in 'iu']
    info['bigint_meets_float'] = bool(int_big and int_cols and kind in 'fc' and not single) or \
        bool(int_big and len(set(int_cols)) > 1 and kind == 'f')
    return info


# --------------------------------------------------------------------------------------
# which implementation ran: a private sys.monitoring tool (PY_START on the two grouping
# implementations, LINE inside array_to_groups_and_locations to see the str fallback).

_PROBE = {'state': None, 'flags': set(), 'fallback_lines': set(), 'direct_lines': set()}
_PROBE_TOOL = 4


def _install_probe():
    if _PROBE['state'] is not None:
        return
    import inspect
    import sys
    try:
        from static_frame.core import util
        from static_frame.core.frame import Frame
        from static_frame.core.type_blocks import TypeBlocks
        mon = sys.monitoring
        mon.use_tool_id(_PROBE_TOOL, 'sfmon-c13')
        codes = {}
        for obj, name in ((Frame._axis_group_sort_items, 'sort_items'), (TypeBlocks.group, 'typeblocks_group')):
            codes[getattr(obj, '__wrapped__', obj).__code__] = name
        ucode = util.array_to_groups_and_locations.__code__
        # the fallback is recognised by structure, not by its text: every line inside an exception handler of the function
        # (the handler of the TypeError np.unique raises for unorderable keys); direct_lines = its return statements
        import ast
        import textwrap
        src, first = inspect.getsourcelines(util.array_to_groups_and_locations)
        tree = ast.parse(textwrap.dedent(''.join(src)))
        for node in ast.walk(tree):
            if isinstance(node, ast.ExceptHandler):
                for sub in node.body:
                    for ln in range(sub.lineno, (sub.end_lineno or sub.lineno) + 1):
                        _PROBE['fallback_lines'].add(first + ln - 1)
            elif isinstance(node, ast.Return):
                _PROBE['direct_lines'].add(first + node.lineno - 1)

        def on_start(code, offset):
            name = codes.get(code)
            if name:
                _PROBE['flags'].add(name)

        def on_line(code, line):
            if line in _PROBE['fallback_lines']:
                _PROBE['flags'].add('str_fallback')
            elif line in _PROBE['direct_lines']:
                _PROBE['flags'].add('unique_returned')

        mon.register_callback(_PROBE_TOOL, mon.events.PY_START, on_start)
        mon.register_callback(_PROBE_TOOL, mon.events.LINE, on_line)
        for c in codes:
            mon.set_local_events(_PROBE_TOOL, c, mon.events.PY_START)
        mon.set_local_events(_PROBE_TOOL, ucode, mon.events.LINE)
        _PROBE['state'] = 'on' if _PROBE['fallback_lines'] else 'off'
    except Exception:
        _PROBE['state'] = 'off'


def _probe_reset():
    _PROBE['flags'].clear()


def _probe_flags():
    return set(_PROBE['flags'])


# --------------------------------------------------------------------------------------
# functions handed to the library (module level: picklable)

def _count0(g):
    return g.shape[0]


def _count1(g):
    return g.shape[1]


def _items_count0(k, g):
    return g.shape[0]


def _items_count1(k, g):
    return g.shape[1]


def _valid_even0(w):
    return w.shape[0] % 2 == 0


def _valid_even1(w):
    return w.shape[1] % 2 == 0


def _valid_nonempty0(w):
    return w.shape[0] > 0


def _valid_nonempty1(w):
    return w.shape[1] > 0


def _func_shape(w):
    return tuple(w.shape)


_VALID = {('even', 0): _valid_even0, ('even', 1): _valid_even1, ('nonempty', 0): _valid_nonempty0, ('nonempty', 1): _valid_nonempty1}


# --------------------------------------------------------------------------------------
# reference models

def refgroup(key_rows):
    """{key: [member positions in original order]} in one pass."""
    out = {}
    for pos, row in enumerate(key_rows):
        out.setdefault(tuple(keyform(c) for c in row), []).append(pos)
    return out


def ref_windows(n, size, step, window_sized, label_shift, start_shift, size_increment, kmax=None):
    """[(label position, [member positions], k, left)] for the windows that are yielded."""
    out = []
    k = 0
    while True:
        left = start_shift + k * step
        sz = size + k * size_increment
        if left > n - 1:
            break
        if sz < 1:
            # shrinking windows (size_increment < 0): the sequence ends when no element is left in the window
            break
        if kmax is not None and k > kmax:
            break
        lo = max(left, 0)
        hi = min(max(left + sz, 0), n)
        pos = list(range(lo, hi))
        lab = left + sz - 1 + label_shift
        if 0 <= lab < n and (not window_sized or len(pos) == sz):
            out.append((lab, pos, k, left))
        k += 1
    return out


# --------------------------------------------------------------------------------------
# generators

def _choose_cells(rng, pool, n, shape):
    """n key cells from a pool: 'single' -> one value, 'few' -> two or three, 'distinct' ->
    pairwise distinct while the pool lasts, 'free' -> any."""
    if shape == 'single':
        sub = [rng.choice(pool)]
    elif shape == 'few':
        sub = rng.sample(pool, min(len(pool), rng.choice([2, 2, 3])))
    elif shape == 'distinct':
        sub = rng.sample(pool, min(len(pool), n))
        if len(sub) >= n:
            return sub[:n]
    else:
        sub = pool
    return [rng.choice(sub) for _ in range(n)]


def _dtype_runs(rng, n, choices):
    out = []
    while len(out) < n:
        c = rng.choice(choices)
        out.extend([c] * rng.choice([1, 1, 2, 2, 3]))
    return out[:n]


def _pick_layout(rng, dtypes):
    lays = F.layouts(dtypes, limit=24)
    r = rng.random()
    if r < 0.2:
        return F.layout_all_1d(dtypes)
    if r < 0.4:
        return F.layout_max_consolidated(dtypes)
    return rng.choice(lays)


def _n_members(rng):
    return rng.choice([0, 1, 2, 2, 3, 3, 4, 4, 5, 5, 6, 7, 8])


def gen_sgroup(rng):
    pool_name = rng.choice(_KEY_POOL_WEIGHTED)
    dt, pool = _KEY_POOLS[pool_name]
    n = _n_members(rng)
    kind = rng.choice(['auto', 'int', 'str', 'negint', 'IndexDate', 'hier2', 'mixed', 'float', 'tuple', 'IndexYearMonth'])
    labels = L.labels_for(kind, n, rng)
    n = len(labels)
    shape = rng.choice(['single', 'few', 'few', 'distinct', 'free', 'free'])
    vals = [_norm(dt, v) for v in _choose_cells(rng, pool, n, shape)]
    return {'kind': 'sgroup', 'spec': F.SeriesSpec(labels, kind, dt, vals, rng.choice((None, 's'))), 'pool': pool_name, 'shape': shape}


_DEPTHS = {1: [0], 2: [0, 1, [0, 1], [1, 0], [0], [1]], 3: [0, 1, 2, [0, 1], [1, 2], [0, 2], [2, 0], [0, 1, 2], [2]]}


def _depth_of(kind):
    if kind.startswith('hier'):
        return int(kind[4])
    return 1


def gen_slabels(rng):
    kind = rng.choice(['hier2', 'hier2', 'hier3', 'hier2dt', 'hiermixed', 'auto', 'int', 'str', 'IndexDate', 'mixed', 'float', 'tuple', 'dateobj'])
    n = _n_members(rng)
    labels, kind = _labels(kind, n, rng)
    dt = rng.choice(_OTHER_DTYPES)
    spec = F.SeriesSpec(labels, kind, dt, V.column(dt, len(labels), rng), rng.choice((None, 's')))
    return {'kind': 'slabels', 'spec': spec, 'depth': rng.choice(_DEPTHS[_depth_of(kind)])}


def _labels(kind, n, rng):
    """labels for an index kind; 'hiermixed' is a depth-2 tree whose outer level mixes 1 / '1'
    (built as kind 'hier2')."""
    if kind == 'hiermixed':
        outers = rng.sample([1, '1', 'a', 2, None, 'None'], rng.randint(1, 4))
        out = []
        for o in outers:
            for inner in rng.sample(['x', 'y', 'z'], rng.randint(1, 3)):
                if len(out) < n:
                    out.append((o, inner))
        return out, 'hier2'
    return L.labels_for(kind, n, rng), kind


def gen_fgroup(rng, axis=None):
    axis = rng.choice([0, 0, 0, 1, 1]) if axis is None else axis
    n_mem = _n_members(rng)
    n_oth = rng.randint(1, 5)
    nkeys = min(n_oth, rng.choice([1, 1, 1, 1, 2, 2, 3]))
    mem_kind = rng.choice(_MEMBER_KINDS)
    key_kind = rng.choice(_KEYED_KINDS)
    mem_labels = L.labels_for(mem_kind, n_mem, rng)
    oth_labels = L.labels_for(key_kind, n_oth, rng)
    n_mem, n_oth = len(mem_labels), len(oth_labels)
    nkeys = min(nkeys, n_oth)
    if n_oth == 0:
        return None
    form = rng.choice(['label', 'label', 'label', 'list', 'list', 'slice']) if nkeys == 1 else rng.choice(['list', 'list', 'slice'])
    if form == 'slice' and key_kind.startswith('hier'):
        form = 'list'
    if form == 'slice':
        a = rng.randrange(0, n_oth - nkeys + 1)
        keys = list(range(a, a + nkeys))
        if key_kind == 'IndexDate' and [oth_labels[i] for i in range(n_oth)] != sorted(oth_labels):
            form = 'list'
    else:
        keys = rng.sample(range(n_oth), nkeys)
    shape = rng.choice(['single', 'few', 'few', 'few', 'distinct', 'free'])
    if axis == 0:
        # columns are the key lines; every key column has its own pool
        pools = [None] * n_oth
        dts = _dtype_runs(rng, n_oth, _OTHER_DTYPES)
        homog = rng.random() < 0.5
        first = rng.choice(_KEY_POOL_WEIGHTED)
        for k in keys:
            pools[k] = first if homog else rng.choice(_KEY_POOL_WEIGHTED)
        if len({pools[k] for k in keys}) > 1:  # bytes keys are not mixed with other kinds (scope)
            for k in keys:
                if pools[k] == 'S5':
                    pools[k] = '<U5'
        for k in keys:
            dts[k] = _KEY_POOLS[pools[k]][0]
        cells = [[None] * n_oth for _ in range(n_mem)]
        for c in range(n_oth):
            if pools[c] is None:
                col = V.column(dts[c], n_mem, rng)
            else:
                dt, pool = _KEY_POOLS[pools[c]]
                col = [_norm(dt, v) for v in _choose_cells(rng, pool, n_mem, shape if c == keys[0] else rng.choice(['single', 'few', shape]))]
            for r in range(n_mem):
                cells[r][c] = col[r]
        spec = F.FrameSpec(mem_labels, oth_labels, mem_kind, key_kind, dts, cells, rng.choice((None, 'n')))
        key_pools = [pools[k] for k in keys]
    else:
        # rows are the key lines; a key cell of column c comes from column c's pool, drawn by
        # pool position so that equal keys occur across dtypes
        mixed = rng.random()
        if mixed < 0.35:
            choices = [rng.choice(_KEY_POOL_WEIGHTED)]
        elif mixed < 0.6:
            choices = rng.sample(['int64', 'float64', 'int8', 'float32', 'uint8'], 2)
        elif mixed < 0.75:
            choices = rng.sample(['int64', 'float64', 'bool', '<U5', 'obj_mixed', 'M8[D]', 'obj_num', 'int64big', 'complex128'], 3)
        else:
            choices = rng.sample(_KEY_POOL_WEIGHTED, 2)
        # tuple cells cannot be held in a row array, bytes are not mixed with other kinds (scope)
        choices = [c for c in choices if not c.startswith('obj_tuple')] or ['int64']
        if len(choices) > 1:
            choices = [c for c in choices if c != 'S5'] or ['int64']
        pools = _dtype_runs(rng, n_mem, choices)
        dts = [_KEY_POOLS[p][0] for p in pools]
        width = {'single': 1, 'few': rng.choice([2, 2, 3]), 'distinct': 99, 'free': 99}[shape]
        cells = [[None] * n_mem for _ in range(n_oth)]
        for r in range(n_oth):
            for c in range(n_mem):
                dt, pool = _KEY_POOLS[pools[c]]
                if r in keys:
                    if shape == 'distinct' and r == keys[0]:
                        v = pool[c % len(pool)]
                    else:
                        v = pool[rng.randrange(min(width, len(pool)))]
                    cells[r][c] = _norm(dt, v)
                else:
                    cells[r][c] = _norm(dt, rng.choice(pool))
        spec = F.FrameSpec(oth_labels, mem_labels, key_kind, mem_kind, dts, cells, rng.choice((None, 'n')))
        key_pools = sorted(set(pools))
    return {'kind': 'fgroup', 'spec': spec, 'layout': _pick_layout(rng, spec.dtypes), 'axis': axis, 'form': form, 'keys': keys,
            'pools': key_pools, 'shape': shape, 'cls': 'FrameGO' if rng.random() < 0.12 else 'Frame'}


def gen_flabels(rng):
    axis = rng.choice([0, 0, 1])
    kind = rng.choice(['hier2', 'hier2', 'hier3', 'hier2dt', 'hiermixed', 'auto', 'int', 'str', 'IndexDate', 'float'])
    n = _n_members(rng)
    labels, kind = _labels(kind, n, rng)
    n = len(labels)
    n_oth = rng.randint(1, 4)
    oth_kind = rng.choice(['str', 'int', 'auto'])
    oth = L.labels_for(oth_kind, n_oth, rng)
    if axis == 0:
        dts = _dtype_runs(rng, n_oth, _OTHER_DTYPES)
        cells = [[V.element(dts[c], rng) for c in range(n_oth)] for _ in range(n)]
        spec = F.FrameSpec(labels, oth, kind, oth_kind, dts, cells, None)
    else:
        dts = _dtype_runs(rng, n, _OTHER_DTYPES)
        cells = [[V.element(dts[c], rng) for c in range(n)] for _ in range(n_oth)]
        spec = F.FrameSpec(oth, labels, oth_kind, kind, dts, cells, None)
    return {'kind': 'flabels', 'spec': spec, 'layout': _pick_layout(rng, spec.dtypes), 'axis': axis,
            'depth': rng.choice(_DEPTHS[_depth_of(kind)]), 'cls': 'FrameGO' if rng.random() < 0.2 else 'Frame'}


def _win_series_spec(rng, n, kinds=('auto', 'str', 'int', 'IndexDate')):
    kind = rng.choice(kinds)
    labels = L.labels_for(kind, n, rng)
    if len(labels) != n:
        kind, labels = 'int', L.labels_for('int', n, rng)
    dt = rng.choice(_WIN_DTYPES)
    return F.SeriesSpec(labels, kind, dt, [_tame_value(v) for v in V.column(dt, n, rng)], rng.choice((None, 's')))


def _win_frame_spec(rng, n, axis, kinds=('auto', 'str', 'int', 'IndexDate')):
    kind = rng.choice(kinds)
    labels = L.labels_for(kind, n, rng)
    if len(labels) != n:
        kind, labels = 'int', L.labels_for('int', n, rng)
    n_oth = rng.randint(1, 3)
    oth_kind = rng.choice(['str', 'int', 'auto'])
    oth = L.labels_for(oth_kind, n_oth, rng)
    if axis == 0:
        dts = _dtype_runs(rng, n_oth, _WIN_DTYPES)
        cells = [[_tame_value(V.element(dts[c], rng)) for c in range(n_oth)] for _ in range(n)]
        return F.FrameSpec(labels, oth, kind, oth_kind, dts, cells, rng.choice((None, 'n')))
    dts = _dtype_runs(rng, n, _WIN_DTYPES)
    cells = [[_tame_value(V.element(dts[c], rng)) for c in range(n)] for _ in range(n_oth)]
    return F.FrameSpec(oth, labels, oth_kind, kind, dts, cells, rng.choice((None, 'n')))


def window_param_space(max_n=6):
    for n in range(0, max_n + 1):
        for size, step, sized, ls, ss, inc in itertools.product(range(1, n + 2), (1, 2, 3), (True, False), range(-2, 3),
                                                                range(-2, 3), (0, 1, 2)):
            yield n, {'size': size, 'step': step, 'window_sized': sized, 'label_shift': ls, 'start_shift': ss, 'size_increment': inc}
    # shrinking windows: the first window may overshoot the container (size up to n + 4) and later, smaller ones fit
    for n in range(1, max_n + 1):
        for size, step, sized, ls, ss, inc in itertools.product(range(2, n + 5), (1, 2), (True, False), (-1, 0, 1),
                                                                (-1, 0, 1), (-1, -2, -3)):
            yield n, {'size': size, 'step': step, 'window_sized': sized, 'label_shift': ls, 'start_shift': ss, 'size_increment': inc}


def _win_case(rng, n, params, which, kinds=('auto', 'str', 'int', 'IndexDate'), valid=None, func=None):
    if which == 'series':
        return {'kind': 'swin', 'spec': _win_series_spec(rng, n, kinds), 'params': params, 'valid': valid, 'func': func}
    axis = 0 if which == 'frame_axis0' else 1
    spec = _win_frame_spec(rng, n, axis, kinds)
    return {'kind': 'fwin', 'spec': spec, 'layout': _pick_layout(rng, spec.dtypes), 'axis': axis, 'params': params,
            'valid': valid, 'func': func}


def gen_window_sampled(rng):
    n = rng.choice([0, 1, 2, 3, 4, 5, 6, 7, 8, 9, 10, 12])
    params = {'size': rng.randint(1, n + 2), 'step': rng.choice([0, 1, 1, 2, 3, 4, 5]), 'window_sized': rng.random() < 0.5,
              'label_shift': rng.randint(-4, 4), 'start_shift': rng.randint(-4, 4), 'size_increment': rng.choice([0, 0, 1, 2, 3, -1, -2, -3])}
    if params['size_increment'] < 0:
        params['size'] = rng.randint(2, n + 6)
        params['step'] = max(1, params['step'])
    if params['step'] == 0 and params['size_increment'] == 0:
        params['size_increment'] = 1
    which = rng.choice(['series', 'frame_axis0', 'frame_axis1'])
    valid = rng.choice([None, None, 'even', 'nonempty'])
    func = rng.choice([None, None, None, 'shape'])
    return _win_case(rng, n, params, which, kinds=_WIN_KINDS, valid=valid, func=func)


def probes(ctx):
    S, Fs = F.SeriesSpec, F.FrameSpec
    return [
        # unorderable object keys are grouped by str(): 1 and '1' in one group
        {'kind': 'sgroup', 'spec': S(['a', 'b', 'c'], 'str', 'object', [1, '1', 2], None), 'pool': 'obj_mixed', 'shape': 'free'},
        # tuple cells among unorderable keys: the str fallback raises
        {'kind': 'sgroup', 'spec': S(['a', 'b', 'c'], 'str', 'object', [(1, 2), 'a', (1, 2)], None), 'pool': 'obj_tuple_mixed', 'shape': 'free'},
        # several key columns int64 + float64: keys pass through a float array
        {'kind': 'fgroup', 'spec': Fs([0, 1, 2], ['k', 'j', 'v'], 'auto', 'str', ['int64', 'float64', 'int64'],
                                      [[BIG + 1, 5.0, 10], [BIG, 5.0, 11], [2, 5.0, 12]], None),
         'layout': [(0, 1, False), (1, 2, False), (2, 3, False)], 'axis': 0, 'form': 'list', 'keys': [0, 1], 'pools': ['int64big', 'float64'],
         'shape': 'free', 'cls': 'Frame'},
        # Series.iter_group().apply builds the result index with the class of the source index
        {'kind': 'sgroup', 'spec': S([np.datetime64('2020-01-01'), np.datetime64('2020-01-02'), np.datetime64('2020-01-03')], 'IndexDate',
                                     'int64', [1, 2, 1], None), 'pool': 'int64', 'shape': 'few'},
        # Frame.iter_group_labels with a list of depths labels the groups with arrays
        {'kind': 'flabels', 'spec': Fs([('A', 1), ('A', 2), ('B', 1)], ['x', 'y'], 'hier2', 'str', ['int64', 'int64'],
                                       [[1, 2], [3, 4], [5, 6]], None),
         'layout': [(0, 2, True)], 'axis': 0, 'depth': [0, 1], 'cls': 'Frame'},
        # a first window beyond the last element is yielded, empty, when window_sized is off
        {'kind': 'swin', 'spec': S(['a'], 'str', 'int64', [10], None),
         'params': {'size': 1, 'step': 1, 'window_sized': False, 'label_shift': -2, 'start_shift': 2, 'size_increment': 0},
         'valid': None, 'func': None},
        {'kind': 'swin', 'spec': S(['a', 'b', 'c'], 'str', 'int64', [10, 11, 12], None),
         'params': {'size': 1, 'step': 1, 'window_sized': False, 'label_shift': -1, 'start_shift': -1, 'size_increment': 0},
         'valid': None, 'func': None},
        # axis=1 grouping with a one-row list key
        {'kind': 'fgroup', 'spec': Fs(['r', 'q'], ['a', 'b', 'c'], 'str', 'str', ['int64', 'int64', 'int64'], [[1, 2, 1], [5, 6, 7]], None),
         'layout': [(0, 3, True)], 'axis': 1, 'form': 'list', 'keys': [0], 'pools': ['int64'], 'shape': 'few', 'cls': 'Frame'},
        # axis=1 grouping by two rows held in an object array: the fallback restores rows instead of columns
        {'kind': 'fgroup', 'spec': Fs(['r', 'q'], ['a', 'b', 'c'], 'str', 'str', ['int64', '<U5', 'int64'], [[1, 'x', 1], [5, 'y', 5]], None),
         'layout': [(0, 1, False), (1, 2, False), (2, 3, False)], 'axis': 1, 'form': 'list', 'keys': [0, 1], 'pools': ['int64', '<U5'],
         'shape': 'few', 'cls': 'Frame'},
        # iter_window_array(axis=1) extracting an empty window: StopIteration leaks from TypeBlocks._extract_array
        {'kind': 'fwin', 'spec': Fs(['r'], ['a', 'b', 'c'], 'str', 'str', ['int64', 'int64', 'int64'], [[1, 2, 3]], None),
         'layout': [(0, 3, True)], 'axis': 1,
         'params': {'size': 1, 'step': 1, 'window_sized': True, 'label_shift': 0, 'start_shift': -1, 'size_increment': 0},
         'valid': None, 'func': None},
        # FrameGO grouped on axis 1 by a label on the sort path
        {'kind': 'fgroup', 'spec': Fs(['r', 'q'], ['a', 'b', 'c'], 'str', 'str', ['int64', 'int64', 'int64'], [[1, 2, 1], [5, 6, 7]], None),
         'layout': [(0, 3, True)], 'axis': 1, 'form': 'label', 'keys': [0], 'pools': ['int64'], 'shape': 'few', 'cls': 'FrameGO'},
    ]


def _with_layouts(rng, case, k):
    """the same Frame spec in up to k distinct block layouts (the drawn one, all 1-D, fully
    consolidated, further random ones)."""
    dts = case['spec'].dtypes
    cands = [case['layout'], F.layout_all_1d(dts), F.layout_max_consolidated(dts)]
    if len(dts) > 1:
        cands.extend(rng.sample(F.layouts(dts, limit=24), 2) if len(F.layouts(dts, limit=24)) >= 2 else [])
    seen = []
    for lay in cands:
        lay = list(lay)
        if lay not in seen:
            seen.append(lay)
    for lay in seen[:k]:
        yield dict(case, layout=lay)


def generate(ctx):
    rng = ctx.rng
    nlay = 2 if ctx.tier == 'quick' else 3
    # (1) enumerated window parameters
    space = list(window_param_space(6))
    share = space[ctx.shard::ctx.nshards]
    kinds3 = ['series', 'frame_axis0', 'frame_axis1']
    for i, (n, params) in enumerate(share):
        if ctx.tier == 'quick':
            yield _win_case(rng, n, params, kinds3[(i + ctx.shard) % 3])
        else:
            for which in kinds3:
                yield _win_case(rng, n, params, which)
    # (2) sampled
    for _ in range(ctx.n(24000, 350000)):
        r = rng.random()
        if r < 0.14:
            yield gen_sgroup(rng)
        elif r < 0.24:
            yield gen_slabels(rng)
        elif r < 0.66:
            case = gen_fgroup(rng)
            if case is not None:
                yield from _with_layouts(rng, case, nlay)
        elif r < 0.78:
            yield from _with_layouts(rng, gen_flabels(rng), nlay)
        else:
            yield gen_window_sampled(rng)


# --------------------------------------------------------------------------------------
# check

def check(case, ctx):
    _install_probe()
    kind = case['kind']
    if kind == 'sgroup':
        return _check_sgroup(case, ctx)
    if kind == 'slabels':
        return _check_slabels(case, ctx)
    if kind == 'fgroup':
        return _check_fgroup(case, ctx)
    if kind == 'flabels':
        return _check_flabels(case, ctx)
    if kind == 'swin':
        return _check_swin(case, ctx)
    return _check_fwin(case, ctx)


def _call(fn):
    try:
        return fn(), None
    except Exception as e:  # judged by the caller
        return None, e


def _exc_detail(exc):
    return {'exception': type(exc).__name__, 'message': str(exc)[:300]}


def _is_stopiter(exc):
    """a StopIteration that escaped inside a library generator (PEP 479 turns it into RuntimeError)."""
    return isinstance(exc, RuntimeError) and isinstance(exc.__cause__, StopIteration)


class _Members:
    """How the members of one grouped container are read from the spec (expected) and from a
    yielded sub-container (observed), in one comparable format."""

    def __init__(self, container, spec, axis):
        self.container, self.spec, self.axis = container, spec, axis
        if container == 'series':
            self.labels = spec.labels
            self.dtype = str(V.to_array(spec.values, spec.dtype).dtype)
        else:
            self.labels = spec.rows if axis == 0 else spec.cols
            self.dtypes = [str(spec.col_array(c).dtype) for c in range(len(spec.cols))]
        self.n = len(self.labels)

    def expected(self, positions):
        spec = self.spec
        if self.container == 'series':
            return {'k': 'Series', 'labels': tuple(cs(spec.labels[p]) for p in positions),
                    'values': tuple(cs(spec.values[p]) for p in positions), 'dtype': self.dtype}
        if self.axis == 0:
            return {'k': 'Frame', 'index': tuple(cs(spec.rows[p]) for p in positions), 'columns': tuple(cs(c) for c in spec.cols),
                    'cols': tuple(tuple(cs(spec.cells[p][c]) for p in positions) for c in range(len(spec.cols))),
                    'dtypes': tuple(self.dtypes)}
        return {'k': 'Frame', 'index': tuple(cs(r) for r in spec.rows), 'columns': tuple(cs(spec.cols[p]) for p in positions),
                'cols': tuple(tuple(cs(spec.cells[r][p]) for r in range(len(spec.rows))) for p in positions),
                'dtypes': tuple(self.dtypes[p] for p in positions)}

    def observed(self, sub):
        s = canon.snap(sub)
        if s['k'] == 'Series':
            return {'k': 'Series', 'labels': s['index']['labels'], 'values': s['values'], 'dtype': s['dtype']}
        if s['k'] == 'Frame':
            return {'k': 'Frame', 'index': s['index']['labels'], 'columns': s['columns']['labels'], 'cols': s['cols'], 'dtypes': s['dtypes']}
        return s


def _label_keyform(label, multi):
    """keyform of a yielded group label as a tuple of per-line keyforms."""
    if multi:
        if isinstance(label, (tuple, list, np.ndarray)):
            return tuple(keyform(x) for x in (label if not isinstance(label, np.ndarray) or label.dtype == object or label.dtype.kind in 'Mm'
                                             else label.tolist()))
        return (keyform(label),)
    return (keyform(label),)


def _group_shape(ref, n):
    if n == 0:
        return 'empty'
    if len(ref) == 1:
        return 'single_group'
    if len(ref) == n:
        return 'all_distinct'
    return 'few_distinct'


def _judge_group_forms(ctx, case_fp, klass, members, ref, multi, calls):
    """calls: {'items': fn -> iterable of (label, sub), 'values': fn -> iterable of sub,
    'apply': fn -> Series, 'items_apply': fn -> Series}.  One evaluation per form."""
    n = members.n
    nontrivial = n >= 2
    klass = dict(klass, n_members=n, n_groups=len(ref))
    ctx.tally('group_shape', _group_shape(ref, n))
    ctx.tally('group_count', min(len(ref), 9))
    for form, fn in calls.items():
        ctx.evaluation((case_fp, form), nontrivial)
        ctx.tally('form', f"{klass['container']}.{klass['op']}.{form}")
        k = dict(klass, form=form)
        _probe_reset()
        out, exc = _call(lambda: list(fn()) if form in ('items', 'values') else fn())
        flags = _probe_flags()
        if form == 'items':
            _tally_impl(ctx, klass, flags)
        if _PROBE['state'] == 'on':
            # observed, or predicted by the model (unorderable keys): a refactoring that moves the fallback elsewhere must not turn
            # the recorded str-collision finding into an alarm
            k['str_fallback'] = 'str_fallback' in flags or bool(klass.get('unorderable'))
            k['impl'] = '+'.join(f for f in ('sort_items', 'typeblocks_group') if f in flags) or 'other'
        else:
            k['str_fallback'] = bool(klass.get('unorderable'))
            k['impl'] = klass.get('predicted_impl', 'other')
        if exc is not None:
            what = 'group_raised' if form in ('items', 'values') else 'apply_raised'
            ctx.violation(what, detail=_exc_detail(exc), klass=dict(k, exception=type(exc).__name__, stopiteration=_is_stopiter(exc)))
            continue
        if form == 'items':
            _judge_items(ctx, k, members, ref, multi, out)
        elif form == 'values':
            _judge_values(ctx, k, members, ref, out)
        else:
            _judge_apply(ctx, k, ref, multi, out)


def _tally_impl(ctx, klass, flags):
    suffix = '+axis1' if klass.get('axis') == 1 else ''
    if klass['container'] == 'frame' and klass['op'] == 'values':
        ran = [f for f in ('sort_items', 'typeblocks_group') if f in flags]
        for f in ran:
            ctx.tally('impl_ran', f)
            if suffix:
                ctx.tally('impl_ran', f + suffix)
        if not ran:
            ctx.tally('impl_ran', 'neither(empty or raised)')
        ctx.tally('impl_by_key_kind', f"{'+'.join(ran) or 'none'}:{klass.get('key_resolved')}:{klass.get('keyform')}")
    if 'str_fallback' in flags or (_PROBE['state'] != 'on' and klass.get('unorderable')):
        ctx.tally('branch_ran', 'unique_str_fallback')
    elif 'unique_returned' in flags:
        ctx.tally('branch_ran', 'unique_direct')


def _judge_items(ctx, k, members, ref, multi, out):
    """out: list of (label, sub).  Returns {keyform: observed member snapshot} or None."""
    got = {}
    dup = False
    for pair in out:
        if not (isinstance(pair, tuple) and len(pair) == 2):
            ctx.violation('group_items_not_pairs', detail={'got': canon.brief(pair)}, klass=k)
            return None
        label, sub = pair
        if isinstance(label, np.ndarray):
            ctx.violation('group_label_is_array', detail={'label': canon.brief(label)}, klass=k)
        kf = _label_keyform(label, multi)
        if kf in got:
            dup = True
        got.setdefault(kf, []).append(members.observed(sub))
    if dup:
        ctx.violation('group_keys_not_distinct', detail={'keys': [canon.brief(p[0]) for p in out]}, klass=k)
        return None
    exp = {kf: members.expected(pos) for kf, pos in ref.items()}
    got1 = {kf: v[0] for kf, v in got.items()}
    if got1 != exp:
        missing = [kf for kf in exp if kf not in got1]
        extra = [kf for kf in got1 if kf not in exp]
        differ = [kf for kf in exp if kf in got1 and got1[kf] != exp[kf]]
        ctx.violation('group_partition_mismatch',
                      detail={'missing_keys': missing[:6], 'unexpected_keys': extra[:6],
                              'members_differ': [{'key': kf, 'expected': canon.brief(exp[kf], 500), 'got': canon.brief(got1[kf], 500)}
                                                 for kf in differ[:3]],
                              'expected_groups': {repr(kf): pos for kf, pos in list(ref.items())[:8]}},
                      klass=k)
        return None
    return got1


def _judge_values(ctx, k, members, ref, out):
    got = sorted(repr(members.observed(sub)) for sub in out)
    exp = sorted(repr(members.expected(pos)) for pos in ref.values())
    if got != exp:
        ctx.violation('group_values_iter_mismatch', detail={'expected': canon.brief(exp, 800), 'got': canon.brief(got, 800)}, klass=k)


def _judge_apply(ctx, k, ref, multi, out):
    import static_frame as sf
    if not isinstance(out, sf.Series):
        ctx.violation('apply_result_not_series', detail={'got': canon.brief(out)}, klass=k)
        return
    labels = canon.index_labels(out.index)
    vals = canon.arr_values(out.values)
    got = {}
    for lab, v in zip(labels, vals):
        kf = _label_keyform(lab, multi)
        if kf in got:
            ctx.violation('apply_labels_not_distinct', detail={'labels': canon.brief(labels)}, klass=k)
            return
        got[kf] = cs(v)
    exp = {kf: cs(len(pos)) for kf, pos in ref.items()}
    if got != exp or len(labels) != len(ref):
        ctx.violation('apply_mismatch', detail={'expected': {repr(a): b for a, b in exp.items()}, 'got': {repr(a): b for a, b in got.items()},
                                                'index_cls': type(out.index).__name__}, klass=k)


# -- Series groups ---------------------------------------------------------------------

def _check_sgroup(case, ctx):
    spec = case['spec']
    s = F.build_series(spec)
    members = _Members('series', spec, 0)
    key_rows = [(v,) for v in spec.values]
    ref = refgroup(key_rows)
    klass = {'container': 'series', 'op': 'values', 'axis': 0, 'index_kind': spec.kind, 'pool': case.get('pool'), 'keyform': 'values',
             'key_dtype': spec.dtype}
    klass.update(key_info(key_rows, [spec.dtype]))
    ctx.tally('key_pool', case.get('pool'))
    ctx.tally('member_index_kind', spec.kind)
    ctx.sample({'series_group': spec.brief(), 'values': canon.brief(spec.values, 120)})
    calls = {'items': lambda: s.iter_group_items(), 'values': lambda: s.iter_group(),
             'apply': lambda: s.iter_group().apply(_count0), 'items_apply': lambda: s.iter_group_items().apply(_items_count0)}
    _judge_group_forms(ctx, ('sgroup', repr(spec)), klass, members, ref, False, calls)


def _depth_key_rows(labels, depth_kind, depth):
    if depth_kind == 1:
        return [(lab,) for lab in labels], False
    if isinstance(depth, list):
        return [tuple(lab[d] for d in depth) for lab in labels], True
    return [(lab[depth],) for lab in labels], False


def _check_slabels(case, ctx):
    spec, depth = case['spec'], case['depth']
    s = F.build_series(spec)
    members = _Members('series', spec, 0)
    key_rows, multi = _depth_key_rows(spec.labels, _depth_of(spec.kind), depth)
    ref = refgroup(key_rows)
    klass = {'container': 'series', 'op': 'labels', 'axis': 0, 'index_kind': spec.kind, 'depth_is_list': isinstance(depth, list),
             'keyform': 'depth_list' if isinstance(depth, list) else 'depth'}
    klass.update(_label_key_info(key_rows, multi))
    ctx.tally('label_group', f"series:{spec.kind}:{'list' if isinstance(depth, list) else 'int'}")
    calls = {'items': lambda: s.iter_group_labels_items(depth), 'values': lambda: s.iter_group_labels(depth),
             'apply': lambda: s.iter_group_labels(depth).apply(_count0),
             'items_apply': lambda: s.iter_group_labels_items(depth).apply(_items_count0)}
    _judge_group_forms(ctx, ('slabels', repr(spec), repr(depth)), klass, members, ref, multi, calls)


def _label_key_info(key_rows, multi):
    """as key_info, for label arrays: a depth's dtype is what NumPy gives the labels."""
    if not key_rows:
        return {'nkeys': 0, 'key_resolved': 'none', 'unorderable': False, 'str_collision': False, 'has_tuple_cell': False,
                'has_none_cell': False, 'bigint_meets_float': False}
    dts = []
    for j in range(len(key_rows[0])):
        col = [r[j] for r in key_rows]
        if all(isinstance(c, np.datetime64) for c in col):
            dts.append('M8[D]')
        elif all(isinstance(c, str) for c in col):
            dts.append('<U5')
        elif all(isinstance(c, bool) for c in col):
            dts.append('bool')
        elif all(isinstance(c, int) and not isinstance(c, bool) for c in col):
            dts.append('int64')
        elif all(isinstance(c, float) for c in col):
            dts.append('float64')
        else:
            dts.append('object')
    return key_info(key_rows, dts, two_d=multi)


# -- Frame groups ----------------------------------------------------------------------

def _build(case):
    import static_frame as sf
    cls = sf.FrameGO if case.get('cls') == 'FrameGO' else sf.Frame
    return F.build_frame(case['spec'], case['layout'], cls=cls)


def _check_fgroup(case, ctx):
    spec, axis, form, keys = case['spec'], case['axis'], case['form'], case['keys']
    f = _build(case)
    members = _Members('frame', spec, axis)
    other_labels = spec.cols if axis == 0 else spec.rows
    if axis == 0:
        key_rows = [tuple(spec.cells[r][c] for c in keys) for r in range(len(spec.rows))]
        key_dtypes = [spec.dtypes[c] for c in keys]
    else:
        key_rows = [tuple(spec.cells[r][c] for r in keys) for c in range(len(spec.cols))]
        key_dtypes = None
    multi = form != 'label'
    ref = refgroup(key_rows)
    if form == 'label':
        key = other_labels[keys[0]]
    elif form == 'list':
        key = [other_labels[k] for k in keys]
    else:
        key = slice(other_labels[keys[0]], other_labels[keys[-1]])
    klass = {'container': 'frame', 'op': 'values', 'axis': axis, 'keyform': form, 'member_kind': spec.row_kind if axis == 0 else spec.col_kind,
             'keyed_kind': spec.col_kind if axis == 0 else spec.row_kind, 'pools': '+'.join(sorted(set(p for p in case.get('pools', []) if p))),
             'cls': case.get('cls', 'Frame')}
    if axis == 0:
        klass.update(key_info(key_rows, key_dtypes, two_d=multi))
    else:
        # one array holds the key row(s) across all columns: the resolved kind is that of all column dtypes
        klass.update(_axis1_key_info(spec, keys, key_rows))
    flat = spec.row_kind[:4] != 'hier' and spec.col_kind[:4] != 'hier'
    klass['predicted_impl'] = 'sort_items' if (flat and form == 'label' and klass['key_resolved'] != 'object') else 'typeblocks_group'
    ctx.tally('frame_group', f'axis{axis}:{form}:{len(keys)}keys')
    ctx.tally('key_pool', klass['pools'])
    ctx.tally('key_resolved_kind', klass['key_resolved'])
    ctx.tally('layout_blocks', len(case['layout']))
    ctx.tally('axis_kinds', f'{spec.row_kind}/{spec.col_kind}')
    ctx.tally('frame_cls', case.get('cls', 'Frame'))
    ctx.sample({'frame_group': spec.brief(), 'layout': F.layout_name(case['layout']), 'axis': axis, 'key': canon.brief(key, 80)})
    cnt, icnt = (_count0, _items_count0) if axis == 0 else (_count1, _items_count1)
    calls = {'items': lambda: f.iter_group_items(key, axis=axis), 'values': lambda: f.iter_group(key, axis=axis),
             'apply': lambda: f.iter_group(key, axis=axis).apply(cnt),
             'items_apply': lambda: f.iter_group_items(key, axis=axis).apply(icnt)}
    _judge_group_forms(ctx, ('fgroup', repr(spec), repr(case['layout']), axis, form, tuple(keys), case.get('cls')), klass, members, ref, multi, calls)
    _group_independence(ctx, f, klass, lambda: f.iter_group(key, axis=axis))


def _group_independence(ctx, f, klass, make_groups):
    """groups of a grow-only frame are containers of their own: a column added to the source afterwards must not appear in (or break)
    a group taken before, and a column added to a group must not appear in the source."""
    import static_frame as sf
    if not isinstance(f, sf.FrameGO):
        return
    try:
        groups = [g for g in make_groups() if isinstance(g, sf.Frame)][:3]
    except Exception:
        return
    if not groups:
        return
    ctx.tally('group_independence', 'checked')
    snaps = [canon.snap(g) for g in groups]
    src = canon.snap(f)
    try:
        f['__source_growth__'] = np.arange(len(f.index))
    except Exception as e:
        ctx.tally('group_independence', 'growth_raised:' + type(e).__name__)
        return
    for g, before in zip(groups, snaps):
        try:
            same = canon.snap(g) == before and len(g.columns) == g.shape[1]
        except Exception:
            same = False
        if not same:
            ctx.violation('group_follows_growth_of_source', detail={'group_columns': [repr(c) for c in g.columns][:8], 'group_shape': g.shape}, klass=klass)
            return
    g0 = groups[0]
    if isinstance(g0, sf.FrameGO):
        grown_src = canon.snap(f)
        try:
            g0['__group_growth__'] = np.arange(len(g0.index))
        except Exception:
            return
        if canon.snap(f) != grown_src or len(f.columns) != f.shape[1]:
            ctx.violation('source_follows_growth_of_group', detail={'source_columns': [repr(c) for c in f.columns][:8], 'shape': f.shape}, klass=klass)


def _axis1_key_info(spec, keys, key_rows):
    """key rows run across all columns: every key line is held in an array of the row dtype."""
    kind = _resolved_kind(spec.dtypes) if spec.dtypes else 'object'
    info = key_info(key_rows, ['object'] * len(keys))
    info['key_resolved'] = kind
    flat = [c for row in key_rows for c in row]
    if len(keys) == 1:
        # (a one-row list / slice key is held 1 x n and flattened by np.unique(axis=None))
        info['unorderable'] = kind == 'object' and _pairwise_unorderable([r[0] for r in key_rows])
    else:
        info['unorderable'] = kind == 'object'
    int_big = any(isinstance(c, int) and not isinstance(c, bool) and abs(c) > BIG for c in flat)
    int_kinds = {np.dtype(d) for d in spec.dtypes if d != 'object' and np.dtype(d).kind in 'iu'}
    info['bigint_meets_float'] = bool(int_big and kind in 'fc' and int_kinds)
    return info


def _check_flabels(case, ctx):
    spec, axis, depth = case['spec'], case['axis'], case['depth']
    f = _build(case)
    members = _Members('frame', spec, axis)
    labels = spec.rows if axis == 0 else spec.cols
    kind = spec.row_kind if axis == 0 else spec.col_kind
    key_rows, multi = _depth_key_rows(labels, _depth_of(kind), depth)
    ref = refgroup(key_rows)
    klass = {'container': 'frame', 'op': 'labels', 'axis': axis, 'index_kind': kind, 'depth_is_list': isinstance(depth, list),
             'keyform': 'depth_list' if isinstance(depth, list) else 'depth', 'cls': case.get('cls', 'Frame')}
    klass.update(_label_key_info(key_rows, multi))
    ctx.tally('label_group', f"frame_axis{axis}:{kind}:{'list' if isinstance(depth, list) else 'int'}")
    ctx.tally('layout_blocks', len(case['layout']))
    cnt, icnt = (_count0, _items_count0) if axis == 0 else (_count1, _items_count1)
    calls = {'items': lambda: f.iter_group_labels_items(depth, axis=axis), 'values': lambda: f.iter_group_labels(depth, axis=axis),
             'apply': lambda: f.iter_group_labels(depth, axis=axis).apply(cnt),
             'items_apply': lambda: f.iter_group_labels_items(depth, axis=axis).apply(icnt)}
    _judge_group_forms(ctx, ('flabels', repr(spec), repr(case['layout']), axis, repr(depth), case.get('cls')), klass, members, ref, multi, calls)
    _group_independence(ctx, f, klass, lambda: f.iter_group_labels(depth, axis=axis))


# -- windows ---------------------------------------------------------------------------

def _numeric_loose(e, g):
    """cell of a consolidated array: equal at value strength, or numerically equal after NumPy
    promotion, or a datetime64/timedelta64 presented as the equal date/datetime/timedelta
    object (NaT as None)."""
    if veq(e, g):
        return True
    if e[0] in ('int', 'float', 'complex', 'bool') and g[0] in ('int', 'float', 'complex', 'bool') and (e[0] != 'bool' or g[0] != 'bool'):
        try:
            x = canon._num(e) if e[0] != 'bool' else int(e[1])
            y = canon._num(g) if g[0] != 'bool' else int(g[1])
            return complex(x) == complex(y) or (x != x and y != y)
        except Exception:
            return False
    if e[0] in ('dt64', 'td64') and e[2] == canon.NAT and g[0] == 'None':
        return True
    return canon.leq(e, g)


def _window_expected(n, params, valid, step0):
    p = params
    ref = ref_windows(n, p['size'], p['step'], p['window_sized'], p['label_shift'], p['start_shift'], p['size_increment'],
                      kmax=(4 * n + 24) if step0 else None)
    if valid == 'even':
        ref = [w for w in ref if len(w[1]) % 2 == 0]
    elif valid == 'nonempty':
        ref = [w for w in ref if len(w[1]) > 0]
    return ref


def _judge_window_sequence(ctx, klass, labels, n, params, ref, got_pairs, step0, to_obs, to_exp, form):
    """got_pairs: [(label, window)] (label None for value-only forms)."""
    k = dict(klass, form=form)
    with_labels = form.endswith('items')
    exp = [((cs(labels[lab]) if with_labels else None), to_exp(pos)) for lab, pos, _, _ in ref]
    got = [((cs(lab) if with_labels else None), to_obs(w)) for lab, w in got_pairs]
    if step0:
        # expanding windows: a prefix of the reference that contains every window inside the container
        required = sum(1 for lab, pos, kk, left in ref if left + params['size'] + kk * params['size_increment'] - 1 <= n - 1)
        ok = len(got) >= required and len(got) <= len(exp) and all(_win_eq(g, e) for g, e in zip(got, exp))
        if not ok and not exp and got and all(_is_empty_obs(w) for _, w in got):
            ctx.violation('window_beyond_end_yielded', detail={'expected': [], 'extra': canon.brief(got, 500)}, klass=k)
        elif not ok:
            ctx.violation('window_sequence_mismatch', detail={'expected_prefix_of': canon.brief(exp, 900), 'required': required,
                                                              'got': canon.brief(got, 900)}, klass=k)
        return
    if len(got) == len(exp) and all(_win_eq(g, e) for g, e in zip(got, exp)):
        return
    if (params['size_increment'] < 0 and len(got) == len(exp) + 1 and all(_win_eq(g, e) for g, e in zip(got, exp))
            and _is_empty_obs(got[-1][1])):
        # the window whose size has shrunk to exactly 0: the statement speaks of slices 'of the stated size' and does not say
        # whether an empty one is a window; the library yields it when its anchor label exists -- not judged
        ctx.tally('window_not_judged', 'zero_size_window_of_shrinking_sequence')
        return
    # the reference sequence followed / preceded only by windows that start beyond the last element?
    extra = None
    if len(got) > len(exp) and all(_win_eq(g, e) for g, e in zip(got, exp)):
        extra = got[len(exp):]
    if extra is not None and all(_is_empty_obs(w) for _, w in extra):
        ctx.violation('window_beyond_end_yielded', detail={'expected': canon.brief(exp, 700), 'extra': canon.brief(extra, 500)}, klass=k)
        return
    ctx.violation('window_sequence_mismatch', detail={'expected': canon.brief(exp, 900), 'got': canon.brief(got, 900)}, klass=k)


def _is_empty_obs(w):
    if w.get('k') == 'Series':
        return len(w['labels']) == 0
    if w.get('k') == 'Frame':
        return len(w['index']) == 0 or len(w['columns']) == 0
    if w.get('k') == 'array':
        return 0 in w['shape']
    if w.get('k') == 'shape':
        return 0 in w['shape']
    return False


def _win_eq(g, e):
    (gl, gw), (el, ew) = g, e
    if gl != el:
        return False
    if ew.get('k') == 'array':
        return (gw.get('k') == 'array' and gw['shape'] == ew['shape'] and len(gw['values']) == len(ew['values'])
                and all(_numeric_loose(x, y) for x, y in zip(ew['values'], gw['values']))
                and (ew.get('dtype') is None or gw.get('dtype') == ew['dtype']))
    return gw == ew


def _window_klass(case, container, n):
    p = case['params']
    return {'container': container, 'op': 'window', 'n': n, 'window_sized': p['window_sized'], 'step_zero': p['step'] == 0,
            'start_shift_negative': p['start_shift'] < 0, 'start_beyond_end': p['start_shift'] > n - 1,
            'label_shift_sign': (p['label_shift'] > 0) - (p['label_shift'] < 0), 'label_before_window': p['label_shift'] <= -p['size'],
            'size_increment': p['size_increment'] > 0, 'valid': case.get('valid'), 'func': case.get('func'),
            'may_extract_empty': n == 0 or p['start_shift'] < 0 or p['start_shift'] > n - 1 or p['size_increment'] < 0,
            'shrinking': p['size_increment'] < 0}


def _window_kwargs(case, axis):
    kw = dict(case['params'])
    if case.get('valid'):
        kw['window_valid'] = _VALID[(case['valid'], axis)]
    if case.get('func'):
        kw['window_func'] = _func_shape
    return kw


def _shape_obs(w):
    return {'k': 'shape', 'shape': tuple(w) if isinstance(w, tuple) else canon.brief(w)}


def _tally_window(ctx, case, which, n, ref):
    p = case['params']
    ctx.tally('window_container', which)
    ctx.tally('window_n', n)
    ctx.tally('window_step', p['step'])
    ctx.tally('window_sized', p['window_sized'])
    ctx.tally('window_label_shift', p['label_shift'])
    ctx.tally('window_start_shift', p['start_shift'])
    ctx.tally('window_size_increment', p['size_increment'])
    ctx.tally('window_yield_count', min(len(ref), 12))
    if case.get('valid') or case.get('func'):
        ctx.tally('window_callbacks', f"valid={case.get('valid')},func={case.get('func')}")


def _check_swin(case, ctx):
    spec, params = case['spec'], case['params']
    s = F.build_series(spec)
    n = len(spec.labels)
    members = _Members('series', spec, 0)
    step0 = params['step'] == 0
    ref = _window_expected(n, params, case.get('valid'), step0)
    klass = _window_klass(case, 'series', n)
    klass['index_kind'] = spec.kind
    _tally_window(ctx, case, 'series', n, ref)
    ctx.sample({'series_window': spec.brief(), 'params': params})
    kw = _window_kwargs(case, 0)
    name = cs(spec.name)
    shape_only = case.get('func') == 'shape'

    def exp_series(pos):
        if shape_only:
            return {'k': 'shape', 'shape': (len(pos),)}
        return dict(members.expected(pos), name=name)

    def obs_series(w):
        if shape_only:
            return _shape_obs(w)
        o = members.observed(w)
        if o.get('k') == 'Series':
            o['name'] = cs(w.name)
        return o

    def exp_array(pos):
        if shape_only:
            return {'k': 'shape', 'shape': (len(pos),)}
        return {'k': 'array', 'shape': (len(pos),), 'values': tuple(cs(spec.values[p]) for p in pos), 'dtype': members.dtype}

    def obs_array(w):
        if shape_only:
            return _shape_obs(w)
        if not isinstance(w, np.ndarray):
            return {'k': 'not_array', 'v': canon.brief(w)}
        return {'k': 'array', 'shape': tuple(w.shape), 'values': tuple(canon.arr_cells(w.reshape(-1))), 'dtype': str(w.dtype)}

    forms = {'items': (lambda: list(s.iter_window_items(**kw)), obs_series, exp_series),
             'values': (lambda: [(None, w) for w in s.iter_window(**kw)], obs_series, exp_series),
             'array_items': (lambda: list(s.iter_window_array_items(**kw)), obs_array, exp_array),
             'array': (lambda: [(None, w) for w in s.iter_window_array(**kw)], obs_array, exp_array)}
    _run_window_forms(ctx, ('swin', repr(spec), repr(sorted(params.items())), case.get('valid'), case.get('func')),
                      klass, spec.labels, n, params, ref, step0, forms)


def _run_window_forms(ctx, fp, klass, labels, n, params, ref, step0, forms):
    nontrivial = n >= 2 and len(ref) >= 1
    for form, (fn, to_obs, to_exp) in forms.items():
        ctx.evaluation((fp, form), nontrivial)
        ctx.tally('form', f"{klass['container']}.window.{form}")
        out, exc = _call(fn)
        if exc is not None:
            ctx.violation('window_raised', detail=_exc_detail(exc),
                          klass=dict(klass, form=form, exception=type(exc).__name__, stopiteration=_is_stopiter(exc)))
            continue
        _judge_window_sequence(ctx, klass, labels, n, params, ref, out, step0, to_obs, to_exp, form)


def _check_fwin(case, ctx):
    spec, params, axis = case['spec'], case['params'], case['axis']
    f = F.build_frame(spec, case['layout'])
    members = _Members('frame', spec, axis)
    labels = spec.rows if axis == 0 else spec.cols
    n = len(labels)
    nr, nc = spec.shape
    step0 = params['step'] == 0
    ref = _window_expected(n, params, case.get('valid'), step0)
    klass = _window_klass(case, f'frame_axis{axis}', n)
    klass['index_kind'] = spec.row_kind if axis == 0 else spec.col_kind
    _tally_window(ctx, case, f'frame_axis{axis}', n, ref)
    ctx.tally('layout_blocks', len(case['layout']))
    kw = _window_kwargs(case, axis)
    kw['axis'] = axis
    shape_only = case.get('func') == 'shape'

    def exp_frame(pos):
        if shape_only:
            return {'k': 'shape', 'shape': (len(pos), nc) if axis == 0 else (nr, len(pos))}
        return members.expected(pos)

    def obs_frame(w):
        if shape_only:
            return _shape_obs(w)
        return members.observed(w)

    def exp_array(pos):
        shape = (len(pos), nc) if axis == 0 else (nr, len(pos))
        if shape_only:
            return {'k': 'shape', 'shape': shape}
        if axis == 0:
            vals = tuple(cs(spec.cells[r][c]) for r in pos for c in range(nc))
        else:
            vals = tuple(cs(spec.cells[r][c]) for r in range(nr) for c in pos)
        return {'k': 'array', 'shape': shape, 'values': vals, 'dtype': None}

    def obs_array(w):
        if shape_only:
            return _shape_obs(w)
        if not isinstance(w, np.ndarray):
            return {'k': 'not_array', 'v': canon.brief(w)}
        return {'k': 'array', 'shape': tuple(w.shape), 'values': tuple(canon.arr_cells(w.reshape(-1))), 'dtype': str(w.dtype)}

    forms = {'items': (lambda: list(f.iter_window_items(**kw)), obs_frame, exp_frame),
             'values': (lambda: [(None, w) for w in f.iter_window(**kw)], obs_frame, exp_frame),
             'array_items': (lambda: list(f.iter_window_array_items(**kw)), obs_array, exp_array),
             'array': (lambda: [(None, w) for w in f.iter_window_array(**kw)], obs_array, exp_array)}
    _run_window_forms(ctx, ('fwin', repr(spec), repr(case['layout']), axis, repr(sorted(params.items())), case.get('valid'), case.get('func')),
                      klass, labels, n, params, ref, step0, forms)
