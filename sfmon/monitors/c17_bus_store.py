"""C17 - Bus and multi-table stores: faithful, lazy, bounded, stale-file safe.

History checker.  One case = a set of named Frames written to one store format, a Bus opened
on the file with some `max_persist`, a history of accesses / derivations over the tree of
Buses that history creates, and at most one fault applied to the backing file between two
steps.  Observation points (installed by this module for the duration of `check` only):
wrappers on the concrete stores' `read_many` / `labels` and on `Store.read` (log of labels
actually read), and a wrapper at the exit of `Bus._update_series_cache_iloc` (loaded flags,
LRU order, placeholders after every cache update).  Judge: `sfmon.model.c17_reflru.BusModel`
(an OrderedDict LRU driven by the same history) plus the Frames written."""
import functools
import os
import shutil
import tempfile

import numpy as np

from sfmon import canon
from sfmon.canon import cs, veq
from sfmon.gen import c17_stores as G
from sfmon.gen import frames as F
from sfmon.model.c17_reflru import BusModel

PROPERTY = 'C17'
TECHNIQUE = 'runtime monitoring: history checker (store-read log + cache-update hook) against an OrderedDict LRU reference model, with a file fault injector'
RULE = ('case = (store format, 1-6 FrameSpecs with block layouts and per-label store configs, max_persist, history of <= 15 steps '
        'over the root Bus and every Bus the history derives, optional fault utime/rewrite/replace/remove[/restore] before a step); '
        'formats x (n, max_persist) x fault kinds are stratified so that every combination occurs; one evaluation per judged step '
        '(plus one for the write/open round trip); a step is non-trivial when the store holds >= 2 Frames and the step accesses at '
        'least one Frame (a load, an LRU touch, an eviction or a read that must fail after a fault); distinct = hash of (case, step index)')
EXPLANATION = ('sampled histories; the small factors format x number of frames x max_persist in {None,1..n} x fault kind are enumerated '
               'cyclically (every combination occurs in every tier), histories and frame contents are sampled')
EXHAUSTIVE = {'quick': False, 'thorough': False}
ASSUMPTIONS = [
    'reference: the Frames written (pickle: exact snapshot incl. dtypes, names, index classes; CSV/TSV/SQLite: labels exact, cells at '
    'value strength, dtype kind per column) and, for laziness, an eager read_many of the same file with the same configuration (exact)',
    'frames written to CSV/TSV/SQLite are restricted to contents those formats represent unambiguously (bool/int/float/str cells without '
    'missing values or quoting, str/int labels, index depth 0-2, columns depth 1-2): text ambiguity is judged by C16',
    'Frames already loaded when a Bus is created (derived Buses) rank least-recently-used in label order',
    'store reads allowed in a cache update = its labels that are unloaded when the update starts (a multi-label selection snapshots its '
    'targets, so a Frame evicted and needed again inside one selection is legitimately not re-read)',
    'after a file fault the LRU order is no longer compared (no load can succeed, so no eviction can happen); after a fault that is undone '
    '(mtime restored) only the max_persist bound, placeholders and returned Frames are judged',
    'parquet / xlsx / hdf5 stores cannot run here (libraries absent): counted under skipped_formats',
]
TIERS = {'quick': {'shards': 8, 'budget_s': 150, 'min_nontrivial': 15000},
         'thorough': {'shards': 16, 'budget_s': 1500, 'min_nontrivial': 300000}}
ANCHORS = {
    'static_frame.core.bus': ['Bus._update_series_cache_iloc', 'Bus._store_reader', 'Bus.__init__', 'Bus._derive', 'Bus._from_store',
                              'Bus._extract_iloc', 'Bus._extract_loc', 'Bus.items', 'Bus.get', 'Bus.status', 'Bus._drop_iloc',
                              'Bus.reindex', 'Bus.sort_index', 'Bus._axis_element'],
    'static_frame.core.store': ['Store._mtime_update', 'Store._mtime_coherent', 'Store.read', 'StoreConfigMap.__getitem__',
                                'StoreConfigMap.from_initializer', 'Store.get_field_names_and_dtypes'],
    'static_frame.core.store_zip': ['_StoreZip.read_many', '_StoreZip.write', '_StoreZip.labels', '_StoreZipDelimited._build_frame',
                                    '_StoreZipDelimited._payload_to_bytes', 'StoreZipPickle._build_frame', 'StoreZipPickle.read_many'],
    'static_frame.core.store_sqlite': ['StoreSQLite.write', 'StoreSQLite.read_many', 'StoreSQLite.labels', 'StoreSQLite._frame_to_table'],
    'static_frame.core.store_client_mixin': ['StoreClientMixin.to_zip_csv', 'StoreClientMixin.to_zip_tsv', 'StoreClientMixin.to_zip_pickle',
                                             'StoreClientMixin.to_sqlite'],
}
REQUIRED_ANCHORS = ['bus.Bus._update_series_cache_iloc', 'bus.Bus._store_reader', 'bus.Bus.__init__', 'bus.Bus._derive',
                    'store.Store._mtime_coherent', 'store.Store._mtime_update', 'store.Store.read',
                    'store_zip._StoreZip.read_many', 'store_zip._StoreZip.write', 'store_zip._StoreZip.labels',
                    'store_sqlite.StoreSQLite.write', 'store_sqlite.StoreSQLite.read_many', 'store_sqlite.StoreSQLite.labels']
REQUIRED_TALLIES = ([('format', f) for f in G.FORMATS]
                    + [('cache_update_branch', b) for b in ('load', 'touch_only', 'nothing_to_do', 'load_with_eviction')]
                    + [('store_reader_branch', b) for b in ('unbounded', 'batched', 'one_by_one')]
                    + [('fault_kind', k) for k in G.FAULTS]
                    + [('fault_outcome', 'StoreFileMutation_raised'), ('fault_outcome', 'served_from_cache'),
                       ('bus_kind', 'derived'), ('hook', 'Bus._update_series_cache_iloc')])

_SENTINEL = ('c17-default',)
_ACTIVE = None  # the history being executed (wrappers are inert otherwise)


# --------------------------------------------------------------------------------------
# generation

def _literal_spec(rows, cols, row_kind, dtypes, cells, name, col_kind='str'):
    return F.FrameSpec(rows, cols, row_kind, col_kind, dtypes, cells, name)


def probes(ctx):
    fa = _literal_spec(['x', 'y'], ['a', 'b'], 'str', ['int64', '<U5'], [[1, 'p'], [2, 'q']], 'f1')
    fb = _literal_spec([('p', 1), ('p', 2), ('q', 1)], ['c'], 'hier2', ['float64'], [[0.5], [1.5], [2.25]], 'f2')
    fc = _literal_spec([0, 1], ['d', 'e'], 'auto', ['bool', 'int64'], [[True, 3], [False, 7]], 'f3')

    def frames(*specs):
        return [{'label': s.name, 'spec': s, 'layout': F.layout_all_1d(s.dtypes)} for s in specs]

    base = {'label_kind': 'str', 'config_mode': 'per_label', 'fault': None, 'export': False}
    return [
        # Bus.get on an unloaded label; then on a loaded, least recently used label under a bound
        dict(base, fmt='zip_pickle', frames=frames(fa, fb, fc), max_persist=2,
             steps=[{'op': 'get', 'label': 'f1', 'present': True, 'bus': 0}, {'op': 'loc', 'label': 'f1', 'bus': 0},
                    {'op': 'loc', 'label': 'f2', 'bus': 0}, {'op': 'get', 'label': 'f1', 'present': True, 'bus': 0},
                    {'op': 'loc', 'label': 'f3', 'bus': 0}]),
        # iter_element on a partially loaded Bus
        dict(base, fmt='zip_pickle', frames=frames(fa, fb, fc), max_persist=None,
             steps=[{'op': 'loc', 'label': 'f2', 'bus': 0}, {'op': 'iter_element', 'bus': 0}]),
        # multi-label selection under max_persist=1 with per-label configurations
        dict(base, fmt='zip_csv', frames=frames(fc, fa, fb), max_persist=1,
             steps=[{'op': 'iloc_slice', 'slice': (None, None, None), 'bus': 0}, {'op': 'loc', 'label': 'f2', 'bus': 0}]),
        # failed read after a touch, mtime restored, then loads: the LRU keeps the label whose read failed
        dict(base, fmt='zip_pickle', frames=frames(fa, fb, fc, _literal_spec([0], ['z'], 'auto', ['int64'], [[5]], 'f4'),
                                                  _literal_spec([0], ['z'], 'auto', ['int64'], [[6]], 'f5'),
                                                  _literal_spec([0], ['z'], 'auto', ['int64'], [[7]], 'f6')), max_persist=2,
             fault={'before': 2, 'kind': 'utime', 'restore_before': 3},
             steps=[{'op': 'loc', 'label': 'f1', 'bus': 0}, {'op': 'loc', 'label': 'f2', 'bus': 0},
                    {'op': 'loc', 'label': 'f3', 'bus': 0}, {'op': 'loc', 'label': 'f4', 'bus': 0},
                    {'op': 'loc', 'label': 'f5', 'bus': 0}, {'op': 'loc', 'label': 'f6', 'bus': 0},
                    {'op': 'status', 'bus': 0}]),
    ]


def _strata():
    out = []
    for n in range(1, 7):
        for mp in [None] + list(range(1, n + 1)):
            out.append((n, mp))
    return out


def generate(ctx):
    rng = ctx.rng
    strata = _strata()
    total = ctx.n(6400, 120000)
    # offset by shard so that the cyclic enumeration of (format, n, max_persist, fault) differs per shard
    base = ctx.shard * 7919
    for i in range(total):
        j = base + i
        fmt = G.FORMATS[j % len(G.FORMATS)]
        n, mp = strata[(j // len(G.FORMATS)) % len(strata)]
        case = G.gen_case(rng, fmt=fmt, n=n, max_persist=mp, fault_p=0.0)
        k = (j // (len(G.FORMATS) * len(strata))) % 12
        nsteps = len(case['steps'])
        if k < len(G.FAULTS) and nsteps:
            fault = {'before': rng.randrange(0, nsteps), 'kind': G.FAULTS[k], 'later': rng.random() < 0.5}
            case['fault'] = fault
        elif k == len(G.FAULTS) and nsteps >= 3:
            b = rng.randrange(0, nsteps - 1)
            case['fault'] = {'before': b, 'kind': 'utime', 'restore_before': rng.randrange(b + 1, nsteps)}
        if case['export'] and case['fault'] is None:
            case['steps'].append({'op': 'export', 'bus': rng.randrange(_n_buses(case))})
        yield case


def _n_buses(case):
    buses = [[f['label'] for f in case['frames']]]
    for st in case['steps']:
        out = G.result_labels(st, buses[st['bus']])
        if out is not None:
            buses.append(out)
    return len(buses)


# --------------------------------------------------------------------------------------
# external observation points (installed for the duration of one check)

def _targets():
    from static_frame.core.bus import Bus
    from static_frame.core.store import Store
    from static_frame.core.store_sqlite import StoreSQLite
    from static_frame.core.store_zip import _StoreZip
    return Bus, Store, StoreSQLite, _StoreZip


def _install():
    Bus, Store, StoreSQLite, _StoreZip = _targets()
    undo = []

    def patch(cls, name, make):
        orig = cls.__dict__[name]
        setattr(cls, name, make(orig))
        undo.append((cls, name, orig))

    def make_read_many(orig):
        @functools.wraps(orig)
        def read_many(self, labels, *args, **kwargs):
            env = _ACTIVE
            if env is None or env.suspended:
                return orig(self, labels, *args, **kwargs)
            pulled = []

            def tap():
                for l in labels:
                    pulled.append(l)
                    yield l
            try:
                it = orig(self, tap(), *args, **kwargs)  # the coherence check runs here
            except BaseException as e:
                env.log.append(('read_refused', type(e).__name__))
                raise

            def out():
                for frame in it:
                    env.log.append(('read', pulled[-1] if pulled else None))
                    yield frame
            return out()
        return read_many

    def make_labels(orig):
        @functools.wraps(orig)
        def labels(self, *args, **kwargs):
            env = _ACTIVE
            if env is not None and not env.suspended:
                env.log.append(('labels',))
            return orig(self, *args, **kwargs)
        return labels

    def make_read(orig):
        @functools.wraps(orig)
        def read(self, label, *args, **kwargs):
            env = _ACTIVE
            if env is not None and not env.suspended:
                env.log.append(('read_call', label, kwargs.get('config')))
            return orig(self, label, *args, **kwargs)
        return read

    def make_update(orig):
        @functools.wraps(orig)
        def _update_series_cache_iloc(self, key):
            env = _ACTIVE
            if env is None:
                return orig(self, key)
            exc = None
            try:
                return orig(self, key)
            except BaseException as e:
                exc = e
                raise
            finally:
                env.on_cache_update(self, key, exc)
        return _update_series_cache_iloc

    patch(_StoreZip, 'read_many', make_read_many)
    patch(StoreSQLite, 'read_many', make_read_many)
    patch(_StoreZip, 'labels', make_labels)
    patch(StoreSQLite, 'labels', make_labels)
    patch(Store, 'read', make_read)
    patch(Bus, '_update_series_cache_iloc', make_update)
    return undo


def _restore(undo):
    for cls, name, orig in reversed(undo):
        setattr(cls, name, orig)


# --------------------------------------------------------------------------------------
# one history

class _Entry:
    __slots__ = ('bus', 'model', 'ghost', 'broken')

    def __init__(self, bus, model):
        self.bus, self.model, self.ghost, self.broken = bus, model, False, False


def _mp_class(mp):
    return 'none' if mp is None else ('1' if mp == 1 else 'gt1')


def _positions(key, n):
    """iloc key -> (positions, single) on a list of n labels (Python / NumPy index semantics)."""
    if isinstance(key, (int, np.integer)) and not isinstance(key, (bool, np.bool_)):
        return [range(n)[int(key)]], True
    if isinstance(key, slice):
        return list(range(n))[key], False
    a = np.asarray(key)
    if a.dtype == bool:
        return [i for i, b in enumerate(a.tolist()) if b], False
    return [range(n)[int(i)] for i in a.tolist()], False


class _Env:
    def __init__(self, case, ctx, tmp):
        self.case, self.ctx, self.tmp = case, ctx, tmp
        self.fmt = case['fmt']
        self.mp = case['max_persist']
        self.log = []
        self.obs = []
        self.suspended = False
        self.entries = []
        self.by_id = {}
        self.verified = {}
        self.faulted = False      # the file differs from what the store recorded
        self.restored = False     # ... and was put back (same bytes, same mtime)
        self.fault_kind = None
        self.reads_total = 0
        self.truth_via = {}
        self.step_op = None

    # -- klass (input class / mechanism, low cardinality) ------------------------------
    def klass(self, **extra):
        k = {'fmt': self.fmt, 'max_persist': _mp_class(self.mp), 'op': self.step_op,
             'phase': 'restored' if self.restored else ('faulted' if self.faulted else 'normal'),
             'fault': self.fault_kind}
        k.update(extra)
        return k

    # -- configuration -------------------------------------------------------------------
    def build_configs(self):
        from static_frame.core.store import StoreConfig, StoreConfigMap
        case = self.case
        int_labels = case['label_kind'] == 'int_encoded'
        codec = {'label_encoder': str, 'label_decoder': int} if int_labels else {}
        descs = {f['label']: G.config_desc(f['spec']) for f in case['frames']}
        self.descs = descs
        mode = case['config_mode']
        if mode == 'none' and not int_labels:
            self.default_desc = dict(G.DEFAULT_CONFIG)
            self.config = None
            return
        if mode == 'per_label_with_default':
            # the most frequent description is the map's default; only the others are listed
            vals = list(descs.values())
            self.default_desc = max(vals, key=lambda d: sum(1 for v in vals if v == d))
            default = StoreConfig(**self.default_desc, **codec)
            m = {l: StoreConfig(**d, **codec) for l, d in descs.items() if d != self.default_desc}
            self.config = StoreConfigMap(m, default=default)
        else:
            self.default_desc = dict(G.DEFAULT_CONFIG)
            default = StoreConfig(**codec) if codec else None
            self.config = StoreConfigMap({l: StoreConfig(**d, **codec) for l, d in descs.items()}, default=default)

    def label_config_is_default(self, label):
        d, e = self.descs[label], self.default_desc
        return d['index_depth'] == e['index_depth'] and d['columns_depth'] == e['columns_depth']

    # -- references ----------------------------------------------------------------------
    def frame_matches_written(self, label, got, g=None):
        """format-appropriate equivalence with the Frame written under `label`."""
        import static_frame as sf
        if not isinstance(got, sf.Frame):
            return False, 'not a Frame'
        w = self.written_snap[label]
        g = canon.snap(got) if g is None else g
        if self.fmt == 'zip_pickle':
            return (g == w), 'exact snapshot'
        if g['shape'] != w['shape']:
            return False, 'shape'
        if g['index']['labels'] != w['index']['labels'] or g['index']['depth'] != w['index']['depth']:
            return False, 'index labels'
        if g['columns']['labels'] != w['columns']['labels'] or g['columns']['depth'] != w['columns']['depth']:
            return False, 'column labels'
        for a, b, da, db in zip(w['cols'], g['cols'], w['dtypes'], g['dtypes']):
            if np.dtype(da).kind != np.dtype(db).kind:
                return False, 'dtype kind'
            if not canon.seq_eq(a, b, veq):
                return False, 'cells'
        if g['name'] != cs(label):
            return False, 'name'
        return True, ''

    def check_frame(self, label, got, model, where):
        """Judge one Frame handed out for `label`; returns True when it is the right Frame."""
        import static_frame as sf
        ctx = self.ctx
        via = model.via.get(label) if model is not None else None
        if not isinstance(got, sf.Frame):
            ctx.violation('placeholder_returned', detail={'label': repr(label), 'got': canon.brief(got, 200), 'where': where},
                          klass=self.klass(where=where, loaded_via=via))
            return False
        hit = self.verified.get(id(got))
        if hit is not None and hit[0] is got and hit[1] == label:
            return True
        g = canon.snap(got)
        ok, why = self.frame_matches_written(label, got, g)
        if ok and self.eager_ok.get(label, False) and g != self.eager_snap[label]:
            ok, why = False, 'differs from the eager load of the same file'
        if not ok and not self.eager_ok.get(label, False) and g == self.eager_snap.get(label):
            return True  # the round-trip defect was already reported at creation; lazy == eager
        if not ok:
            ctx.violation('frame_mismatch', detail={'label': repr(label), 'why': why, 'where': where,
                                                    'expected': canon.brief(self.written_snap[label], 700),
                                                    'got': canon.brief(g, 700)},
                          klass=self.klass(where=where, loaded_via=via, label_config_is_default=self.label_config_is_default(label)))
            return False
        self.verified[id(got)] = (got, label)
        return True

    # -- hook ------------------------------------------------------------------------------
    def on_cache_update(self, bus, key, exc):
        from static_frame.core.bus import FrameDeferred
        ctx = self.ctx
        ctx.tally('hook', 'Bus._update_series_cache_iloc')
        entry = self.by_id.get(id(bus))
        if entry is None or entry.bus is not bus:
            ctx.tally('hook_unknown_bus', type(bus).__name__)
            return
        n = len(entry.model.labels)
        try:
            positions, single = _positions(key, n)
        except Exception:
            ctx.tally('hook_unresolved_key', type(key).__name__)
            return
        loaded = [bool(x) for x in bus._loaded.tolist()]
        mp = bus._max_persist
        order = list(bus._last_accessed) if mp is not None else None
        values = bus._series.values
        holds = [v is not FrameDeferred for v in values]
        self.obs.append({'entry': entry, 'positions': positions, 'single': single, 'loaded': loaded, 'order': order,
                         'raised': type(exc).__name__ if exc is not None else None})
        from static_frame.core.exception import StoreFileMutation
        if exc is not None and not isinstance(exc, StoreFileMutation):
            entry.broken = True  # an update that died half way leaves no defined state; the step is reported as raising
            return
        # model-free invariants
        kl = dict(single=single, raised=exc is not None, ghost_lru_entry=entry.ghost)
        if mp is not None and sum(loaded) > mp:
            ctx.violation('cache_invariant:more_than_max_persist_loaded',
                          detail={'loaded': sum(loaded), 'max_persist': mp, 'flags': loaded}, klass=self.klass(**kl))
        if holds != loaded:
            ctx.violation('cache_invariant:loaded_flag_vs_placeholder', detail={'flags': loaded, 'holds_frame': holds},
                          klass=self.klass(**kl))
        if bool(bus._loaded_all) != all(loaded) and exc is None:
            ctx.violation('cache_invariant:loaded_all_flag', detail={'flags': loaded, 'loaded_all': bool(bus._loaded_all)},
                          klass=self.klass(**kl))
        if exc is not None and mp is not None:
            entry.ghost = True  # the LRU was touched before the read that failed
        if order is not None and not entry.ghost:  # (the failing update itself leaves the unread label in the LRU)
            labels = entry.model.labels
            have = {labels[i] for i, f in enumerate(loaded) if f}
            if set(order) != have or len(order) != len(have):
                ctx.violation('cache_invariant:lru_keys_vs_loaded', detail={'lru': [repr(x) for x in order], 'loaded': sorted(map(repr, have))},
                              klass=self.klass(**kl))

    # -- model/implementation state -----------------------------------------------------------
    def impl_state(self, entry):
        bus, labels = entry.bus, entry.model.labels
        loaded = {labels[i] for i, f in enumerate(bus._loaded.tolist()) if f}
        order = list(bus._last_accessed) if bus._max_persist is not None else None
        return loaded, order

    def resync(self, entry, fallback_via=None):
        m = entry.model
        loaded, order = self.impl_state(entry)
        seq = [l for l in (order if order is not None else m.labels) if l in loaded]
        seq += [l for l in m.labels if l in loaded and l not in seq]
        via = dict(m.memo)
        via.update(m.via)
        via.update(fallback_via or {})  # what the step established about the Frames really held (see _do_step_inner)
        m.lru.clear()
        for l in seq:
            m.lru[l] = None
        m.via = {l: via.get(l, 'unknown') for l in seq}


def _write(env, bus_obj, fp, config_explicit):
    meth = getattr(bus_obj, 'to_' + env.fmt)
    if config_explicit and env.config is not None:
        meth(fp, config=env.config)
    else:
        meth(fp)


def _store_cls(fmt):
    from static_frame.core import store_sqlite, store_zip
    return {'zip_pickle': store_zip.StoreZipPickle, 'zip_csv': store_zip.StoreZipCSV, 'zip_tsv': store_zip.StoreZipTSV,
            'sqlite': store_sqlite.StoreSQLite}[fmt]


def _ascending_ints(rows):
    """True/False for a flat all-int label list (ascending or not), None otherwise."""
    if not rows or not all(isinstance(r, int) and not isinstance(r, bool) for r in rows):
        return None
    return all(a < b for a, b in zip(rows, rows[1:]))


def _labels_equal(got, expected):
    return [cs(x) for x in got] == [cs(x) for x in expected]


def check(case, ctx):
    global _ACTIVE
    for fmt in ('zip_parquet', 'xlsx', 'hdf5'):
        ctx.tally('skipped_formats', fmt)
    tmp = tempfile.mkdtemp(prefix='sfmon-c17-', dir=os.environ.get('TMPDIR') or None)
    undo = _install()
    env = _Env(case, ctx, tmp)
    _ACTIVE = env
    try:
        _run(case, ctx, env)
    finally:
        _ACTIVE = None
        _restore(undo)
        shutil.rmtree(tmp, ignore_errors=True)


def _case_fp(case):
    return canon.fp((case['fmt'], case['max_persist'], case['config_mode'], case['label_kind'],
                     [(f['label'], repr(f['spec']), repr(f['layout'])) for f in case['frames']], case['steps'], case['fault']))


def _run(case, ctx, env):
    import static_frame as sf
    fmt, mp = env.fmt, env.mp
    n = len(case['frames'])
    labels = [f['label'] for f in case['frames']]
    ctx.tally('format', fmt)
    ctx.tally('n_frames', n)
    ctx.tally('max_persist', 'None' if mp is None else ('n' if mp == n else mp))
    ctx.tally('max_persist_class', _mp_class(mp))
    ctx.tally('config_mode', case['config_mode'])
    ctx.tally('bus_label_kind', case['label_kind'])
    case_fp = _case_fp(case)
    ctx.sample({'fmt': fmt, 'frames': [dict(f['spec'].brief(), label=f['label'], layout=F.layout_name(f['layout'])) for f in case['frames']],
                'max_persist': mp, 'steps': [s['op'] for s in case['steps']], 'fault': case['fault']})

    # ---- write, eager read, open ----------------------------------------------------------
    env.step_op = 'create'
    env.build_configs()
    written = {}
    for f in case['frames']:
        written[f['label']] = F.build_frame(f['spec'], f['layout'])
        ctx.tally('frame_index_kind', f"{f['spec'].row_kind}/{f['spec'].col_kind}")
        for dt in set(f['spec'].dtypes):
            ctx.tally('frame_dtype', dt)
    env.written = written
    env.written_snap = {l: canon.snap(fr) for l, fr in written.items()}
    fp = os.path.join(env.tmp, 'store' + G.EXT[fmt])
    explicit = case['label_kind'] == 'int_encoded' or case['config_mode'] == 'per_label_with_default'
    ctx.tally('write_route', 'Bus.to_%s(config=%s)' % (fmt, 'map' if explicit and env.config is not None else 'own'))
    ctx.evaluation((case_fp, 'roundtrip'), n >= 2)
    env.suspended = True
    stage = 'write'
    try:
        src = sf.Bus.from_items(((l, written[l]) for l in labels), config=env.config)
        _write(env, src, fp, explicit)
        stage = 'labels'
        probe_store = _store_cls(fmt)(fp)
        got_labels = list(probe_store.labels(config=env.config))
        stage = 'eager read_many'
        eager = list(probe_store.read_many(list(labels), config=env.config)) if _labels_equal(got_labels, labels) else []
    except Exception as e:
        ctx.violation('roundtrip_raised', detail={'stage': stage, 'exception': type(e).__name__, 'message': str(e)[:300]},
                      klass=env.klass(where=stage, exception=type(e).__name__,
                                      index_kinds=sorted({f"{f['spec'].row_kind}/{f['spec'].col_kind}" for f in case['frames']})))
        return
    finally:
        env.suspended = False
    if not _labels_equal(got_labels, labels):
        ctx.violation('labels_mismatch', detail={'written': [repr(l) for l in labels], 'read': [repr(l) for l in got_labels]},
                      klass=env.klass(where='store.labels'))
        return
    env.eager_snap, env.eager_ok = {}, {}
    for l, fr in zip(labels, eager):
        env.eager_snap[l] = canon.snap(fr) if isinstance(fr, sf.Frame) else None
        ok, why = env.frame_matches_written(l, fr)
        env.eager_ok[l] = ok
        if not ok:
            spec = next(f['spec'] for f in case['frames'] if f['label'] == l)
            ctx.violation('roundtrip_mismatch', detail={'label': repr(l), 'why': why, 'written': canon.brief(env.written_snap[l], 700),
                                                        'read': canon.brief(env.eager_snap[l], 700)},
                          klass=env.klass(where='eager read_many', why=why, row_kind=spec.row_kind, col_kind=spec.col_kind,
                                          int_index_ascending=_ascending_ints(spec.rows)))
    env.log.clear()
    opener = getattr(sf.Bus, 'from_' + fmt)
    root = opener(fp, config=env.config, max_persist=mp)
    reads = [e for e in env.log if e[0] == 'read']
    ctx.tally('labels_calls_at_creation', sum(1 for e in env.log if e[0] == 'labels'))
    if reads:
        ctx.violation('store_read_at_creation', detail={'log': env.log[:10]}, klass=env.klass())
    if not _labels_equal(list(root.index), labels) or any(root._loaded.tolist()):
        ctx.violation('bus_after_open', detail={'index': [repr(x) for x in root.index], 'expected': [repr(l) for l in labels],
                                                'loaded': root._loaded.tolist()}, klass=env.klass())
        return
    env.orig_stat = os.stat(fp)
    env.fp = fp
    entry = _Entry(root, BusModel(labels, mp, tag='root'))
    env.entries.append(entry)
    env.by_id[id(root)] = entry

    # ---- history ---------------------------------------------------------------------------
    fault = case['fault']
    for si, step in enumerate(case['steps']):
        if fault is not None and fault['before'] == si:
            _apply_fault(env, fault['kind'], later=fault.get('later', True))
        if fault is not None and fault.get('restore_before') == si and env.faulted:
            _restore_file(env)
        target = env.entries[step['bus']]
        if target.bus is None or target.broken:
            # an earlier step did not return this Bus, or an exception inside a cache update left it without a defined state
            ctx.tally('steps_skipped', 'bus_not_created' if target.bus is None else 'bus_state_undefined_after_exception_in_cache_update')
            out = G.result_labels(step, target.model.labels)
            if out is not None:  # keep the generator's numbering of Buses
                env.entries.append(_Entry(None, target.model.derive(out, tag='dead')))
            continue
        _do_step(env, ctx, case_fp, si, step)

    # ---- closing observation through the public status of every Bus ----------------------------
    env.step_op = 'final_status'
    for e in env.entries:
        if e.bus is not None and not e.broken:
            _check_status(env, ctx, e, e.bus.status)
    if env.reads_total:
        ctx.tally('histories', 'with_reads')


# --------------------------------------------------------------------------------------
# faults

def _alt_bytes(env):
    """Another valid store of the same format with the same labels and other contents (the
    Frames rotated by one label; a single Frame is replaced by a different one)."""
    import static_frame as sf
    from static_frame.core.store import StoreConfig, StoreConfigMap
    labels = list(env.written)
    if len(labels) > 1:
        src = labels[1:] + labels[:1]
        frames = [env.written[l] for l in src]
        descs = [env.descs[l] for l in src]
    else:
        frames = [sf.Frame.from_records([(99,)], columns=('zz',), name=labels[0])]
        descs = [dict(G.DEFAULT_CONFIG, include_index=False)]
    if env.fmt != 'zip_pickle':
        frames = [f.rename(l) for f, l in zip(frames, labels)]
    alt = os.path.join(env.tmp, 'alt' + G.EXT[env.fmt])
    codec = {'label_encoder': str, 'label_decoder': int} if env.case['label_kind'] == 'int_encoded' else {}
    cm = StoreConfigMap({l: StoreConfig(**d, **codec) for l, d in zip(labels, descs)}, default=StoreConfig(**codec))
    env.suspended = True
    try:
        b = sf.Bus.from_items(zip(labels, frames), config=cm)
        getattr(b, 'to_' + env.fmt)(alt, config=cm)
    finally:
        env.suspended = False
    return alt


def _apply_fault(env, kind, later=True):
    ctx = env.ctx
    fp = env.fp
    st = env.orig_stat
    env.faulted, env.fault_kind = True, kind
    ctx.tally('fault_kind', kind)
    if kind == 'remove':
        os.remove(fp)
        return
    if kind == 'rewrite':
        alt = _alt_bytes(env)
        with open(alt, 'rb') as f:
            data = f.read()
        with open(fp, 'wb') as f:
            f.write(data)
    elif kind == 'replace':
        alt = _alt_bytes(env)
        os.replace(alt, fp)
    # always a different mtime than the one the store recorded (no dependence on timestamp granularity): later or earlier
    os.utime(fp, ns=(st.st_atime_ns, st.st_mtime_ns + (7_000_000_000 if later else -7_000_000_000)))
    ctx.tally('fault_mtime', 'later' if later else 'earlier')


def _restore_file(env):
    st = env.orig_stat
    os.utime(env.fp, ns=(st.st_atime_ns, st.st_mtime_ns))
    env.restored = True
    env.faulted = False
    env.ctx.tally('fault_kind', 'utime_restored')


# --------------------------------------------------------------------------------------
# steps

_MULTI = ('loc_list', 'getitem_list', 'loc_slice', 'loc_bool', 'iloc_list', 'iloc_slice', 'iloc_bool', 'head', 'tail')
_SINGLE = ('loc', 'getitem', 'iloc')
_PASSIVE = ('status', 'shapes', 'nbytes', 'len', 'keys', 'iter', 'contains', 'reversed')
_DERIVE = ('drop_loc', 'drop_iloc', 'reindex', 'sort_index')
_BYPASS = ('get', 'iter_element')


def _groups(step, m, mp):
    """The label accesses a step makes, in order: [(labels, kind)] with kind 'single' (one
    element extraction) or 'multi' (one selection of several)."""
    op, labels = step['op'], m.labels
    if op in ('loc', 'getitem'):
        return [([step['label']], 'single')]
    if op == 'iloc':
        return [([labels[step['pos']]], 'single')]
    if op in _MULTI:
        return [(G.result_labels(step, labels), 'multi')]
    if op in ('items', 'values', 'export', 'iter_element'):
        if mp is None:
            return [(list(labels), 'multi')]
        return [([l], 'single') for l in labels]  # documented: one at a time under a bound
    if op == 'get':
        return [([step['label']], 'single')] if step['present'] and step['label'] in labels else []
    return []


def _execute(env, bus, step, partial):
    op = step['op']
    if op == 'export':
        fp2 = os.path.join(env.tmp, f'export{len(env.entries)}' + G.EXT[env.fmt])
        if os.path.exists(fp2):
            os.remove(fp2)
        if not len(bus):
            return None
        # a derived Bus carries the configuration of its parent: the exporter's default is used where it can be
        if env.config is not None and env.case['label_kind'] == 'int_encoded':
            getattr(bus, 'to_' + env.fmt)(fp2, config=env.config)
        else:
            getattr(bus, 'to_' + env.fmt)(fp2)
        return fp2
    if op == 'loc':
        return bus.loc[step['label']]
    if op == 'getitem':
        return bus[step['label']]
    if op == 'loc_list':
        return bus.loc[list(step['labels'])]
    if op == 'getitem_list':
        return bus[list(step['labels'])]
    if op == 'loc_slice':
        return bus.loc[slice(step['start'], step['stop'])]
    if op == 'loc_bool':
        return bus.loc[np.array(step['mask'], dtype=bool)]
    if op == 'iloc_bool':
        return bus.iloc[np.array(step['mask'], dtype=bool)]
    if op == 'iloc':
        # (a position is as often a NumPy integer — the result of an argmax, an element of positions — as a Python int)
        return bus.iloc[np.int64(step['pos']) if step['pos'] % 2 else step['pos']]
    if op == 'iloc_list':
        return bus.iloc[list(step['positions']) if len(step['positions']) % 2 else np.array(step['positions'], dtype=np.int64)]
    if op == 'iloc_slice':
        return bus.iloc[slice(*step['slice'])]
    if op == 'head':
        return bus.head(step['count'])
    if op == 'tail':
        return bus.tail(step['count'])
    if op == 'items':
        for pair in bus.items():
            partial.append(pair)
        return partial
    if op == 'values':
        return bus.values
    if op == 'iter_element':
        for f in bus.iter_element():
            partial.append(f)
        return partial
    if op == 'get':
        return bus.get(step['label'], _SENTINEL)
    if op == 'drop_loc':
        return bus.drop.loc[list(step['labels'])]
    if op == 'drop_iloc':
        return bus.drop.iloc[list(step['positions'])]
    if op == 'reindex':
        return bus.reindex(list(step['labels']), fill_value=None)
    if op == 'sort_index':
        return bus.sort_index(ascending=step['ascending'])
    if op == 'status':
        return bus.status
    if op == 'shapes':
        return bus.shapes
    if op == 'nbytes':
        return bus.nbytes
    if op == 'len':
        return len(bus)
    if op == 'keys':
        return list(bus.keys())
    if op == 'iter':
        return list(iter(bus))
    if op == 'reversed':
        return list(reversed(bus))
    if op == 'contains':
        return step['label'] in bus
    raise KeyError(op)


def _do_step(env, ctx, case_fp, si, step):
    entry = env.entries[step['bus']]
    before = len(env.entries)
    env.truth_via = {}
    try:
        _do_step_inner(env, ctx, case_fp, si, step, entry)
    finally:
        # the store log is authoritative for how the Frames really held were obtained (the model may have "loaded" a
        # label through an accessor that bypasses the cache: see the get / iter_element findings)
        mm = entry.model
        for l in mm.lru:
            if l in env.truth_via:
                mm.via[l] = mm.memo[l] = env.truth_via[l]
        out = G.result_labels(step, entry.model.labels)
        if out is not None and len(env.entries) == before:
            # the step did not hand back its Bus (it raised, or returned something else): keep the numbering of the
            # generator; later steps addressed to it are skipped
            env.entries.append(_Entry(None, entry.model.derive(out, tag='dead')))


def _do_step_inner(env, ctx, case_fp, si, step, entry):
    from static_frame.core.exception import StoreFileMutation
    bus, m = entry.bus, entry.model
    op = step['op']
    env.step_op = op
    mp = m.max_persist
    derived = m.tag != 'root'
    ctx.tally('op', op)
    ctx.tally('bus_kind', 'derived' if derived else 'root')
    ctx.tally('phase', 'restored' if env.restored else ('faulted' if env.faulted else 'normal'))

    # ---- what the statement allows / demands for this step ----------------------------------
    pre = m.copy()
    groups = _groups(step, m, mp)
    allowed = set()
    expect_raise = False
    done_labels = []      # labels whose access completes (before a failing read, if any)
    evictions = 0
    via_bug_class = False
    for glabels, kind in groups:
        miss = m.misses(glabels)
        if miss and env.faulted:
            expect_raise = True
            break
        allowed.update(miss)
        via = 'single' if kind == 'single' else ('multi_mp1' if mp == 1 else 'multi')
        if kind == 'multi' and mp == 1 and any(not env.label_config_is_default(l) for l in miss):
            via_bug_class = True
        if kind == 'multi' and miss and op not in _BYPASS:
            ctx.tally('store_reader_branch', 'unbounded' if mp is None else ('one_by_one' if mp == 1 else 'batched'))
        _, ev = m.access(glabels, via=via)
        evictions += len(ev)
        done_labels.extend(glabels)
        if mp is None:
            branch = 'load' if miss else 'nothing_to_do'
        else:
            branch = ('load_with_eviction' if ev else 'load') if miss else 'touch_only'
        if op not in _BYPASS:
            ctx.tally('cache_update_branch', branch)
    accessed = sum(len(g) for g, _ in groups)
    n_store = len(env.entries[0].model.labels)
    ctx.evaluation((case_fp, si), n_store >= 2 and accessed > 0)
    if evictions:
        ctx.tally('evictions', 'steps_with_eviction')
    if derived and accessed:
        ctx.tally('derived_access', op)

    # ---- run ------------------------------------------------------------------------------------
    env.log.clear()
    env.obs.clear()
    partial = []
    result, exc = None, None
    try:
        result = _execute(env, bus, step, partial)
    except Exception as e:  # judged below
        exc = e
    reads = [e[1] for e in env.log if e[0] == 'read']
    env.reads_total += len(reads)
    for e in env.log:
        if e[0] == 'read_call':
            ctx.tally('store_api', 'read')
            if env.config is None:
                ctx.tally('read_config', 'no_map_given')
            else:
                ctx.tally('read_config', 'label_config' if e[2] is env.config[e[1]] else 'other_config')
        elif e[0] == 'read':
            ctx.tally('store_api', 'read_many_yield')
        elif e[0] == 'read_refused':
            ctx.tally('store_api', 'read_refused_' + e[1])
    # provenance of the Frames really held after the step: unchanged for those loaded at its start and not read again,
    # the step's own access kind for those the store log shows as read
    truth_via = dict(pre.via)
    for l in reads:
        truth_via[l] = m.via.get(l) or m.memo.get(l, 'unknown')
    env.truth_via = truth_via
    held_bug_class = any(v == 'multi_mp1' and not env.label_config_is_default(l) for l, v in pre.via.items())
    kl_extra = dict(bus='derived' if derived else 'root', multi_mp1_nondefault_config=via_bug_class or held_bug_class,
                    ghost_lru_entry=entry.ghost)

    # ---- reads: lazy, and never after a fault ------------------------------------------------------
    if env.faulted and reads:
        ctx.violation('store_read_after_fault', detail={'read': [repr(l) for l in reads]}, klass=env.klass(**kl_extra))
    elif not env.faulted:
        extra = [l for l in reads if l not in allowed]
        if extra and _unreliable(env, entry):
            # a refused read followed by a restored file: which of the loaded Frames count as recently used after the refused
            # access is not defined by the statement, so the model's loaded set (and with it `allowed`) is no prediction here
            ctx.tally('read_accounting_not_judged', 'after_refused_read_and_restore')
        elif extra:
            ctx.violation('store_read_not_needed', detail={'read': [repr(l) for l in reads], 'allowed': sorted(map(repr, allowed)),
                                                           'loaded_before': sorted(map(repr, pre.loaded))},
                          klass=env.klass(passive=op in _PASSIVE or op in _DERIVE, **kl_extra))
        if accessed and op not in _BYPASS:
            acc = 'exactly_the_unloaded_targets' if sorted(repr(cs(l)) for l in reads) == sorted(repr(cs(l)) for l in allowed) else ('fewer' if not extra else 'excess')
            ctx.tally('read_accounting', acc)
            if acc != 'exactly_the_unloaded_targets':
                ctx.tally('read_accounting_inexact', f'{op}/{_mp_class(mp)}/{"ghost" if entry.ghost else "plain"}')

    # ---- exceptions ------------------------------------------------------------------------------------
    if expect_raise:
        if exc is None:
            ctx.tally('fault_outcome', 'data_returned')
            ctx.violation('data_returned_after_store_mutation', detail={'result': canon.brief(result, 300)}, klass=env.klass(**kl_extra))
        elif not isinstance(exc, StoreFileMutation):
            ctx.tally('fault_outcome', 'other_exception')
            ctx.violation('wrong_exception_after_store_mutation', detail={'exception': type(exc).__name__, 'message': str(exc)[:300]},
                          klass=env.klass(exception=type(exc).__name__, **kl_extra))
        else:
            ctx.tally('fault_outcome', 'StoreFileMutation_raised')
            ctx.tally('fault_point', f'{env.fault_kind}:{op}')
        # whatever was handed out before the failing read came from the cache and must be right
        if op == 'items':
            _check_pairs(env, ctx, _Via(pre.via), partial, done_labels[:len(partial)], prefix=True)
        m.lru, m.via = pre.lru, pre.via  # no load can have happened; the order is not compared any more
        _check_loaded_only(env, ctx, entry, kl_extra)
        return
    if exc is not None:
        ctx.violation('valid_access_raised', detail={'exception': type(exc).__name__, 'message': str(exc)[:300]},
                      klass=env.klass(exception=type(exc).__name__, **kl_extra))
        env.resync(entry, truth_via)
        return
    if env.faulted and accessed:
        ctx.tally('fault_outcome', 'served_from_cache')

    # ---- results -------------------------------------------------------------------------------------------
    ok = True
    held = _Via({**m.via, **truth_via})  # how each Frame that may be handed out in this step was obtained
    if op in _SINGLE:
        ok = env.check_frame(groups[0][0][0], result, held, 'element')
    elif op == 'get':
        if groups:
            ok = env.check_frame(step['label'], result, held, 'get')
        elif result is not _SENTINEL:
            ctx.violation('get_absent_label', detail={'got': canon.brief(result, 200)}, klass=env.klass(**kl_extra))
    elif op == 'items':
        ok = _check_pairs(env, ctx, held, result, list(m.labels))
    elif op in ('values', 'iter_element'):
        seq = list(result)
        if len(seq) != len(m.labels):
            ctx.violation('wrong_length', detail={'got': len(seq), 'expected': len(m.labels)}, klass=env.klass(**kl_extra))
            ok = False
        else:
            for l, f in zip(m.labels, seq):
                if not env.check_frame(l, f, held, op):
                    ok = False
                    break  # one witness per step
    elif op in _MULTI or op in _DERIVE:
        ok = _register_derived(env, ctx, entry, step, result, kl_extra)
    elif op == 'export':
        ok = _check_export(env, ctx, entry, result, kl_extra, held)
    elif op in _PASSIVE:
        _check_passive(env, ctx, entry, step, result, kl_extra)

    # ---- state: loaded set, LRU order ---------------------------------------------------------------------------
    _check_state(env, ctx, entry, pre, ok, kl_extra)


class _Via:
    __slots__ = ('via',)

    def __init__(self, via):
        self.via = via


def _check_pairs(env, ctx, m, pairs, labels, prefix=False):
    got_labels = [p[0] for p in pairs]
    if not _labels_equal(got_labels, labels):
        ctx.violation('items_labels', detail={'got': [repr(l) for l in got_labels], 'expected': [repr(l) for l in labels]},
                      klass=env.klass(prefix=prefix))
        return False
    for l, (_, f) in zip(labels, pairs):
        if not env.check_frame(l, f, m, 'items'):
            return False
    return True


def _unreliable(env, entry):
    """A read failed on this Bus (file fault) and the file was then restored: the LRU holds
    the label whose read failed, so order and loaded-set predictions no longer apply."""
    return entry.ghost and env.restored


def _check_loaded_only(env, ctx, entry, kl_extra):
    loaded, _ = env.impl_state(entry)
    if loaded != entry.model.loaded:
        ctx.violation('loaded_set_mismatch', detail={'model': sorted(map(repr, entry.model.loaded)), 'observed': sorted(map(repr, loaded))},
                      klass=env.klass(at='after_refused_read', **kl_extra))
        env.resync(entry, env.truth_via)


def _check_state(env, ctx, entry, pre, result_ok, kl_extra):
    """Replays the cache updates the hook observed on a copy of the step's starting model
    (loaded set and LRU order compared at every exit), then compares the driver's model -
    advanced by the accesses the step must make - with the implementation."""
    m = entry.model
    unreliable = _unreliable(env, entry)
    judged_order = not unreliable and not env.faulted and m.max_persist is not None
    reported = False
    scratch = pre
    for o in env.obs:
        if o['entry'] is not entry or o['raised']:
            continue
        labels = [m.labels[p] for p in o['positions']]
        scratch.access(labels)
        obs_loaded = {m.labels[i] for i, f in enumerate(o['loaded']) if f}
        if reported or unreliable:
            continue
        if obs_loaded != scratch.loaded:
            ctx.violation('loaded_set_mismatch', detail={'at': 'cache update exit', 'accessed': [repr(l) for l in labels],
                                                          'model': sorted(map(repr, scratch.loaded)), 'observed': sorted(map(repr, obs_loaded))},
                          klass=env.klass(at='cache_update', **kl_extra))
            reported = True
        elif judged_order and o['order'] != scratch.order():
            ctx.violation('lru_order_mismatch', detail={'at': 'cache update exit', 'accessed': [repr(l) for l in labels],
                                                         'model': [repr(l) for l in scratch.order()], 'observed': [repr(l) for l in o['order']]},
                          klass=env.klass(at='cache_update', **kl_extra))
            reported = True
    loaded, order = env.impl_state(entry)
    if not reported and result_ok and not unreliable:
        if loaded != m.loaded:
            ctx.violation('loaded_set_mismatch', detail={'at': 'step end', 'model': sorted(map(repr, m.loaded)),
                                                          'observed': sorted(map(repr, loaded))}, klass=env.klass(at='step_end', **kl_extra))
        elif judged_order and order != m.order():
            ctx.violation('lru_order_mismatch', detail={'at': 'step end', 'model': [repr(l) for l in m.order()],
                                                         'observed': [repr(l) for l in order]}, klass=env.klass(at='step_end', **kl_extra))
    if loaded != m.loaded or (m.max_persist is not None and order != m.order()):
        env.resync(entry, env.truth_via)  # later steps are judged from the state actually reached (no cascades)


def _register_derived(env, ctx, entry, step, result, kl_extra):
    """A step returned a Bus: its labels, what it already holds, and what it inherits."""
    import static_frame as sf
    from static_frame.core.bus import FrameDeferred
    m = entry.model
    exp_labels = G.result_labels(step, m.labels)
    dm = m.derive(exp_labels, tag=step['op'])
    for l in dm.via:
        if l in env.truth_via:
            dm.via[l] = dm.memo[l] = env.truth_via[l]
    if not isinstance(result, sf.Bus):
        ctx.violation('derivation_not_a_bus', detail={'got': canon.brief(result, 200)}, klass=env.klass(**kl_extra))
        return False
    ok = True
    if not _labels_equal(list(result.index), exp_labels):
        ctx.violation('derived_labels', detail={'got': [repr(x) for x in result.index], 'expected': [repr(l) for l in exp_labels]},
                      klass=env.klass(**kl_extra))
        return False
    if result._max_persist != m.max_persist or result._store is not entry.bus._store:
        ctx.violation('derived_bus_lost_store_or_bound', detail={'max_persist': result._max_persist}, klass=env.klass(**kl_extra))
        return False
    for l, v in zip(exp_labels, result._series.values):
        if v is FrameDeferred:
            continue  # under a bound a selection larger than max_persist legitimately hands back placeholders
        if not env.check_frame(l, v, dm, 'held_by_derived_bus'):
            ok = False
            break
    new = _Entry(result, dm)
    env.by_id[id(result)] = new
    env.entries.append(new)
    loaded, order = env.impl_state(new)
    if ok and not _unreliable(env, entry):
        if loaded != dm.loaded:
            ctx.violation('loaded_set_mismatch', detail={'at': 'derived bus', 'model': sorted(map(repr, dm.loaded)),
                                                          'observed': sorted(map(repr, loaded))}, klass=env.klass(at='derived', **kl_extra))
            ok = False
        elif order is not None and order != dm.order() and not env.faulted:
            ctx.violation('lru_order_mismatch', detail={'at': 'derived bus', 'model': [repr(l) for l in dm.order()],
                                                         'observed': [repr(l) for l in order]}, klass=env.klass(at='derived', **kl_extra))
            ok = False
    if loaded != dm.loaded or (order is not None and order != dm.order()):
        env.resync(new, env.truth_via)
    return ok


def _check_status(env, ctx, entry, status):
    m = entry.model
    try:
        flags = [bool(x) for x in status['loaded'].values.tolist()]
        shapes = list(status['shape'].values)
    except Exception as e:
        ctx.violation('status_unreadable', detail={'exception': type(e).__name__, 'message': str(e)[:200]}, klass=env.klass())
        return
    if m.max_persist is not None and sum(flags) > m.max_persist:
        ctx.violation('cache_invariant:more_than_max_persist_loaded', detail={'status_loaded': flags, 'max_persist': m.max_persist},
                      klass=env.klass(ghost_lru_entry=entry.ghost, at='status'))
        return
    if _unreliable(env, entry):
        return
    exp = [l in m.lru for l in m.labels]
    if flags != exp:
        ctx.violation('status_loaded_mismatch', detail={'status': flags, 'model': exp}, klass=env.klass())
        return
    for l, fl, sh in zip(m.labels, flags, shapes):
        want = tuple(env.eager_snap[l]['shape']) if fl and env.eager_snap.get(l) else None
        if fl and m.via.get(l) in ('multi_mp1', 'unknown'):
            continue  # the Frame held may itself be under a reported mismatch
        if (sh is None) != (want is None) or (sh is not None and tuple(sh) != want):
            ctx.violation('status_shape_mismatch', detail={'label': repr(l), 'status': repr(sh), 'expected': repr(want)}, klass=env.klass())
            return


def _check_passive(env, ctx, entry, step, result, kl_extra):
    m, op = entry.model, step['op']
    if op == 'status':
        _check_status(env, ctx, entry, result)
        return
    unreliable = _unreliable(env, entry)
    if op == 'shapes':
        bad = not _labels_equal(list(result.index), m.labels)
        for l, sh in zip(m.labels, list(result.values)):
            if (sh is None) != (l not in m.lru) and not unreliable:
                bad = True
    elif op == 'nbytes':
        bad = not isinstance(result, (int, np.integer)) or result < 0 or (result > 0 and not m.lru and not unreliable)
    elif op == 'len':
        bad = result != len(m.labels)
    elif op in ('keys', 'iter'):
        bad = not _labels_equal(result, m.labels)
    elif op == 'reversed':
        bad = not _labels_equal(result, m.labels[::-1])
    else:  # contains
        bad = result != (step['label'] in m.labels)
    if bad:
        ctx.violation('passive_observation_wrong', detail={'got': canon.brief(result, 300), 'labels': [repr(l) for l in m.labels],
                                                           'model_loaded': sorted(map(repr, m.lru))}, klass=env.klass(**kl_extra))


def _check_export(env, ctx, entry, fp2, kl_extra, held):
    """A (possibly derived, partially loaded, bounded) Bus was written to a second file: read
    that file eagerly - labels in order, every Frame the one written under its label."""
    m = entry.model
    if fp2 is None:
        ctx.tally('export', 'skipped_empty_bus')
        return True
    ctx.tally('export', 'derived' if m.tag != 'root' else 'root')
    env.suspended = True
    try:
        st = _store_cls(env.fmt)(fp2)
        got_labels = list(st.labels(config=env.config))
        frames = list(st.read_many(list(got_labels), config=env.config)) if _labels_equal(got_labels, m.labels) else None
    except Exception as e:
        ctx.violation('valid_access_raised', detail={'stage': 'reading the exported file', 'exception': type(e).__name__, 'message': str(e)[:300]},
                      klass=env.klass(exception=type(e).__name__, **kl_extra))
        return False
    finally:
        env.suspended = False
    if frames is None:
        ctx.violation('labels_mismatch', detail={'written': [repr(l) for l in m.labels], 'read': [repr(l) for l in got_labels]},
                      klass=env.klass(where='export', **kl_extra))
        return False
    for l, f in zip(m.labels, frames):
        if not env.check_frame(l, f, held, 'export'):
            return False
    return True
