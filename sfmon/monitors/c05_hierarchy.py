"""C05 — IndexHierarchy: tree and table views agree; per-level (HLoc) selection is exact."""
import itertools

import numpy as np

from sfmon import canon
from sfmon.canon import cs
from sfmon.gen import keys as K
from sfmon.gen import labels as L

PROPERTY = 'C05'
RULE = ('cases = (tree-shaped tuple list of depth 2..4 with ragged fan-out and repeated inner labels, construction route, '
        'grow-only history of append/extend steps with cache-materialising reads in between, HLoc selector per depth); for trees '
        'whose selector space (":" | each label | ordered label pairs | label slices, per depth) has <= 400 combinations every '
        'combination is evaluated, otherwise 400 sampled; each selector is applied to the index (loc_to_iloc), a Series and a '
        'Frame (rows and columns); non-trivial = the tree has >= 3 leaves and the selector picks a proper non-empty subset or '
        'reorders; distinct = hash of (tree, route, selector)')
EXPLANATION = 'selector enumeration is complete for trees with <= 400 selector combinations (breakdown.selector_enumeration)'
EXHAUSTIVE = {'quick': False, 'thorough': False}
ASSUMPTIONS = ['model: recursive descent over the tuple list; label -> that child, list -> children in list order (partial per parent), slice -> children between bounds inclusive, ":" -> all',
               'a label slice is judged only when both bounds exist under every selected parent; selectors matching nothing and Boolean masks at outer depths are outside the claim']
TIERS = {'quick': {'shards': 8, 'budget_s': 150, 'min_nontrivial': 4000},
         'thorough': {'shards': 16, 'budget_s': 1500, 'min_nontrivial': 60000}}
HOOKS = ('index', 'level')
ANCHORS = {
    'static_frame.core.index_level': ['IndexLevel.loc_to_iloc', 'IndexLevel.leaf_loc_to_iloc', 'IndexLevel.values_at_depth', 'IndexLevel.label_widths_at_depth',
                                      'IndexLevel.__contains__', 'IndexLevel.label_nodes_at_depth', 'IndexLevelGO.append', 'IndexLevelGO.extend', 'IndexLevel.to_type_blocks'],
    'static_frame.core.index_hierarchy': ['IndexHierarchy._update_array_cache', 'IndexHierarchy._loc_to_iloc', 'IndexHierarchy._extract_iloc',
                                          'IndexHierarchy._from_type_blocks', 'IndexHierarchy.values_at_depth', 'IndexHierarchyGO.append', 'IndexHierarchyGO.extend'],
    'static_frame.core.frame': ['Frame.set_index_hierarchy'],
}
REQUIRED_ANCHORS = ['index_level.IndexLevel.loc_to_iloc', 'index_level.IndexLevel.leaf_loc_to_iloc', 'index_level.IndexLevel.values_at_depth',
                    'index_hierarchy.IndexHierarchy._update_array_cache', 'index_hierarchy.IndexHierarchy._extract_iloc',
                    'index_level.IndexLevelGO.append', 'index_level.IndexLevelGO.extend']
REQUIRED_TALLIES = [('selector_kind', 'list'), ('selector_kind', 'slice'), ('selector_kind', 'mask_leaf'), ('selector_kind', 'mask_whole')]

ALL = ('all',)


TECHNIQUE = 'runtime monitoring: agreement oracle (tuple-sequence model vs every view of an IndexHierarchy) and an executable HLoc model over exhaustive per-depth selector spaces, for every construction route and grow-only history'


def probes(ctx):
    return []


def generate(ctx):
    rng = ctx.rng
    for _ in range(ctx.n(1600, 26000)):
        if rng.random() < 0.05:
            # a typed date level at the innermost depth: per-depth selectors there may be coarser-unit dates (a month selects its days)
            outers = rng.sample(['a', 'b', 'c', 'd'], rng.randint(2, 3))
            start = np.datetime64(rng.choice(['2020-01-29', '2020-02-27', '2019-12-30']))
            days = [start + np.timedelta64(i, 'D') for i in range(rng.randint(3, 6))]
            per_outer = {o: (days if rng.random() < 0.6 else days[rng.randint(0, 1):rng.randint(3, len(days))]) for o in outers}
            yield {'route': 'date_leaf', 'depth': 2, 'outers': outers, 'days': {o: list(v) for o, v in per_outer.items()}, 'sel_seed': rng.randrange(1 << 30),
                   'build': rng.choice(['from_product', 'from_index_items', 'from_labels_typed']) if all(v == days for v in per_outer.values()) else 'from_index_items'}
            continue
        depth = rng.choice([2, 2, 3, 3, 4])
        n = rng.choice([1, 2, 3, 4, 6, 8, 10, 12, 16])
        labels = L.tree_labels(depth, n, rng, datetime_level=rng.random() < 0.12)
        if not labels:
            continue
        route = rng.choice(['from_labels', 'from_labels_go', 'from_product', 'from_tree', 'from_index_items', 'set_index_hierarchy', 'level_add', 'grow', 'grow_product'])
        case = {'depth': depth, 'labels': labels, 'route': route, 'sel_seed': rng.randrange(1 << 30)}
        if route == 'grow_product':
            pools, model0, appended = L.product_growth(depth, rng, rng.randint(1, 6))
            steps = []
            for t in appended:
                if rng.random() < 0.4:
                    steps.append(('read', rng.choice(['values', 'len', 'iter', 'depth_values', 'loc', 'contains', 'copy'])))
                steps.append(('append', t))
            case.update(pools=pools, start_go=rng.choice(['from_product', 'from_tree', 'from_index_items', 'init_from_static']), steps=steps,
                        labels=model0 + appended, start=model0)
            yield case
            continue
        if route == 'grow':
            k = rng.randint(0, len(labels) - 1)
            steps, i = [], k
            while i < len(labels):
                r = rng.random()
                if r < 0.55:
                    steps.append(('append', labels[i]))
                    i += 1
                elif r < 0.8:
                    # extend takes whole new outer branches
                    outer = cs(labels[i][0])
                    if i == 0 or cs(labels[i - 1][0]) != outer:
                        j = i
                        while j < len(labels) and cs(labels[j][0]) == outer:
                            j += 1
                        if rng.random() < 0.5:
                            while j < len(labels) and rng.random() < 0.5:
                                o2 = cs(labels[j][0])
                                while j < len(labels) and cs(labels[j][0]) == o2:
                                    j += 1
                        steps.append(('extend', labels[i:j]))
                        i = j
                    else:
                        steps.append(('append', labels[i]))
                        i += 1
                else:
                    steps.append(('read', rng.choice(['values', 'len', 'iter', 'depth_values', 'loc', 'contains', 'copy'])))
            case['start'], case['steps'] = labels[:k], steps
        yield case


# --------------------------------------------------------------------------------------
# model

def _children(tuples, positions, depth):
    """ordered distinct labels at `depth` among positions, with their position lists."""
    out = {}
    order = []
    for p in positions:
        c = cs(tuples[p][depth])
        if c not in out:
            out[c] = []
            order.append(c)
        out[c].append(p)
    return order, out


def hloc_positions(tuples, key):
    """list of positions selected by the per-depth selectors; None when a slice bound is missing under a
    selected parent (not judged)."""
    depth_count = len(tuples[0])

    def rec(positions, depth):
        sel = key[depth] if depth < len(key) else ALL
        order, groups = _children(tuples, positions, depth)
        if sel == ALL:
            chosen = order
        elif sel[0] == 'label':
            c = cs(sel[1])
            chosen = [c] if c in groups else []
        elif sel[0] == 'list':
            chosen = [cs(x) for x in sel[1] if cs(x) in groups]
        elif sel[0] == 'slice':
            # an open bound (None) is the first / last label of *this* group of children
            a = cs(sel[1]) if sel[1] is not None else None
            b = cs(sel[2]) if sel[2] is not None else None
            if (a is not None and a not in groups) or (b is not None and b not in groups):
                return None
            ia = order.index(a) if a is not None else 0
            ib = order.index(b) if b is not None else len(order) - 1
            chosen = order[ia:ib + 1]
        else:
            raise KeyError(sel)
        out = []
        for c in chosen:
            if depth == depth_count - 1:
                out.extend(groups[c])
            else:
                sub = rec(groups[c], depth + 1)
                if sub is None:
                    return None
                out.extend(sub)
        return out

    return rec(list(range(len(tuples))), 0)


def selector_space(tuples, rng, cap=400):
    """per-depth selector candidates and the (complete or sampled) product."""
    depth_count = len(tuples[0])
    per_depth = []
    for d in range(depth_count):
        labs = []
        for t in tuples:
            if all(cs(t[d]) != cs(x) for x in labs):
                labs.append(t[d])
        cands = [ALL] + [('label', l) for l in labs]
        pairs = list(itertools.permutations(labs, 2))
        rng.shuffle(pairs)
        cands += [('list', list(p)) for p in pairs[:4]]
        if len(labs) >= 3:
            cands.append(('list', rng.sample(labs, 3)))
        spairs = [(a, b) for i, a in enumerate(labs) for b in labs[i:]]
        rng.shuffle(spairs)
        cands += [('slice', a, b) for a, b in spairs[:4]]
        if labs:
            cands += [('slice', None, rng.choice(labs)), ('slice', rng.choice(labs), None)]
        per_depth.append(cands)
    total = 1
    for c in per_depth:
        total *= len(c)
    if total <= cap:
        return list(itertools.product(*per_depth)), True
    return [tuple(rng.choice(c) for c in per_depth) for _ in range(cap)], False


def realize_sel(sel):
    if sel == ALL:
        return slice(None)
    if sel[0] == 'label':
        return sel[1]
    if sel[0] == 'list':
        return list(sel[1])
    if sel[0] == 'slice':
        return slice(sel[1], sel[2])
    raise KeyError(sel)


def _norm_positions(res, n):
    if isinstance(res, (int, np.integer)):
        return [int(res)], True
    if isinstance(res, slice):
        return list(range(*res.indices(n))), False
    if isinstance(res, np.ndarray) and res.dtype == bool:
        return [i for i, b in enumerate(res.tolist()) if b], False
    return [int(x) for x in res], False


# --------------------------------------------------------------------------------------
# construction

def _tree_dict(labels):
    depth = len(labels[0])
    if depth == 1:
        return [t[0] for t in labels]
    out = {}
    for t in labels:
        out.setdefault(t[0], []).append(t[1:])
    return {k: _tree_dict(v) for k, v in out.items()}


def build(case, ctx, klass):
    import static_frame as sf
    labels, depth, route = case['labels'], case['depth'], case['route']
    if route == 'from_labels':
        return sf.IndexHierarchy.from_labels(labels), labels
    if route == 'from_labels_go':
        return sf.IndexHierarchyGO.from_labels(labels), labels
    if route == 'from_tree':
        return sf.IndexHierarchy.from_tree(_tree_dict(labels)), labels
    if route == 'from_product':
        pools = []
        for d in range(depth):
            seen = []
            for t in labels:
                if all(cs(t[d]) != cs(s) for s in seen):
                    seen.append(t[d])
            pools.append(seen[:3])
        prod = list(itertools.product(*pools))
        return sf.IndexHierarchy.from_product(*pools), prod
    if route == 'from_index_items':
        if depth != 2:
            return sf.IndexHierarchy.from_labels(labels), labels
        groups = {}
        for t in labels:
            groups.setdefault(t[0], []).append(t[1])
        return sf.IndexHierarchy.from_index_items((k, sf.Index(v)) for k, v in groups.items()), labels
    if route == 'set_index_hierarchy':
        cols = [f'c{d}' for d in range(depth)]
        f = sf.Frame.from_records([tuple(t) + (i,) for i, t in enumerate(labels)], columns=cols + ['v'])
        return f.set_index_hierarchy(cols, drop=True).index, labels
    if route == 'level_add':
        inner = [t[1:] for t in labels if cs(t[0]) == cs(labels[0][0])]
        if depth == 2:
            base = sf.Index([t[0] for t in inner])
        else:
            base = sf.IndexHierarchy.from_labels(inner)
        model = [(labels[0][0],) + tuple(t) for t in inner]
        return base.level_add(labels[0][0]), model
    if route in ('grow', 'grow_product'):
        start = case['start']
        if route == 'grow':
            ih = sf.IndexHierarchyGO.from_labels(start, depth_reference=depth)
        else:
            how = case['start_go']
            if how == 'from_product':
                ih = sf.IndexHierarchyGO.from_product(*case['pools'])
            elif how == 'from_tree':
                ih = sf.IndexHierarchyGO.from_tree(_tree_dict(start))
            elif how == 'from_index_items' and depth == 2:
                groups = {}
                for t in start:
                    groups.setdefault(t[0], []).append(t[1])
                ih = sf.IndexHierarchyGO.from_index_items((k, sf.Index(v)) for k, v in groups.items())
            else:
                ih = sf.IndexHierarchyGO(sf.IndexHierarchy.from_product(*case['pools']))
            ctx.tally('grow_start', how)
        model = list(start)
        for si, step in enumerate(case['steps']):
            op = step[0]
            ctx.tally('grow_step', op)
            if op == 'append':
                ih.append(step[1])
                model.append(step[1])
            elif op == 'extend':
                if not model:
                    for t in step[1]:
                        ih.append(t)
                else:
                    ih.extend(sf.IndexHierarchy.from_labels(step[1]))
                model.extend(step[1])
            else:
                what = step[1]
                if what == 'values':
                    ih.values
                elif what == 'len':
                    len(ih)
                elif what == 'iter':
                    list(ih)
                elif what == 'depth_values' and model:
                    ih.values_at_depth(depth - 1)
                elif what == 'loc' and model:
                    ih.loc_to_iloc(model[0])
                elif what == 'contains' and model:
                    model[-1] in ih
                elif what == 'copy':
                    ih.copy()
            if model and op != 'read' and si % 3 == 2 and not any(isinstance(x, np.datetime64) for t in model for x in t):
                # the first thing asked of the grown hierarchy is a per-depth selection with an open-ended slice at the innermost
                # depth under the parents of the label just added (nothing has re-read the index since the growth)
                last = tuple(model[-1])
                first_inner = next(t[-1] for t in model if tuple(t[:-1]) == last[:-1])
                for inner in (('slice', first_inner, None), ('slice', None, last[-1])):
                    key = tuple(('label', x) for x in last[:-1]) + (inner,)
                    exp = hloc_positions(model, key)
                    ctx.tally('hloc_right_after_growth', 'judged' if exp else 'not_judged')
                    if not exp:
                        continue
                    try:
                        got, _ = _norm_positions(ih.loc_to_iloc(sf.HLoc[tuple(realize_sel(k) for k in key)]), len(model))
                    except Exception as e:
                        ctx.violation('hloc_raised', detail={'key': repr(key), 'exception': type(e).__name__, 'message': str(e)[:200], 'expected': exp},
                                      klass=dict(klass, stage='right_after_growth', exception=type(e).__name__, selectors=['label', 'slice'], has_list=False, has_slice=True))
                        return None, None
                    if got != exp:
                        ctx.violation('hloc_positions', detail={'key': repr(key), 'expected': exp, 'got': got, 'model': repr(model)[:600]},
                                      klass=dict(klass, stage='right_after_growth', selectors=['label', 'slice'], has_list=False, has_slice=True))
                        return None, None
            if model and (op == 'read' and si % 3 == 0 or op != 'read' and si % 3 != 1):
                if not agreement(ctx, ih, model, dict(klass, stage=f'grow_step:{op}')):
                    return None, None
            elif model and op != 'read':
                # a hierarchy derived from the grown one before anything re-reads it: the derived index must describe the grown
                # sequence in every view (cached tables of the source may be stale at this point)
                how = ('static_init', 'go_init', 'rename', 'series_index')[si % 4]
                ctx.tally('derived_after_growth', how)
                try:
                    if how == 'static_init':
                        d = sf.IndexHierarchy(ih)
                    elif how == 'go_init':
                        d = sf.IndexHierarchyGO(ih)
                    elif how == 'rename':
                        d = ih.rename('renamed')
                    else:
                        d = sf.Series(np.arange(len(model)), index=ih).index
                except Exception as e:
                    ctx.violation('agreement:derivation_raised', detail={'how': how, 'exception': type(e).__name__, 'message': str(e)[:200]},
                                  klass=dict(klass, stage='derived_after_growth', derived=how))
                    return None, None
                if not agreement(ctx, d, model, dict(klass, stage='derived_after_growth', derived=how)):
                    return None, None
        return ih, model
    raise KeyError(route)


# --------------------------------------------------------------------------------------

def agreement(ctx, ih, model, klass):
    """all views of the hierarchy describe the model tuple sequence."""
    n, depth = len(model), len(model[0]) if model else ih.depth
    cm = [cs(t) for t in model]
    ok = True

    def bad(what, **d):
        nonlocal ok
        ok = False
        ctx.violation('agreement:' + what, detail=dict(d, model=cm[:16]), klass=dict(klass, view=what))

    def iter_label_views(stage):
        # iter_label reads the level tree while the arrays are not materialised, the arrays afterwards: both describe the model
        for d in range(depth):
            try:
                got = [cs(x) for x in ih.iter_label(d)]
            except Exception as e:
                bad('iter_label_raises', depth=d, stage=stage, exception=type(e).__name__)
                return
            if not canon.seq_eq(got, [cs(t[d]) for t in model], canon.leq):
                bad('iter_label', depth=d, stage=stage, got=got[:16])
                return
        if depth > 1:
            ds = [0, depth - 1]
            got = [cs(tuple(x)) for x in ih.iter_label(ds)]
            if not canon.seq_eq(got, [cs(tuple(t[d] for d in ds)) for t in model], canon.leq):
                bad('iter_label', depth=ds, stage=stage, got=got[:16])

    if n and getattr(ih, '_recache', False):
        ctx.tally('iter_label_stage', 'tree')
        iter_label_views('tree')
        if not ok:
            return False
    if len(ih) != n:
        bad('len', got=len(ih))
        return False
    if n:
        ctx.tally('iter_label_stage', 'arrays')
        iter_label_views('arrays')
    if ih.depth != depth:
        bad('depth', got=ih.depth)
        return False
    it = [cs(tuple(x) if not isinstance(x, tuple) else x) for x in ih]
    if not canon.seq_eq(it, cm, canon.leq):
        bad('iteration', got=it[:16])
    for d in range(depth):
        col = canon.arr_cells(ih.values_at_depth(d))
        if not canon.seq_eq(col, [cs(t[d]) for t in model], canon.leq):
            bad('values_at_depth', depth=d, got=col[:16])
    v2 = ih.values
    if v2.shape != (n, depth):
        bad('values_shape', got=v2.shape)
    else:
        rows = [cs(tuple(r)) for r in v2.tolist()] if v2.dtype != object else [cs(tuple(r)) for r in v2]
        if not canon.seq_eq(rows, cm, _loose_tuple):
            bad('values_2d', got=rows[:16])
    if ok:
        for i, t in enumerate(model):
            key = tuple(t)
            try:
                p = ih.loc_to_iloc(key)
                member = key in ih
            except Exception as e:
                bad('loc_to_iloc_raises', i=i, exception=type(e).__name__)
                break
            if not isinstance(p, (int, np.integer)) or int(p) != i:
                bad('loc_to_iloc', i=i, got=repr(p))
                break
            if not member:
                bad('contains', i=i)
                break
        absent = tuple('QQ' for _ in range(depth))
        try:
            if absent in ih:
                bad('contains_absent')
        except Exception:
            pass
        # the members are exactly the tuples of the sequence: a proper prefix of a label, the empty tuple and a label with one
        # component too many are not
        for t in (model[0], model[-1], model[len(model) // 2]):
            t = tuple(t)
            for key in [t[:k] for k in range(depth)] + [t + ('QQ',), t + (t[-1],)]:
                try:
                    inside = key in ih
                except Exception:
                    continue
                if inside:
                    bad('contains_non_member_key', key=repr(key), key_length=len(key))
                    break
    return ok


def _loose_tuple(g, e):
    """2-D values consolidate the depths into one array: per-element value strength with NumPy's own promotions."""
    if canon.leq(g, e):
        return True
    if g[0] == e[0] == 'tuple' and len(g[1]) == len(e[1]):
        return all(_loose_el(x, y) for x, y in zip(g[1], e[1]))
    return False


def _loose_el(g, e):
    if canon.leq(g, e):
        return True
    if g[0] in ('int', 'float') and e[0] in ('int', 'float'):
        try:
            return float(canon._num(g)) == float(canon._num(e))
        except Exception:
            return False
    if g[0] == 'str' and e[0] in ('int', 'float', 'str'):
        return str(e[1]) == g[1] or repr(e[1]) == g[1]
    return False


def _check_date_leaf(case, ctx):
    import random
    import static_frame as sf
    rng = random.Random(case['sel_seed'])
    outers, days = case['outers'], case['days']
    model = [(o, d) for o in outers for d in days[o]]
    n = len(model)
    klass = {'route': 'date_leaf', 'depth': 2, 'build': case['build']}
    ctx.tally('route', 'date_leaf')
    if case['build'] == 'from_product':
        ih = sf.IndexHierarchy.from_product(outers, sf.IndexDate(days[outers[0]]))
    elif case['build'] == 'from_labels_typed':
        ih = sf.IndexHierarchy.from_labels(model, index_constructors=(sf.Index, sf.IndexDate))
    else:
        ih = sf.IndexHierarchy.from_index_items((o, sf.IndexDate(days[o])) for o in outers)
    ctx.evaluation(('date_leaf', repr(case)), True)
    if not agreement(ctx, ih, model, dict(klass, stage='built')):
        return
    months = sorted({str(d)[:7] for o in outers for d in days[o]})
    absent = '2018-03'
    s = sf.Series(np.arange(n), index=ih)
    for outer in outers + [None]:
        for inner in ([m] for m in months), ([months[0], months[-1]],), ([absent, months[-1]],), (months[-1],), ([str(days[outers[0]][0])],):
            for sel in inner:
                in_sel = (lambda d, sel=sel: any(str(d).startswith(x) for x in (sel if isinstance(sel, list) else [sel])))
                exp = [i for i, (o, d) in enumerate(model) if (outer is None or o == outer) and in_sel(d)]
                if not exp:
                    continue
                key = sf.HLoc[(slice(None) if outer is None else outer), sel]
                k2 = dict(klass, selectors=['all' if outer is None else 'label', 'partial_date_list' if isinstance(sel, list) else 'partial_date'],
                          has_list=isinstance(sel, list), has_slice=False)
                ctx.evaluation(('date_leaf_sel', repr(model), repr(outer), repr(sel)), True)
                try:
                    got, _ = _norm_positions(ih.loc_to_iloc(key), n)
                    vals = s.loc[key]
                    got_vals = [int(vals)] if isinstance(vals, (int, np.integer)) else [int(v) for v in vals.values]
                except Exception as e:
                    ctx.violation('hloc_raised', detail={'key': repr((outer, sel)), 'exception': type(e).__name__, 'message': str(e)[:200], 'expected': exp},
                                  klass=dict(k2, exception=type(e).__name__))
                    return
                if got != exp or got_vals != exp:
                    ctx.violation('hloc_positions', detail={'key': repr((outer, sel)), 'expected': exp, 'got': got, 'series_values': got_vals, 'model': repr(model)[:500]}, klass=k2)
                    return
        # coarser-unit slices at the date depth: from the first label of the start month to the last label of the stop month (inclusive),
        # within the addressed outer group(s); both months hold labels in every addressed group
        groups = outers if outer is None else [outer]
        for a in months:
            for b in months:
                if a > b or not all(any(str(d).startswith(m) for d in days[o]) for o in groups for m in (a, b)):
                    continue
                for form in ('str', 'dt64'):
                    lo, hi = (a, b) if form == 'str' else (np.datetime64(a, 'M'), np.datetime64(b, 'M'))
                    exp = [i for i, (o, d) in enumerate(model) if o in groups and a <= str(d)[:7] <= b]
                    key = sf.HLoc[(slice(None) if outer is None else outer), slice(lo, hi)]
                    k2 = dict(klass, selectors=['all' if outer is None else 'label', 'partial_date_slice'], has_list=False, has_slice=True, bound_form=form)
                    ctx.evaluation(('date_leaf_slice', repr(model), repr(outer), a, b, form), True)
                    ctx.tally('date_leaf_slice', form)
                    try:
                        got, _ = _norm_positions(ih.loc_to_iloc(key), n)
                        vals = s.loc[key]
                        got_vals = [int(vals)] if isinstance(vals, (int, np.integer)) else [int(v) for v in vals.values]
                    except Exception as e:
                        ctx.violation('hloc_raised', detail={'key': repr((outer, a, b, form)), 'exception': type(e).__name__, 'message': str(e)[:200], 'expected': exp},
                                      klass=dict(k2, exception=type(e).__name__))
                        return
                    if got != exp or got_vals != exp:
                        ctx.violation('hloc_positions', detail={'key': repr((outer, a, b, form)), 'expected': exp, 'got': got, 'series_values': got_vals, 'model': repr(model)[:500]}, klass=k2)
                        return


def check(case, ctx):
    import random
    import static_frame as sf
    if case['route'] == 'date_leaf':
        return _check_date_leaf(case, ctx)
    klass = {'route': case['route'], 'depth': case['depth']}
    ctx.tally('route', case['route'])
    ctx.tally('depth', case['depth'])
    ih, model = build(case, ctx, klass)
    if ih is None:
        return
    n = len(model)
    ctx.evaluation(('agreement', repr(case)), n >= 2)
    if not model:
        return
    if not agreement(ctx, ih, model, dict(klass, stage='built')):
        return
    # operations that derive other containers from the hierarchy and are then thrown away: the hierarchy itself must still
    # describe the same tuple sequence in every view (a derivation that re-bases or shares tree nodes would show here)
    ran = []
    for name, fn in (('level_drop_outer', lambda: ih.level_drop(1)), ('level_drop_inner', lambda: ih.level_drop(-1)), ('level_add', lambda: ih.level_add('L')),
                     ('rename', lambda: ih.rename('r')), ('copy', lambda: ih.copy()), ('flat', lambda: ih.flat()), ('reversed', lambda: ih.iloc[::-1]),
                     ('to_frame', lambda: ih.to_frame()), ('series_relabel_level_drop', lambda: sf.Series(np.arange(n), index=ih).relabel_level_drop(1)),
                     ('rehierarch', lambda: ih.rehierarch(tuple(reversed(range(ih.depth)))))):
        if case['sel_seed'] % 3 == 0 and name not in ('level_drop_outer', 'series_relabel_level_drop'):
            continue
        try:
            fn()
            ran.append(name)
        except Exception:
            pass
    ctx.tally('read_only_derivations', len(ran))
    if not agreement(ctx, ih, model, dict(klass, stage='after_read_only_derivations')):
        return
    if any(isinstance(x, np.datetime64) for t in model for x in t):
        ctx.tally('selector_enumeration', 'skipped_datetime_level')
        return
    rng = random.Random(case['sel_seed'])
    space, complete = selector_space(model, rng)
    ctx.tally('selector_enumeration', 'complete' if complete else 'sampled')
    ctx.sample({'route': case['route'], 'depth': case['depth'], 'n': n, 'selectors': len(space), 'first': repr(model[:4])})
    depth = len(model[0])
    s = sf.Series(np.arange(n), index=ih)
    f = sf.Frame(np.arange(n * 2).reshape(n, 2), index=ih, columns=('p', 'q'))
    ft = sf.Frame(np.arange(n * 2).reshape(2, n), index=('p', 'q'), columns=ih)
    budget = 60 if ctx.tier == 'quick' else 400
    if len(space) > budget:
        space = rng.sample(space, budget)
    for key in space:
        _check_selector(ctx, case, ih, model, s, f, ft, key, klass)
    # Boolean masks: whole key and innermost depth
    for _ in range(3):
        mask = [rng.random() < 0.5 for _ in range(n)]
        if not any(mask):
            continue
        _check_mask(ctx, case, ih, model, s, f, mask, None, klass)
        outer = rng.choice([ALL] + [('label', t[0]) for t in model])
        _check_mask(ctx, case, ih, model, s, f, mask, outer, klass)


def _sel_kinds(key):
    return '+'.join('all' if k == ALL else k[0] for k in key)


def _check_selector(ctx, case, ih, model, s, f, ft, key, klass):
    import static_frame as sf
    n = len(model)
    exp = hloc_positions(model, key)
    kinds = _sel_kinds(key)
    for k in key:
        ctx.tally('selector_kind', 'all' if k == ALL else k[0])
    if exp is None:
        ctx.tally('not_judged', 'slice_bound_missing_under_a_parent')
        return
    if not exp:
        ctx.tally('not_judged', 'selector_matches_nothing')
        return
    full_tuple = all(k != ALL and k[0] == 'label' for k in key)
    ctx.evaluation(('hloc', repr(model), case['route'], repr(key)), n >= 3 and (len(exp) < n or exp != sorted(exp)))
    k2 = dict(klass, selectors=kinds, has_list='list' in kinds, has_slice='slice' in kinds)
    hkey = sf.HLoc[tuple(realize_sel(k) for k in key)]
    try:
        res = ih.loc_to_iloc(hkey)
    except Exception as e:
        ctx.violation('hloc_raised', detail={'key': repr(key), 'exception': type(e).__name__, 'message': str(e)[:200], 'expected': exp, 'model': repr(model)[:400]},
                      klass=dict(k2, exception=type(e).__name__))
        return
    got, single = _norm_positions(res, n)
    if got != exp:
        ctx.violation('hloc_positions', detail={'key': repr(key), 'expected': exp, 'got': got, 'model': repr(model)[:600]}, klass=k2)
        return
    if full_tuple and not single and len(exp) == 1:
        ctx.tally('full_tuple_not_reduced', 1)
    # containers: rows selected by the same key
    exp_labels = tuple(cs(model[p]) for p in exp)
    if len(exp) != len(set(exp)) or not K.is_tree([model[p] for p in exp]):
        return
    try:
        rs = s.loc[hkey]
        rf = f.loc[hkey]
        rc = ft.loc[:, hkey]
    except Exception as e:
        ctx.violation('hloc_container_raised', detail={'key': repr(key), 'exception': type(e).__name__, 'message': str(e)[:200]}, klass=dict(k2, exception=type(e).__name__))
        return
    if single and isinstance(rs, (int, np.integer)):
        if int(rs) != exp[0]:
            ctx.violation('hloc_series_element', detail={'key': repr(key), 'expected': exp[0], 'got': int(rs)}, klass=k2)
        return
    for name, cont, vals in (('series', rs, lambda c: c.values.tolist()), ('frame_rows', rf, lambda c: c.values[:, 0].tolist() if c.ndim == 2 else [int(c.values[0])]),
                             ('frame_columns', rc, lambda c: c.values[0].tolist() if c.ndim == 2 else [int(c.values[0])])):
        try:
            if name == 'frame_columns' and cont.ndim == 2:
                labs = tuple(cs(x) for x in canon.index_labels(cont.columns))
                got_vals = vals(cont)
                exp_vals = [p for p in exp]
            elif cont.ndim == 2:
                labs = tuple(cs(x) for x in canon.index_labels(cont.index))
                got_vals = vals(cont)
                exp_vals = [p * 2 for p in exp]
            elif name == 'series':
                labs = tuple(cs(x) for x in canon.index_labels(cont.index))
                got_vals = vals(cont)
                exp_vals = list(exp)
            else:
                continue  # a single row/column reduced to a Series labelled by the other axis
        except Exception as e:
            ctx.violation('hloc_container_shape', detail={'key': repr(key), 'container': name, 'exception': type(e).__name__}, klass=k2)
            return
        if not canon.seq_eq(list(labs), list(exp_labels), canon.leq) or got_vals != exp_vals:
            ctx.violation('hloc_container_rows', detail={'key': repr(key), 'container': name, 'expected_labels': exp_labels, 'got_labels': labs,
                                                         'expected_values': exp_vals, 'got_values': got_vals}, klass=dict(k2, container=name))
            return


def _check_mask(ctx, case, ih, model, s, f, mask, outer, klass):
    import static_frame as sf
    n = len(model)
    depth = len(model[0])
    arr = np.array(mask, dtype=bool)
    if outer is None:
        ctx.tally('selector_kind', 'mask_whole')
        exp = [i for i, b in enumerate(mask) if b]
        key = arr
        k2 = dict(klass, selectors='mask_whole')
    else:
        ctx.tally('selector_kind', 'mask_leaf')
        sel = [outer] + [ALL] * (depth - 2)
        pos = hloc_positions(model, sel)
        exp = [p for p in pos if mask[p]]
        if not exp:
            return
        key = sf.HLoc[tuple([realize_sel(k) for k in sel] + [arr])]
        k2 = dict(klass, selectors='mask_leaf', outer='all' if outer == ALL else 'label')
    ctx.evaluation(('mask', repr(model), repr(mask), repr(outer)), n >= 3 and len(exp) < n)
    try:
        res = ih.loc_to_iloc(key)
    except Exception as e:
        ctx.violation('hloc_raised', detail={'mask': mask, 'outer': repr(outer), 'exception': type(e).__name__, 'message': str(e)[:200]},
                      klass=dict(k2, exception=type(e).__name__))
        return
    got, _ = _norm_positions(res, n)
    if got != exp:
        ctx.violation('hloc_positions', detail={'mask': mask, 'outer': repr(outer), 'expected': exp, 'got': got, 'model': repr(model)[:600]}, klass=k2)
        return
    if K.is_tree([model[p] for p in exp]):
        try:
            rs = s.loc[key]
        except Exception as e:
            ctx.violation('hloc_container_raised', detail={'exception': type(e).__name__, 'message': str(e)[:200]}, klass=dict(k2, exception=type(e).__name__))
            return
        got_vals = rs.values.tolist() if hasattr(rs, 'values') else [int(rs)]
        if got_vals != exp:
            ctx.violation('hloc_container_rows', detail={'expected_values': exp, 'got_values': got_vals}, klass=dict(k2, container='series'))
