"""C04 — selection exactness: every key on every route returns exactly the addressed
positions, in key order, with their labels; absent labels raise; scalar keys reduce."""
import numpy as np

from sfmon import canon
from sfmon.canon import cs, veq
from sfmon.gen import frames as F
from sfmon.gen import keys as K
from sfmon.gen import values as V

PROPERTY = 'C04'
RULE = ('cases = (FrameSpec|SeriesSpec, block layout, route in iloc/loc/getitem/bloc, key descriptor per axis) from seeded '
        'generators plus, for axes of length <= 3, every int and every slice over start/stop in [-n-1, n+1] x step in '
        '{None,+-1,+-2,+-3}; a case is non-trivial when the keyed axis has >= 2 positions and the key selects a proper, '
        'non-empty subset, reorders, reduces, or must raise; distinct = hash of (spec, layout, route, keys)')
EXPLANATION = 'thorough: complete int/slice enumeration for every axis length 0..4 on Series and both Frame axes'
EXHAUSTIVE = {'quick': False, 'thorough': False}
ASSUMPTIONS = ['reference model: Python list indexing / dict label lookup written from the statement',
               'row Series cells compared at value strength modulo NumPy numeric promotion (exactness is C07)']
TIERS = {'quick': {'shards': 8, 'budget_s': 120, 'min_nontrivial': 5000},
         'thorough': {'shards': 16, 'budget_s': 1200, 'min_nontrivial': 50000}}
HOOKS = ('index',)
ANCHORS = {
    'static_frame.core.frame': ['Frame._extract', 'Frame._compound_loc_to_iloc', 'Frame._extract_bloc'],
    'static_frame.core.series': ['Series._extract_iloc', 'Series._extract_loc'],
    'static_frame.core.index': ['LocMap.map_slice_args', 'LocMap.loc_to_iloc', 'Index._loc_to_iloc'],
    'static_frame.core.index_datetime': ['IndexDatetime._loc_to_iloc'],
    'static_frame.core.type_blocks': ['TypeBlocks._slice_blocks', 'TypeBlocks._extract', 'TypeBlocks._key_to_block_slices',
                                      'TypeBlocks.extract_bloc'],
    'static_frame.core.util': ['slice_to_inclusive_slice', 'key_to_datetime_key'],
    'static_frame.core.container_util': ['key_from_container_key'],
}
REQUIRED_ANCHORS = ['frame.Frame._extract', 'series.Series._extract_iloc', 'index.LocMap.map_slice_args',
                    'type_blocks.TypeBlocks._slice_blocks', 'index_datetime.IndexDatetime._loc_to_iloc']

_DTYPES = ['bool', 'int64', 'float64', '<U5', 'object', 'M8[D]', 'int8', 'float32', 'complex128']
_ROW_KINDS = ['auto', 'int', 'str', 'negint', 'IndexDate', 'hier2', 'mixed', 'float', 'IndexYearMonth', 'IndexSecond', 'tuple', 'range']
_COL_KINDS = ['str', 'int', 'auto', 'hier2', 'negint', 'mixed', 'IndexDate']
_HIER_OK = ('label', 'labels', 'bools', 'iloc', 'null')


TECHNIQUE = 'runtime monitoring: reference-model oracle (list model of label -> position resolution) over enumerated and sampled key descriptors for loc / iloc / [] / bloc, follow-up lookups on results, grown grow-only axes; Index hook invariant'


def _label_key(labels, kind, rng):
    if kind == 'hier2' and labels and rng.random() < 0.15:
        return K.gen_boolseries_ih(labels, rng)
    for _ in range(50):
        d = K.gen_label(labels, kind, rng)
        if kind.startswith('hier') and d[0] not in _HIER_OK:
            continue
        if d[0] == 'lslice' and d[3] is not None and d[3] < 0 and kind in ('IndexDate', 'IndexYearMonth', 'IndexSecond'):
            continue
        return d
    return ('null',)


def probes(ctx):
    from sfmon.gen.frames import SeriesSpec, FrameSpec
    return [{'kind': 'series', 'spec': SeriesSpec([0, 1, 2, 3], 'auto', 'int64', [10, 11, 12, 13], None),
             'route': 'loc', 'key': ('label', -1)},
            {'kind': 'series', 'spec': SeriesSpec(['a', 'b', 'c', 'd', 'e'], 'str', 'int64', [10, 11, 12, 13, 14], None),
             'route': 'loc', 'key': ('lslice', 'd', 'b', -1)},
            # a Boolean Series key over a product hierarchy (one leaf Index shared by the outer labels) that differs
            # from the axis only under the first outer label: alignment must still go by label
            {'kind': 'series', 'spec': SeriesSpec([('a', 2), ('a', 3), ('b', 1), ('b', 2)], 'hier2', 'int64', [10, 11, 12, 13], None),
             'route': 'loc', 'key': ('boolseries_ih', [(('a', 1), True), (('a', 2), False), (('b', 1), False), (('b', 2), True)],
                                     'product', (('a', 'b'), (1, 2)))},
            # one 2-D block, a list key that is not a run although its ends are n-1 apart
            {'kind': 'frame', 'spec': FrameSpec(['w', 'x', 'y'], ['a', 'b', 'c', 'd', 'e'], 'str', 'str', ['int64'] * 5,
                                                 [[r * 5 + c for c in range(5)] for r in range(3)], None),
             'layout': [(0, 5, True)], 'route': 'iloc', 'rowkey': ('null',), 'colkey': ('list', [0, 3, 2])},
            {'kind': 'frame', 'spec': FrameSpec(['w', 'x', 'y'], ['a', 'b', 'c', 'd', 'e'], 'str', 'str', ['int64'] * 5,
                                                 [[r * 5 + c for c in range(5)] for r in range(3)], None),
             'layout': [(0, 5, True)], 'route': 'loc', 'rowkey': ('label', 'x'), 'colkey': ('labels', ['b', 'a', 'd', 'e'])}]


def generate(ctx):
    rng = ctx.rng
    # (1) enumerated positional keys on small axes
    max_n = 3 if ctx.tier == 'quick' else 4
    enum_cases = []
    for n in range(0, max_n + 1):
        for d in K.all_positional(n):
            enum_cases.append((n, d))
    share = enum_cases[ctx.shard::ctx.nshards]
    if ctx.tier == 'quick':
        share = rng.sample(share, min(len(share), 400))
    for n, d in share:
        which = rng.choice(['series', 'frame_rows', 'frame_cols'])
        if which == 'series':
            spec = F.random_series_spec(rng, max_n=n, min_n=n, kinds=['auto', 'str', 'int', 'IndexDate'], dtypes=_DTYPES)
            if len(spec.labels) != n:
                continue
            yield {'kind': 'series', 'spec': spec, 'route': 'iloc', 'key': d}
        else:
            if which == 'frame_rows':
                spec = F.random_spec(rng, max_rows=n, min_rows=n, max_cols=4, min_cols=1, dtypes=_DTYPES)
                if spec.shape[0] != n:
                    continue
                rk, ck = d, K.gen_positional(spec.shape[1], rng)
            else:
                spec = F.random_spec(rng, max_rows=3, min_rows=1, max_cols=n, min_cols=n, dtypes=_DTYPES)
                if spec.shape[1] != n:
                    continue
                rk, ck = K.gen_positional(spec.shape[0], rng), d
            lay = rng.choice(F.layouts(spec.dtypes))
            yield {'kind': 'frame', 'spec': spec, 'layout': lay, 'route': 'iloc', 'rowkey': rk, 'colkey': ck}
    # (2) sampled
    for _ in range(ctx.n(40000, 600000)):
        r = rng.random()
        if r < 0.3:
            spec = F.random_series_spec(rng, max_n=9, kinds=_ROW_KINDS, dtypes=_DTYPES)
            route = rng.choice(['iloc', 'loc', 'loc', 'getitem'])
            key = K.gen_positional(len(spec.labels), rng) if route == 'iloc' else _label_key(spec.labels, spec.kind, rng)
            yield {'kind': 'series', 'spec': spec, 'route': route, 'key': key}
        elif r < 0.93:
            spec = F.random_spec(rng, max_rows=6, max_cols=6, dtypes=_DTYPES, row_kinds=_ROW_KINDS, col_kinds=_COL_KINDS, homog_p=0.15)
            lays = F.layouts(spec.dtypes)
            lay = rng.choice(lays)
            if rng.random() < 0.3:
                lay = min(lays, key=len)  # the coarsest layout (one block when the dtypes allow): fast paths keyed on few blocks
            route = rng.choice(['iloc', 'loc', 'loc', 'getitem'])
            nr, nc = spec.shape
            if route == 'iloc':
                rk, ck = K.gen_positional(nr, rng), K.gen_positional(nc, rng)
                if rng.random() < 0.15:
                    ck = None  # single-axis form f.iloc[rk]
            elif route == 'loc':
                rk, ck = _label_key(spec.rows, spec.row_kind, rng), _label_key(spec.cols, spec.col_kind, rng)
                if rng.random() < 0.15:
                    ck = None
            else:
                rk, ck = None, _label_key(spec.cols, spec.col_kind, rng)
                if ck[0] in ('boolseries', 'boolseries_ih', 'iloc'):
                    ck = ('null',)
            yield {'kind': 'frame', 'spec': spec, 'layout': lay, 'route': route, 'rowkey': rk, 'colkey': ck}
        elif r < 0.96:
            # a grow-only axis that has just grown (caches not yet refreshed), then one selection
            ik = rng.choice(['IndexDate', 'IndexDate', 'IndexSecond', 'IndexYearMonth', 'str', 'int', 'auto'])
            n = rng.randint(2, 8)
            from sfmon.gen import labels as L_
            labels = L_.flat_labels(ik, n, rng)
            n0 = rng.randint(0, len(labels) - 1)
            for _ in range(40):
                key = _label_key(labels, ik, rng)
                if key[0] in ('iloc', 'boolseries', 'boolseries_ih', 'serieskey', 'indexkey') or (key[0] == 'labelarray' and not key[1]):
                    continue
                if key[0] == 'lslice' and key[3] is not None and key[3] < 0:
                    continue  # descending label slices: known finding, exercised on static containers
                break
            else:
                key = ('null',)
            yield {'kind': 'grown', 'index_kind': ik, 'labels': labels, 'n0': n0, 'key': key, 'container': rng.choice(['framego_columns', 'indexgo', 'series_from_go']),
                   'materialise_before_growth': rng.random() < 0.6}
        else:
            spec = F.random_spec(rng, max_rows=4, max_cols=5, min_rows=1, min_cols=1, dtypes=_DTYPES,
                                 row_kinds=['auto', 'str', 'int'], col_kinds=['str', 'int'])
            lay = rng.choice(F.layouts(spec.dtypes))
            mask = [[rng.random() < 0.4 for _ in range(spec.shape[1])] for _ in range(spec.shape[0])]
            yield {'kind': 'bloc', 'spec': spec, 'layout': lay, 'mask': mask, 'permute': rng.random() < 0.5,
                   'permute_cols': rng.choice([None, None, 'reversed', 'rotated'])}


# --------------------------------------------------------------------------------------

def _nontrivial(n, res):
    if res.error:
        return True
    if res.positions is None:
        return False
    p = res.positions
    return n >= 2 and (res.reduce or (0 < len(p) < n) or p != sorted(p) or p != list(range(n)))


def _numeric_loose(e, g):
    """row-consolidated cell: equal at value strength; or numerically equal after the float
    promotion NumPy applies to int/float rows (big-int exactness is judged by C07); or a
    datetime64/timedelta64 presented as the equal datetime.date/datetime/timedelta object
    that NumPy's object conversion produces."""
    if veq(e, g):
        return True
    if e[0] in ('int', 'float', 'complex') and g[0] in ('int', 'float', 'complex'):
        try:
            x, y = canon._num(e), canon._num(g)
            return complex(x) == complex(y) or (x != x and y != y)
        except Exception:
            return False
    if e[0] in ('dt64', 'td64') and e[2] == canon.NAT and g[0] == 'None':
        return True  # NumPy's object conversion presents NaT as None: still the missing marker
    if e[0] == 'dt64' and g[0] in ('date', 'datetime') and e[2] != canon.NAT:
        try:
            return bool(np.datetime64(g[1]) == np.array(e[2], dtype=f'M8[{e[1]}]'))
        except Exception:
            return False
    return False


def _klass(case, rres=None, cres=None, extra=None):
    k = {'kind': case['kind'], 'route': case.get('route')}
    spec = case['spec']
    if case['kind'] == 'frame':
        k.update(row_kind=spec.row_kind, col_kind=spec.col_kind,
                 rowkey=case['rowkey'][0] if case['rowkey'] else None,
                 colkey=case['colkey'][0] if case['colkey'] else None)
        if rres is not None and rres.positions is not None:
            k['rows_selected'] = len(rres.positions)
        if cres is not None and cres.positions is not None:
            k['cols_selected'] = len(cres.positions)
        if case['rowkey'] and case['rowkey'][0] == 'iloc':
            k['rowkey_inner'] = case['rowkey'][1][0]
        if case['colkey'] and case['colkey'][0] == 'iloc':
            k['colkey_inner'] = case['colkey'][1][0]
    elif case['kind'] == 'series':
        k.update(row_kind=spec.kind, rowkey=case['key'][0])
        if case['key'][0] == 'iloc':
            k['rowkey_inner'] = case['key'][1][0]
    for axis, key, labels in _axes(case):
        if key is None:
            continue
        k[f'{axis}_key_empty'] = key[0] in ('labels', 'labelarray', 'indexkey', 'serieskey', 'dtlabels') and len(key[1]) == 0
        if key[0] == 'lslice':
            k[f'{axis}_step_negative'] = key[3] is not None and key[3] < 0
        if key[0] in ('label', 'labels', 'lslice') and labels is not None:
            k[f'{axis}_negative_int_label'] = _has_negative_int(key)
        if key[0] in ('boolseries', 'boolseries_ih'):
            k[f'{axis}_bool_labels'] = any(isinstance(l, (bool, np.bool_)) for l, _ in key[1])
    if extra:
        k.update(extra)
    return k


def _has_negative_int(key):
    vals = [key[1]] if key[0] == 'label' else (list(key[1]) if key[0] == 'labels' else [key[1], key[2]])
    return any(isinstance(v, (int, np.integer)) and not isinstance(v, (bool, np.bool_)) and v < 0 for v in vals)


def _axes(case):
    spec = case['spec']
    if case['kind'] == 'series':
        yield 'row', case['key'], spec.labels
    elif case['kind'] == 'frame':
        yield 'row', case['rowkey'], spec.rows
        yield 'col', case['colkey'], spec.cols


def _resolve(route, n, labels, desc):
    if desc is None:
        return K.Resolved(list(range(n)))
    if route == 'iloc':
        return K.resolve_positional(n, desc)
    return K.resolve_label(labels, desc)


def check(case, ctx):
    if case['kind'] == 'series':
        return _check_series(case, ctx)
    if case['kind'] == 'frame':
        return _check_frame(case, ctx)
    if case['kind'] == 'grown':
        return _check_grown(case, ctx)
    return _check_bloc(case, ctx)


def _call(fn):
    try:
        return fn(), None
    except Exception as e:  # the outcome is judged by the caller
        return None, e


def _judge_error(ctx, case, res_list, out, exc, klass, label_lists=None):
    """Common handling of the expected-error / unexpected-error outcomes.  Returns True
    when the case is fully judged."""
    want_error = any(r.error for r in res_list)
    if want_error:
        if exc is None:
            ctx.violation('absent_or_out_of_range_key_returned_data',
                          detail={'errors': [r.error for r in res_list], 'got': canon.brief(canon.snap(out))}, klass=klass)
        else:
            ctx.tally('expected_errors', type(exc).__name__)
        return True
    if any(not r.judged for r in res_list):
        ctx.tally('not_judged', 'coarse_datetime_key_matching_nothing')
        return True
    repeated = any(len(set(r.positions)) < len(r.positions) for r in res_list)
    if not repeated:
        for r, labels in zip(res_list, label_lists or ()):
            if labels and isinstance(labels[0], tuple) and not r.reduce and klass.get('hier_axes'):
                sel = [labels[p] for p in r.positions]
                if not K.is_tree(sel):
                    repeated = True  # a non-tree label order must be rejected like duplicates
                    ctx.tally('expected_errors', 'non_tree_order')
    if repeated:
        import static_frame as sf
        if exc is None:
            ctx.violation('repeated_positions_produced_an_index', detail={'got': canon.brief(canon.snap(out))}, klass=klass)
        elif not isinstance(exc, sf.ErrorInitIndex):
            ctx.violation('repeated_positions_wrong_error', detail={'exception': type(exc).__name__, 'message': str(exc)[:200]},
                          klass=dict(klass, exception=type(exc).__name__))
        else:
            ctx.tally('expected_errors', 'ErrorInitIndex(repeat)')
        return True
    if exc is not None:
        ctx.violation('valid_key_raised', detail={'exception': type(exc).__name__, 'message': str(exc)[:300]},
                      klass=dict(klass, exception=type(exc).__name__))
        return True
    return False


def _check_series(case, ctx):
    spec, route, desc = case['spec'], case['route'], case['key']
    s = F.build_series(spec)
    n = len(spec.labels)
    res = _resolve(route, n, spec.labels, desc)
    ctx.evaluation(('series', repr(spec), route, desc), _nontrivial(n, res))
    ctx.tally('route', f'series.{route}')
    ctx.tally('keykind', desc[0])
    ctx.tally('index_kind', spec.kind)
    ctx.sample({'series': spec.brief(), 'route': route, 'key': repr(desc)})
    key = K.realize(desc)
    if route == 'iloc':
        out, exc = _call(lambda: s.iloc[key])
    elif route == 'loc':
        out, exc = _call(lambda: s.loc[key])
    else:
        out, exc = _call(lambda: s[key])
    klass = _klass(case)
    klass['row_error'], klass['col_error'] = res.error, None
    klass['hier_axes'] = spec.kind.startswith('hier')
    if _judge_error(ctx, case, [res], out, exc, klass, [spec.labels if spec.kind.startswith('hier') else None]):
        return
    got = canon.snap(out)
    if res.reduce:
        exp = cs(spec.values[res.positions[0]])
        if got['k'] != 'element' or got['v'] != exp:
            ctx.violation('series_element_mismatch', detail={'expected': exp, 'got': canon.brief(got)}, klass=klass)
        return
    exp_labels = tuple(cs(spec.labels[p]) for p in res.positions)
    exp_values = tuple(cs(spec.values[p]) for p in res.positions)
    ok = (got['k'] == 'Series' and got['index']['labels'] == exp_labels and got['values'] == exp_values
          and got['name'] == cs(spec.name) and got['dtype'] == str(V.to_array(spec.values, spec.dtype).dtype))
    if not ok:
        ctx.violation('series_selection_mismatch', detail={'expected_labels': exp_labels, 'expected_values': exp_values,
                                                            'got': canon.brief(got, 900)}, klass=klass)
        return
    _followup_series(ctx, out, [spec.labels[p] for p in res.positions], [spec.values[p] for p in res.positions], klass)


def _check_frame(case, ctx):
    spec, lay, route = case['spec'], case['layout'], case['route']
    f = F.build_frame(spec, lay)
    nr, nc = spec.shape
    rk, ck = case['rowkey'], case['colkey']
    rres = _resolve(route, nr, spec.rows, rk)
    cres = _resolve(route, nc, spec.cols, ck)
    ctx.evaluation(('frame', repr(spec), repr(lay), route, rk, ck), _nontrivial(nr, rres) or _nontrivial(nc, cres))
    ctx.tally('route', f'frame.{route}')
    ctx.tally('keykind', (rk or ('none',))[0] + ' x ' + (ck or ('none',))[0])
    ctx.tally('index_kind', f'{spec.row_kind}/{spec.col_kind}')
    ctx.tally('layout_blocks', len(lay))
    ctx.sample({'frame': spec.brief(), 'layout': F.layout_name(lay), 'route': route, 'rowkey': repr(rk), 'colkey': repr(ck)})
    if route == 'iloc':
        key = (K.realize(rk), K.realize(ck)) if ck is not None else K.realize(rk)
        out, exc = _call(lambda: f.iloc[key])
    elif route == 'loc':
        key = (K.realize(rk), K.realize(ck)) if ck is not None else K.realize(rk)
        if ck is None and isinstance(key, tuple):
            key = (key, slice(None))  # a bare tuple would be read as (row key, column key)
        out, exc = _call(lambda: f.loc[key])
    else:
        key = K.realize(ck)
        out, exc = _call(lambda: f[key])
    klass = _klass(case, rres, cres)
    klass['row_error'], klass['col_error'] = rres.error, cres.error
    klass['hier_axes'] = spec.row_kind.startswith('hier') or spec.col_kind.startswith('hier')
    if _judge_error(ctx, case, [rres, cres], out, exc, klass,
                    [spec.rows if spec.row_kind.startswith('hier') else None, spec.cols if spec.col_kind.startswith('hier') else None]):
        return
    got = canon.snap(out)
    R, C = rres.positions, cres.positions
    if rres.reduce and cres.reduce:
        exp = cs(spec.cells[R[0]][C[0]])
        if got['k'] != 'element' or got['v'] != exp:
            ctx.violation('frame_element_mismatch', detail={'expected': exp, 'got': canon.brief(got)}, klass=klass)
        return
    if rres.reduce:
        exp_labels = tuple(cs(spec.cols[c]) for c in C)
        exp_values = [cs(spec.cells[R[0]][c]) for c in C]
        ok = (got['k'] == 'Series' and got['index']['labels'] == exp_labels and got['name'] == cs(spec.rows[R[0]])
              and len(got['values']) == len(exp_values)
              and all(_numeric_loose(e, g) for e, g in zip(exp_values, got['values'])))
        if not ok:
            ctx.violation('frame_row_series_mismatch', detail={'expected_labels': exp_labels, 'expected_values': exp_values,
                                                                'expected_name': cs(spec.rows[R[0]]), 'got': canon.brief(got, 900)}, klass=klass)
        return
    if cres.reduce:
        c = C[0]
        exp_labels = tuple(cs(spec.rows[r]) for r in R)
        exp_values = tuple(cs(spec.cells[r][c]) for r in R)
        ok = (got['k'] == 'Series' and got['index']['labels'] == exp_labels and got['values'] == exp_values
              and got['name'] == cs(spec.cols[c]) and got['dtype'] == str(spec.col_array(c).dtype))
        if not ok:
            ctx.violation('frame_column_series_mismatch', detail={'expected_labels': exp_labels, 'expected_values': exp_values,
                                                                   'expected_name': cs(spec.cols[c]), 'got': canon.brief(got, 900)}, klass=klass)
        return
    exp_index = tuple(cs(spec.rows[r]) for r in R)
    exp_columns = tuple(cs(spec.cols[c]) for c in C)
    exp_cols = tuple(tuple(cs(spec.cells[r][c]) for r in R) for c in C)
    exp_dtypes = tuple(str(spec.col_array(c).dtype) for c in C)
    ok = (got['k'] == 'Frame' and got['index']['labels'] == exp_index and got['columns']['labels'] == exp_columns
          and got['cols'] == exp_cols and got['dtypes'] == exp_dtypes and got['name'] == cs(spec.name)
          and got['shape'] == (len(R), len(C)))
    if not ok:
        ctx.violation('frame_selection_mismatch', detail={'expected_index': exp_index, 'expected_columns': exp_columns,
                                                          'expected_cols': exp_cols, 'expected_dtypes': exp_dtypes,
                                                          'got': canon.brief(got, 1200)}, klass=klass)
        return
    _followup_frame(ctx, out, [spec.rows[r] for r in R], [spec.cols[c] for c in C], [[spec.cells[r][c] for c in C] for r in R], klass)


def _check_grown(case, ctx):
    import static_frame as sf
    from sfmon.gen import labels as L_
    ik, labels, n0, desc = case['index_kind'], case['labels'], case['n0'], case['key']
    n = len(labels)
    ctx.tally('route', 'grown.' + case['container'])
    ctx.tally('index_kind', 'grown:' + ik)
    res = K.resolve_label(labels, desc)
    ctx.evaluation(('grown', repr(case)), n >= 2)
    klass = {'kind': 'grown', 'row_kind': ik, 'rowkey': desc[0], 'container': case['container'], 'row_error': res.error, 'col_error': None,
             'row_step_negative': desc[0] == 'lslice' and desc[3] is not None and desc[3] < 0,
             'row_negative_int_label': desc[0] in ('label', 'labels', 'lslice') and _has_negative_int(desc)}
    if ik == 'auto':
        go = sf.FrameGO(np.arange(n0).reshape(1, n0)).columns if n0 else sf.FrameGO(index=(0,)).columns
    else:
        go = L_.build_index(ik, labels[:n0], go=True)
    if case['materialise_before_growth']:
        go.values, len(go), go.positions
    key = K.realize(desc)
    if case['container'] == 'framego_columns':
        f = sf.FrameGO(np.arange(n0).reshape(1, n0), columns=go) if n0 else sf.FrameGO(index=(0,), columns=go)
        if case['materialise_before_growth']:
            f.columns.values
        for i in range(n0, n):
            f[labels[i]] = np.array([i])
        out, exc = _call(lambda: f[key])
        read = (lambda o: [int(x) for x in (o.values.reshape(-1))]) if True else None
    else:
        for i in range(n0, n):
            go.append(labels[i])
        if case['container'] == 'indexgo':
            out, exc = _call(lambda: go.loc_to_iloc(key))
        else:
            s = sf.Series(np.arange(n), index=go)
            out, exc = _call(lambda: s.loc[key])
    if res.error:
        if exc is None and not (ik == 'auto'):
            ctx.violation('absent_or_out_of_range_key_returned_data', detail={'errors': [res.error], 'got': canon.brief(out)}, klass=klass)
        return
    if not res.judged:
        return
    if exc is not None:
        ctx.violation('valid_key_raised', detail={'exception': type(exc).__name__, 'message': str(exc)[:300]}, klass=dict(klass, exception=type(exc).__name__))
        return
    exp = list(res.positions)
    if case['container'] == 'indexgo':
        if isinstance(out, slice):
            got = list(range(*out.indices(n)))
        elif isinstance(out, (int, np.integer)):
            got = [int(out)]
        elif isinstance(out, np.ndarray) and out.dtype == bool:
            got = [i for i, b in enumerate(out.tolist()) if b]
        else:
            got = [int(x) for x in out]
    elif isinstance(out, (sf.Series, sf.Frame)):
        got = [int(x) for x in np.asarray(out.values).reshape(-1)]
    else:
        got = [int(out)]
    if got != exp:
        ctx.violation('grown_axis_selection_mismatch', detail={'expected_positions': exp, 'got_positions': got, 'labels': repr(labels)[:400], 'key': repr(desc)},
                      klass=klass)


def _followup_series(ctx, out, labels, values, klass):
    """a selection result is itself a container: label lookups on it must address its own labels (multi-step sequence)."""
    if not labels or any(isinstance(l, tuple) for l in labels):
        return
    ctx.tally('followup', 'series')
    for i in sorted({0, len(labels) // 2, len(labels) - 1}):
        lab = labels[i]
        try:
            e = out.loc[lab]
        except Exception as ex:
            ctx.violation('followup_lookup_raised', detail={'label': repr(lab), 'exception': type(ex).__name__, 'labels': repr(labels)[:300]},
                          klass=dict(klass, followup=True, exception=type(ex).__name__))
            return
        if cs(e) != cs(values[i]):
            ctx.violation('followup_lookup_mismatch', detail={'label': repr(lab), 'expected': cs(values[i]), 'got': cs(e), 'labels': repr(labels)[:300]},
                          klass=dict(klass, followup=True))
            return
    # an absent label must still be absent from the result
    for absent in (987654, 'absent-label'):
        if all(cs(absent) != cs(l) for l in labels):
            try:
                present = absent in out.index
            except Exception:
                present = False
            if present:
                ctx.violation('followup_absent_label_present', detail={'label': repr(absent)}, klass=dict(klass, followup=True))
                return


def _followup_frame(ctx, out, rows, cols, cells, klass):
    if not rows or not cols or any(isinstance(l, tuple) for l in rows) or any(isinstance(l, tuple) for l in cols):
        return
    ctx.tally('followup', 'frame')
    for i in sorted({0, len(rows) - 1}):
        for j in sorted({0, len(cols) - 1}):
            try:
                e = out.loc[rows[i], cols[j]]
            except Exception as ex:
                ctx.violation('followup_lookup_raised', detail={'label': repr((rows[i], cols[j])), 'exception': type(ex).__name__},
                              klass=dict(klass, followup=True, exception=type(ex).__name__))
                return
            if cs(e) != cs(cells[i][j]):
                ctx.violation('followup_lookup_mismatch', detail={'label': repr((rows[i], cols[j])), 'expected': cs(cells[i][j]), 'got': cs(e)},
                              klass=dict(klass, followup=True))
                return


def _check_bloc(case, ctx):
    import static_frame as sf
    spec, lay, mask = case['spec'], case['layout'], case['mask']
    f = F.build_frame(spec, lay)
    nr, nc = spec.shape
    rows, cols = list(spec.rows), list(spec.cols)
    m = sf.Frame(np.array(mask, dtype=bool).reshape(nr, nc), index=rows, columns=cols)
    if case['permute'] and nr > 1:
        m = m.iloc[::-1]
    pc = case.get('permute_cols')
    if pc == 'reversed' and nc > 1:
        m = m.iloc[:, ::-1]   # same shape, same row labels, columns in another order: still aligned by label
    elif pc == 'rotated' and nc > 1:
        m = m.iloc[:, list(range(1, nc)) + [0]]
    n_true = sum(sum(r) for r in mask)
    ctx.evaluation(('bloc', repr(spec), repr(lay), repr(mask), case['permute']), 0 < n_true < nr * nc)
    ctx.tally('route', 'frame.bloc')
    out, exc = _call(lambda: f.bloc[m])
    klass = {'kind': 'bloc', 'permute': case['permute'], 'permute_cols': pc}
    if exc is not None:
        ctx.violation('valid_key_raised', detail={'exception': type(exc).__name__, 'message': str(exc)[:300]},
                      klass=dict(klass, exception=type(exc).__name__))
        return
    exp = {(cs(rows[r]), cs(cols[c])): cs(spec.cells[r][c]) for r in range(nr) for c in range(nc) if mask[r][c]}
    got = {}
    for lab, v in zip(canon.index_labels(out.index), canon.arr_values(out.values)):
        got[(cs(lab[0]), cs(lab[1]))] = cs(v)
    ok = len(got) == len(out) and set(got) == set(exp) and all(_numeric_loose(exp[k], got[k]) for k in exp)
    if not ok:
        ctx.violation('bloc_mismatch', detail={'expected': exp, 'got': got}, klass=klass)
