"""C02 — every index holds pairwise distinct labels and is an exact label<->position
bijection, through every construction / derivation route and grow-only history."""
import copy
import pickle

import numpy as np

from sfmon import canon
from sfmon.canon import cs
from sfmon.gen import keys as K
from sfmon.gen import labels as L

PROPERTY = 'C02'
RULE = ('cases = (label kind, label list, construction route, derivation) from seeded generators, plus duplicate / non-tree '
        'injection and grow-only histories of <= 12 append/extend steps interleaved with cache-materialising reads; the '
        'bijection predicate (len, iteration, reversed iteration, values, positions, iloc, membership of held and absent '
        'labels, loc_to_iloc(L[i]) == i) is evaluated on the built index and again on the derived one; non-trivial = the '
        'index has >= 2 labels or the case must raise; distinct = hash of the whole case')
EXPLANATION = 'hook invariants (private map vs labels; IndexLevel offsets) run at Index.__init__/IndexGO.append/_update_array_cache/IndexHierarchy.__init__/IndexLevelGO.append|extend exits during the whole workload'
EXHAUSTIVE = {'quick': False, 'thorough': False}
ASSUMPTIONS = ['model: Python list of labels (tuples for hierarchies); label identity by canonical scalar (type-kind + value)',
               'NaN labels excluded (statement); tuple labels not used inside hierarchies']
TIERS = {'quick': {'shards': 8, 'budget_s': 120, 'min_nontrivial': 20000},
         'thorough': {'shards': 16, 'budget_s': 1200, 'min_nontrivial': 300000}}
HOOKS = ('index', 'level')
ANCHORS = {
    'static_frame.core.index': ['LocMap.loc_to_iloc', 'Index._loc_to_iloc', 'Index.__init__', '_IndexGOMixin.append',
                                '_IndexGOMixin._update_array_cache', 'Index._extract_iloc', 'Index._drop_iloc', 'Index.relabel',
                                'Index.roll', 'Index.sort', 'Index.level_add', 'Index.astype'],
    'static_frame.core.index_base': ['IndexBase._ufunc_set', 'IndexBase.union', 'IndexBase.intersection', 'IndexBase.difference'],
    'static_frame.core.index_level': ['IndexLevel.leaf_loc_to_iloc', 'IndexLevel.loc_to_iloc', 'IndexLevelGO.append', 'IndexLevelGO.extend'],
    'static_frame.core.index_hierarchy': ['IndexHierarchy.from_labels', 'IndexHierarchy.from_product', 'IndexHierarchy.from_tree',
                                          'IndexHierarchy.from_index_items', 'IndexHierarchy.level_drop', 'IndexHierarchy.flat',
                                          'IndexHierarchyGO.append', 'IndexHierarchyGO.extend'],
    'static_frame.core.index_datetime': ['IndexDatetime._loc_to_iloc', '_IndexDatetimeGOMixin.append'],
    'static_frame.core.index_auto': ['IndexAutoFactory.from_optional_constructor'],
}
REQUIRED_ANCHORS = ['index.LocMap.loc_to_iloc', 'index._IndexGOMixin.append', 'index_level.IndexLevel.leaf_loc_to_iloc',
                    'index_level.IndexLevelGO.append', 'index_hierarchy.IndexHierarchy.from_product']

FLAT = ['int', 'negint', 'str', 'float', 'tuple', 'dateobj', 'dt64', 'mixed', 'range', 'bool', 'IndexDate', 'IndexYearMonth', 'IndexSecond', 'auto', 'auto']
ROUTES = ['list', 'generator', 'array', 'index', 'go', 'from_labels', 'tuple', 'pickle', 'deepcopy', 'array_then_written', 'go_array_then_written']
DERIVS = ['none', 'iloc', 'drop_iloc', 'drop_loc', 'relabel_pair', 'relabel_dict', 'roll', 'sort', 'sort_desc', 'union',
          'intersection', 'difference', 'level_add', 'astype_object', 'rename', 'copy', 'to_go_and_back', 'series_index',
          'frame_columns', 'head', 'tail', 'loc_list', 'values_roundtrip']
HDERIVS = ['none', 'iloc', 'roll', 'sort', 'level_add', 'level_drop_outer', 'level_drop_inner', 'flat', 'rename', 'copy', 'union',
           'intersection', 'difference', 'series_index', 'to_go_and_back', 'pickle', 'astype_object', 'relabel_pair']


TECHNIQUE = 'runtime monitoring: bijection oracle (len / iteration / values / lookup / membership against a list model) over construction routes, derivations and grow-only histories with stale caches; hook invariants on Index and IndexLevel state'


def probes(ctx):
    return []


def generate(ctx):
    rng = ctx.rng
    size = 2600
    for _ in range(ctx.n(60000, 1200000)):
        r = rng.random()
        if rng.random() < 0.0006 and size < 200000:
            # each one more than twice as large as the last (and as the largest index this process has built)
            yield {'t': 'large', 'n': size + rng.randint(0, 50), 'how': rng.choice(['index', 'go', 'auto'])}
            size = size * 2 + 700
        if r < 0.42:
            kind = rng.choice(FLAT)
            n = rng.choice([0, 1, 2, 3, 4, 5, 6, 8, 12])
            labels = L.flat_labels(kind, n, rng)
            if kind == 'auto':
                # a true auto-integer index (no label map): stepped / reversed / list selections must produce mapped indices
                deriv = rng.choice(['iloc', 'iloc', 'iloc', 'series_index', 'drop_iloc', 'roll', 'sort_desc', 'head', 'tail', 'none', 'copy', 'to_go_and_back',
                                    'union', 'difference', 'level_add', 'astype_object', 'values_roundtrip'])
                yield {'t': 'flat', 'kind': kind, 'labels': labels, 'route': rng.choice(['series', 'frame_columns', 'factory']), 'deriv': deriv,
                       'arg': _deriv_arg(rng, len(labels), labels, 'range')}
                continue
            case = {'t': 'flat', 'kind': kind, 'labels': labels, 'route': rng.choice(ROUTES), 'deriv': rng.choice(DERIVS),
                    'arg': _deriv_arg(rng, len(labels), labels, kind)}
            yield case
        elif r < 0.52:
            kind = rng.choice([k for k in FLAT if k != 'auto'])
            n = rng.choice([1, 2, 3, 5, 8])
            labels = L.flat_labels(kind, n, rng)
            if not labels:
                continue
            dup = list(labels)
            dup.insert(rng.randrange(len(dup) + 1), rng.choice(labels))
            yield {'t': 'dup', 'kind': kind, 'labels': dup, 'route': rng.choice(['list', 'generator', 'array', 'go', 'from_labels'])}
        elif r < 0.78:
            depth = rng.choice([2, 2, 3, 4])
            n = rng.choice([0, 1, 2, 4, 6, 9, 12, 16])
            labels = L.tree_labels(depth, n, rng, datetime_level=rng.random() < 0.15)
            yield {'t': 'hier', 'depth': depth, 'labels': labels, 'route': rng.choice(['from_labels', 'from_tree', 'from_index_items', 'from_labels_go', 'from_product']),
                   'deriv': rng.choice(HDERIVS), 'arg': _deriv_arg(rng, len(labels), labels, 'hier')}
        elif r < 0.84:
            depth = rng.choice([2, 3])
            labels = L.tree_labels(depth, rng.choice([3, 5, 8]), rng)
            if len(labels) < 2:
                continue
            bad = list(labels)
            mode = rng.choice(['dup', 'nontree'])
            if mode == 'dup':
                bad.insert(rng.randrange(len(bad) + 1), rng.choice(labels))
            else:
                # move one tuple so that its outer label is no longer contiguous
                outers = [t[0] for t in bad]
                if len(set(map(repr, outers))) < 2:
                    continue
                first_outer = outers[0]
                other_pos = [i for i, o in enumerate(outers) if cs(o) != cs(first_outer)]
                split = other_pos[-1] + 1
                bad.insert(split, (first_outer,) + tuple(f'n{j}' if isinstance(v, str) else 9000 + j for j, v in enumerate(bad[0][1:])))
                if K.is_tree(bad):
                    continue
            yield {'t': 'hier_bad', 'depth': depth, 'labels': bad, 'mode': mode, 'route': rng.choice(['from_labels', 'from_labels_go'])}
        else:
            yield _history_case(rng)


def _deriv_arg(rng, n, labels, kind):
    a = {'pos': K.gen_positional(n, rng, allow_repeat=False), 'shift': rng.randint(-n - 2, n + 2), 'count': rng.randint(0, n + 1)}
    k = rng.randint(0, n)
    a['sub'] = rng.sample(labels, k)
    other_kind = kind if kind != 'hier' else None
    if other_kind:
        extra = [x for x in L.flat_labels(other_kind, min(4, max(1, n)), rng) if all(cs(x) != cs(y) for y in labels)]
    else:
        extra = []
    a['other'] = rng.sample(labels, rng.randint(0, n)) + extra[:rng.randint(0, 3)]
    rng.shuffle(a['other'])
    a['same_other'] = rng.random() < 0.2
    return a


def _history_case(rng):
    """Grow-only history: steps are ('append', label) | ('extend', [labels]) | ('read', what)."""
    kind = rng.choice(['auto', 'int', 'str', 'mixed', 'IndexDate', 'hier2', 'hier3', 'float', 'dt64', 'hier3'])
    steps = []
    if kind == 'hier3' and rng.random() < 0.4:
        # started by from_product (whose branches may share their lower levels) and grown under and beside the last outer label
        levels = [rng.sample(['a', 'b', 'c'], 2), rng.sample([1, 2, 3], 2), rng.sample(['x', 'y', 'z'], 2)]
        import itertools as it
        start = list(it.product(*levels))
        o, m = levels[0][-1], levels[1][-1]
        fresh_inner = [v for v in ['x', 'y', 'z', 'w'] if v not in levels[2]]
        fresh_mid = [v for v in [1, 2, 3, 4] if v not in levels[1]]
        rest = [(o, m, fresh_inner[0]), (o, m, fresh_inner[1]), (o, fresh_mid[0], levels[2][0]), (o, fresh_mid[0], fresh_inner[0]),
                ('q', levels[1][0], levels[2][0]), ('q', levels[1][0], fresh_inner[0])]
        i = 0
        for _ in range(rng.randint(2, 8)):
            if rng.random() < 0.6 and i < len(rest):
                steps.append(('append', rest[i]))
                i += 1
            else:
                steps.append(('read', rng.choice(['values', 'len', 'iter', 'loc', 'contains', 'depth_values', 'static_init', 'go_init', 'rename'])))
        return {'t': 'history', 'kind': kind, 'start': start, 'steps': steps, 'start_route': 'from_product', 'levels': levels}
    if kind.startswith('hier'):
        depth = int(kind[4])
        pool = L.tree_labels(depth, 14, rng)
        n0 = rng.randint(0, min(4, len(pool)))
        start, rest = pool[:n0], pool[n0:]
        i = 0
        for _ in range(rng.randint(1, 10)):
            r = rng.random()
            if r < 0.45 and i < len(rest):
                steps.append(('append', rest[i]))
                i += 1
            elif r < 0.6 and i < len(rest):
                k = rng.randint(1, min(3, len(rest) - i))
                steps.append(('extend', rest[i:i + k]))
                i += k
            elif r < 0.72 and (start or i):
                seen = start + rest[:i]
                steps.append(('append_dup', rng.choice(seen)))
            else:
                steps.append(('read', rng.choice(['values', 'len', 'iter', 'loc', 'contains', 'copy', 'depth_values', 'static_init', 'go_init', 'rename',
                                                   'values', 'static_init'])))
        return {'t': 'history', 'kind': kind, 'start': start, 'steps': steps, 'start_route': rng.choice(['from_labels', 'from_labels', 'from_tree'])}
    if kind == 'auto':
        n0 = rng.randint(0, 4)
        start = list(range(n0))
        nxt = n0
        held = list(start)
        for _ in range(rng.randint(1, 12)):
            r = rng.random()
            if r < 0.4:
                while any(cs(nxt) == cs(h) for h in held):
                    nxt += 1
                steps.append(('append', nxt))
                held.append(nxt)
                nxt += 1
            elif r < 0.55:
                # promotion of the auto-integer index to a mapped one by a non-sequential label
                lab = rng.choice([nxt + 5, -3, 'x', 2.5, 100])
                if all(cs(lab) != cs(h) for h in held):
                    steps.append(('append', lab))
                    held.append(lab)
                    nxt = max(nxt, 10 ** 6)  # sequential appends no longer special
            elif r < 0.7 and held:
                steps.append(('append_dup', rng.choice(held)))
            elif r < 0.8:
                k = rng.randint(1, 3)
                new = []
                for j in range(k):
                    cand = (held[-1] + 1 + j) if held and isinstance(held[-1], int) and nxt < 10 ** 6 else f'e{len(held) + j}'
                    if all(cs(cand) != cs(h) for h in held + new):
                        new.append(cand)
                steps.append(('extend', new))
                held.extend(new)
                if new and isinstance(new[-1], int) and nxt < 10 ** 6:
                    nxt = new[-1] + 1
            else:
                steps.append(('read', rng.choice(['values', 'len', 'iter', 'loc', 'contains', 'copy', 'positions', 'sort', 'sort', 'reversed_sel'])))
        return {'t': 'history', 'kind': 'auto', 'start': start, 'steps': steps}
    pool = L.flat_labels(kind, 16, rng)
    n0 = rng.randint(0, min(4, len(pool)))
    start, rest = pool[:n0], pool[n0:]
    if kind == 'dt64' and pool:
        # labels of a finer unit that fall inside a day the index may already hold: distinct instants, so distinct labels
        rest = list(rest)
        for j in range(0, len(rest), 3):
            day = rng.choice(pool)
            if day == day:
                rest[j] = np.datetime64(day, 'm') + np.timedelta64(rng.choice([750, 1, 61]), 'm')
        seen, uniq = set(), []
        for x in rest:
            if cs(x) not in seen and all(cs(x) != cs(y) for y in start):
                seen.add(cs(x))
                uniq.append(x)
        rest = uniq
    i = 0
    held = list(start)  # labels certainly held whatever the library does with a rejected partial extend
    for _ in range(rng.randint(1, 12)):
        r = rng.random()
        if r < 0.45 and i < len(rest):
            steps.append(('append', rest[i]))
            held.append(rest[i])
            i += 1
        elif r < 0.6 and i < len(rest):
            k = rng.randint(1, min(3, len(rest) - i))
            steps.append(('extend', rest[i:i + k]))
            held.extend(rest[i:i + k])
            i += k
        elif r < 0.7 and held:
            steps.append(('append_dup', rng.choice(held)))
        elif r < 0.78 and i + 1 < len(rest) and held:
            # partially duplicate extend: a fresh label then a held one; the fresh label is never used again
            steps.append(('extend_partial_dup', [rest[i], rng.choice(held)]))
            i += 1
        else:
            steps.append(('read', rng.choice(['values', 'len', 'iter', 'loc', 'contains', 'copy', 'positions', 'static_init', 'go_init', 'rename',
                                              'sort', 'reversed_sel'])))
    return {'t': 'history', 'kind': kind, 'start': start, 'steps': steps}


# --------------------------------------------------------------------------------------
# the bijection predicate

_ABS = [999, -999, 'ZZZ', 99.25, (9, 'q'), np.datetime64('1990-01-01'), ('QQ', 999), ('QQ', 999, 'QQ'), ('QQ', 999, 'QQ', 1)]


def bijection(ctx, idx, model, klass, stage):
    """Assert every clause of the statement for index `idx` against the model list."""
    n = len(model)
    cm = [cs(x) for x in model]
    bad = []

    def fail(what, **d):
        bad.append(what)
        ctx.violation('bijection:' + what, detail=dict(d, stage=stage, model=cm[:20], cls=type(idx).__name__), klass=dict(klass, stage=stage, clause=what))

    if len(set(cm)) != n:
        raise AssertionError('model labels not distinct: harness bug')
    if len(idx) != n:
        fail('len', got=len(idx), expected=n)
        return False
    it = [cs(_norm(x)) for x in idx]
    if not canon.seq_eq(it, cm, canon.leq):
        fail('iteration', got=it[:20])
    rv = [cs(_norm(x)) for x in reversed(idx)]
    if not canon.seq_eq(rv, cm[::-1], canon.leq):
        fail('reversed', got=rv[:20])
    vals = canon.index_labels(idx)
    if not canon.seq_eq([cs(x) for x in vals], cm, canon.leq):
        fail('values', got=[cs(x) for x in vals][:20])
    if idx.depth > 1:
        v2 = idx.values
        if v2.shape != (n, idx.depth):
            fail('values_2d_shape', got=v2.shape)
    pos = idx.positions
    if pos.tolist() != list(range(n)):
        fail('positions', got=pos.tolist()[:20])
    if pos.flags.writeable and False:
        fail('positions_writeable')
    presented = [_norm(x) for x in idx] if not bad else list(model)
    for i, lab in enumerate(presented):
        try:
            p = idx.loc_to_iloc(lab)
        except Exception as e:
            fail('loc_to_iloc_raises', i=i, label=repr(lab), exception=type(e).__name__)
            break
        if not isinstance(p, (int, np.integer)) or isinstance(p, (bool, np.bool_)) or int(p) != i:
            fail('loc_to_iloc', i=i, label=repr(lab), got=repr(p))
            break
        try:
            member = lab in idx
        except Exception as e:
            fail('contains_raises', i=i, label=repr(lab), exception=type(e).__name__)
            break
        if member is not True and member is not np.True_:
            fail('contains_held', i=i, label=repr(lab), got=repr(member))
            break
        try:
            e = idx.iloc[i]
        except Exception as ex:
            fail('iloc_raises', i=i, exception=type(ex).__name__)
            break
        if not canon.leq(cs(_norm(e)), cm[i]):
            fail('iloc', i=i, got=cs(_norm(e)))
            break
    # a datetime-typed index holds periods: a key of finer resolution inside a held period (a day of a held month, a time of day of a
    # held day), in the forms construction accepts, is not a label of the index
    unit = np.datetime_data(idx.values.dtype)[0] if idx.depth == 1 and n and idx.values.dtype.kind == 'M' else None
    if unit in ('M', 'D') and type(idx).__name__.startswith(('IndexYearMonth', 'IndexDate')):
        import datetime as _dt
        first = np.datetime64(model[0], unit)
        if first == first:
            if unit == 'M':
                d0 = (first.astype('M8[D]') + np.timedelta64(16, 'D')).item()
                finer = [d0, d0.isoformat(), _dt.datetime(d0.year, d0.month, d0.day, 5, 30)]
            else:
                d0 = first.item()
                finer = [_dt.datetime(d0.year, d0.month, d0.day, 5, 30), d0.isoformat() + 'T05:30']
            for a in finer:
                try:
                    member = a in idx
                except Exception:
                    member = False
                if member:
                    fail('contains_absent', label=repr(a), finer_resolution=True)
                    break
    held = set(cm)
    for a in _ABS:
        if isinstance(a, tuple) and idx.depth > 1 and len(a) != idx.depth:
            continue
        if cs(a) in held:
            continue
        if idx.depth == 1 and isinstance(a, tuple) and not any(isinstance(m, tuple) for m in model):
            continue
        if _equal_to_some(a, model):
            continue
        try:
            member = a in idx
        except Exception:
            member = False
        if member:
            fail('contains_absent', label=repr(a))
        try:
            p = idx.loc_to_iloc(a)
        except Exception:
            continue
        if isinstance(p, (int, np.integer)) and not _is_auto_positional(idx, a):
            fail('absent_resolved', label=repr(a), got=repr(p))
    return not bad


def _same_members(got, want):
    if len(got) != len(want):
        return False
    rest = list(want)
    for g in got:
        for i, w in enumerate(rest):
            if canon.leq(g, w):
                del rest[i]
                break
        else:
            return False
    return not rest


def _equal_to_some(a, model):
    for m in model:
        try:
            if a == m and not isinstance(a, tuple):
                return True
        except Exception:
            pass
    return False


def _is_auto_positional(idx, a):
    # C04's known finding (auto-integer loc passes ints through) is not C02's concern
    return getattr(idx, '_map', 1) is None and isinstance(a, (int, np.integer))


def _norm(x):
    """labels yielded by iteration: hierarchy rows come as tuples or arrays."""
    if isinstance(x, np.ndarray):
        return tuple(x.tolist()) if x.dtype != object else tuple(x)
    return x


# --------------------------------------------------------------------------------------
# construction

def _obj(labels):
    a = np.empty(len(labels), dtype=object)
    for i, v in enumerate(labels):
        a[i] = v
    return a


def _needs_obj(kind):
    return kind in ('tuple', 'mixed', 'dateobj')


def _flat_cls(kind, go=False):
    import static_frame as sf
    if kind == 'auto':
        return sf.IndexGO if go else sf.Index
    if kind in ('IndexDate', 'IndexYearMonth', 'IndexSecond'):
        return getattr(sf, kind + ('GO' if go else ''))
    return sf.IndexGO if go else sf.Index


def build_flat(kind, labels, route):
    import static_frame as sf
    if kind == 'auto':
        n = len(labels)
        if route == 'frame_columns':
            return sf.Frame(np.arange(2 * n).reshape(2, n)).columns if n else sf.Frame(index=(0, 1)).columns
        if route == 'factory':
            return sf.IndexAutoFactory.from_optional_constructor(n, default_constructor=sf.Index)
        return sf.Series(np.arange(n)).index
    cls = _flat_cls(kind)
    src = _obj(labels) if _needs_obj(kind) else list(labels)
    if route == 'list':
        return cls(src if _needs_obj(kind) else list(labels))
    if route == 'tuple':
        return cls(src if _needs_obj(kind) else tuple(labels))
    if route == 'generator':
        if kind == 'tuple':
            return cls(src)
        return cls(x for x in labels)
    if route == 'array':
        return cls(src if _needs_obj(kind) else (np.array(labels) if labels else np.array([], dtype=np.int64)))
    if route in ('array_then_written', 'go_array_then_written'):
        # the caller keeps writing into the array it passed in: labels and look-up table of the index must both stay what they were
        arr = src if _needs_obj(kind) else (np.array(labels) if labels else np.array([], dtype=np.int64))
        arr = np.array(arr)  # a writeable array of the caller's own
        idx = (_flat_cls(kind, go=True) if route.startswith('go') else cls)(arr)
        if len(arr) > 1:
            arr[...] = arr[::-1].copy()
        if len(arr):
            arr[0] = arr[-1]
        return idx
    if route == 'index':
        return cls(cls(src))
    if route == 'go':
        return _flat_cls(kind, go=True)(src)
    if route == 'from_labels':
        return cls.from_labels(src)
    if route == 'pickle':
        return pickle.loads(pickle.dumps(cls(src)))
    if route == 'deepcopy':
        return copy.deepcopy(cls(src))
    raise KeyError(route)


def _tree_dict(labels):
    """nested dict / list form for from_tree."""
    depth = len(labels[0])
    if depth == 1:
        return [t[0] for t in labels]
    out = {}
    for t in labels:
        out.setdefault(t[0], []).append(t[1:])
    return {k: _tree_dict(v) for k, v in out.items()}


def build_hier(labels, depth, route):
    import static_frame as sf
    if route == 'from_labels':
        return sf.IndexHierarchy.from_labels(labels, depth_reference=depth)
    if route == 'from_labels_go':
        return sf.IndexHierarchyGO.from_labels(labels, depth_reference=depth)
    if route == 'from_tree':
        if not labels:
            return sf.IndexHierarchy.from_labels(labels, depth_reference=depth)
        return sf.IndexHierarchy.from_tree(_tree_dict(labels))
    if route == 'from_index_items':
        if not labels or depth != 2:
            return sf.IndexHierarchy.from_labels(labels, depth_reference=depth)
        groups = {}
        for t in labels:
            groups.setdefault(t[0], []).append(t[1])
        return sf.IndexHierarchy.from_index_items((k, sf.Index(v)) for k, v in groups.items())
    raise KeyError(route)


# --------------------------------------------------------------------------------------
# checks

def _check_large(case, ctx):
    """an index far larger than anything built before it in this process: the shared positions buffer has to grow by more than a doubling."""
    import static_frame as sf
    n, how = case['n'], case['how']
    klass = {'t': 'large', 'how': how}
    ctx.evaluation(repr(case), True)
    if how == 'index':
        idx = sf.Index(np.arange(n) * 3)
        labs = lambda i: i * 3
    elif how == 'go':
        idx = sf.IndexGO(np.arange(n) * 3)
        labs = lambda i: i * 3
    else:
        idx = sf.Series(np.zeros(n)).index
        labs = lambda i: i
    ctx.tally('large_index', f'{how}:{n}')
    pos = idx.positions
    if len(idx) != n or len(pos) != n or int(pos[-1]) != n - 1:
        ctx.violation('bijection:positions', detail={'n': n, 'len': len(idx), 'positions_len': len(pos)}, klass=dict(klass, clause='positions'))
        return
    for i in (0, n // 2, n - 1):
        try:
            p = idx.loc_to_iloc(labs(i))
        except Exception as e:
            ctx.violation('bijection:loc_to_iloc_raises', detail={'n': n, 'i': i, 'exception': type(e).__name__}, klass=dict(klass, clause='loc_to_iloc_raises'))
            return
        if int(p) != i or labs(i) not in idx:
            ctx.violation('bijection:loc_to_iloc', detail={'n': n, 'i': i, 'got': repr(p)}, klass=dict(klass, clause='loc_to_iloc'))
            return
    mask = np.zeros(n, dtype=bool)
    mask[[0, n - 1]] = True
    sel = idx.loc_to_iloc(mask)
    got = np.arange(n)[sel].tolist() if not isinstance(sel, slice) else list(range(n))[sel]
    if got != [0, n - 1]:
        ctx.violation('bijection:positions', detail={'n': n, 'boolean_key_selected': got[:6]}, klass=dict(klass, clause='boolean_key'))


def check(case, ctx):
    t = case['t']
    ctx.tally('case_type', t)
    if t == 'large':
        return _check_large(case, ctx)
    if t == 'flat':
        return _check_flat(case, ctx)
    if t == 'dup':
        return _check_dup(case, ctx)
    if t == 'hier':
        return _check_hier(case, ctx)
    if t == 'hier_bad':
        return _check_hier_bad(case, ctx)
    return _check_history(case, ctx)


def _check_dup(case, ctx):
    import static_frame as sf
    ctx.evaluation(('dup', repr(case)), True)
    ctx.tally('dup_kind', case['kind'])
    klass = {'t': 'dup', 'kind': case['kind'], 'route': case['route']}
    try:
        idx = build_flat(case['kind'], case['labels'], case['route'])
    except sf.ErrorInitIndex:
        ctx.tally('rejected', 'ErrorInitIndex')
        return
    except Exception as e:
        ctx.violation('duplicate_wrong_error', detail={'exception': type(e).__name__, 'message': str(e)[:200], 'labels': repr(case['labels'])},
                      klass=dict(klass, exception=type(e).__name__))
        return
    ctx.violation('duplicate_labels_accepted', detail={'labels': repr(case['labels']), 'got': canon.brief(canon.snap(idx))}, klass=klass)


def _check_hier_bad(case, ctx):
    import static_frame as sf
    ctx.evaluation(('hier_bad', repr(case)), True)
    klass = {'t': 'hier_bad', 'mode': case['mode'], 'route': case['route']}
    try:
        idx = build_hier(case['labels'], case['depth'], case['route'])
        len(idx), idx.values  # force materialisation
    except sf.ErrorInitIndex:
        ctx.tally('rejected', 'ErrorInitIndex(' + case['mode'] + ')')
        return
    except Exception as e:
        ctx.violation('nontree_wrong_error', detail={'exception': type(e).__name__, 'message': str(e)[:200], 'labels': repr(case['labels'])},
                      klass=dict(klass, exception=type(e).__name__))
        return
    ctx.violation('nontree_or_duplicate_hierarchy_accepted', detail={'labels': repr(case['labels'])}, klass=klass)


def _sortable(labels):
    try:
        sorted(labels)
        return True
    except TypeError:
        return False


def _check_flat(case, ctx):
    import static_frame as sf
    kind, labels, route, deriv, arg = case['kind'], case['labels'], case['route'], case['deriv'], case['arg']
    n = len(labels)
    ctx.evaluation(('flat', repr(case)), n >= 2)
    ctx.tally('kind', kind)
    ctx.tally('route', route)
    ctx.tally('deriv', deriv)
    ctx.sample({'kind': kind, 'n': n, 'route': route, 'deriv': deriv})
    klass = {'t': 'flat', 'kind': kind, 'route': route, 'deriv': deriv}
    idx = build_flat(kind, labels, route)
    if not bijection(ctx, idx, labels, klass, 'built'):
        return
    expected = _derive_flat(ctx, idx, labels, kind, deriv, arg, klass)
    if expected is None:
        return
    derived, model, ordered = expected
    if not ordered:
        # set algebra: the statement fixes membership (each once), not order
        got = [cs(x) for x in canon.index_labels(derived)]
        want = [cs(x) for x in model]
        if not _same_members(got, want):
            ctx.violation('set_operation_membership', detail={'expected': want, 'got': got}, klass=klass)
            return
        model = canon.index_labels(derived)
    bijection(ctx, derived, list(model), klass, 'derived:' + deriv)
    if not isinstance(derived, sf.IndexHierarchy):
        # whatever was derived must reject a duplicate of its own first label when rebuilt with one
        pass


def _derive_flat(ctx, idx, labels, kind, deriv, arg, klass):
    """Return (derived index, model labels, order_asserted) or None when not applicable."""
    import static_frame as sf
    n = len(labels)
    if deriv == 'none':
        return idx, labels, True
    if deriv == 'iloc':
        res = K.resolve_positional(n, arg['pos'])
        if res.error or res.reduce or len(set(res.positions)) != len(res.positions):
            return None
        return idx.iloc[K.realize(arg['pos'])], [labels[p] for p in res.positions], True
    if deriv == 'drop_iloc':
        res = K.resolve_positional(n, arg['pos'])
        if res.error or res.positions is None:
            return None
        drop = set(res.positions)
        return idx.drop.iloc[K.realize(arg['pos'])], [l for i, l in enumerate(labels) if i not in drop], True
    if deriv == 'drop_loc':
        sub = arg['sub']
        if not sub:
            return None
        key = _obj(sub) if _needs_obj(kind) else list(sub)
        if kind == 'tuple':
            return None
        dropc = {cs(x) for x in sub}
        return idx.drop.loc[list(key)], [l for l in labels if cs(l) not in dropc], True
    if deriv == 'loc_list':
        sub = arg['sub']
        if kind == 'tuple' or not sub:
            return None
        return idx.loc[list(sub)], list(sub), True
    if deriv == 'relabel_pair':
        if kind in ('IndexDate', 'IndexYearMonth', 'IndexSecond'):
            return None
        return idx.relabel(_pair), [_pair(l) for l in labels], True
    if deriv == 'relabel_dict':
        if kind in ('IndexDate', 'IndexYearMonth', 'IndexSecond', 'tuple', 'dt64', 'dateobj') or n == 0:
            return None
        target = labels[0]
        new = 'RELABELLED'
        return idx.relabel({target: new}), [new] + list(labels[1:]), True
    if deriv == 'roll':
        if n == 0:
            return None
        s = arg['shift'] % n
        return idx.roll(arg['shift']), (labels[-s:] + labels[:-s]) if s else list(labels), True
    if deriv in ('sort', 'sort_desc'):
        if not _sortable(labels):
            return None
        asc = deriv == 'sort'
        return idx.sort(ascending=asc), sorted(labels, reverse=not asc), True
    if deriv in ('union', 'intersection', 'difference'):
        other = list(labels) if arg['same_other'] else arg['other']
        if kind == 'tuple' or kind == 'mixed':
            return None
        oc = [cs(x) for x in other]
        if len(set(oc)) != len(oc):
            return None
        other_idx = _flat_cls(kind)(_obj(other) if _needs_obj(kind) else list(other))
        lc = [cs(x) for x in labels]
        if deriv == 'union':
            model = list(labels) + [o for o in other if cs(o) not in lc]
        elif deriv == 'intersection':
            model = [l for l in labels if cs(l) in oc]
        else:
            model = [l for l in labels if cs(l) not in oc]
        ordered = (lc == oc) and deriv != 'difference'
        got = getattr(idx, deriv)(other_idx)
        ctx.tally('set_ops', deriv + (':identical' if lc == oc else ''))
        return got, model, ordered
    if deriv == 'level_add':
        if kind in ('tuple', 'mixed') or n == 0:
            return None
        return idx.level_add('OUT'), [('OUT', l) for l in labels], True
    if deriv == 'astype_object':
        if kind in ('IndexDate', 'IndexYearMonth', 'IndexSecond', 'dt64'):
            return None
        return idx.astype(object), list(labels), True
    if deriv == 'rename':
        d = idx.rename('newname')
        if d.name != 'newname':
            ctx.violation('rename_name', detail={'got': repr(d.name)}, klass=klass)
        return d, list(labels), True
    if deriv == 'copy':
        return idx.copy(), list(labels), True
    if deriv == 'to_go_and_back':
        go = _flat_cls(kind, go=True)(idx)
        back = _flat_cls(kind)(go)
        bijection(ctx, go, list(labels), klass, 'derived:to_go')
        return back, list(labels), True
    if deriv == 'series_index':
        s = sf.Series(np.arange(n), index=idx)
        res = K.resolve_positional(n, arg['pos'])
        if res.error or res.reduce or len(set(res.positions)) != len(res.positions):
            return s.index, list(labels), True
        return s.iloc[K.realize(arg['pos'])].index, [labels[p] for p in res.positions], True
    if deriv == 'frame_columns':
        f = sf.Frame(np.arange(2 * n).reshape(2, n), columns=idx) if n else sf.Frame(index=(0, 1), columns=idx)
        return f.columns, list(labels), True
    if deriv == 'head':
        c = arg['count']
        return idx.head(c), list(labels[:c]), True
    if deriv == 'tail':
        c = arg['count']
        return idx.tail(c), list(labels[-c:]), True  # Python slice semantics: tail(0) is labels[-0:]
    if deriv == 'values_roundtrip':
        if kind in ('IndexDate', 'IndexYearMonth', 'IndexSecond'):
            return _flat_cls(kind)(idx.values), list(labels), True
        return sf.Index(idx.values), list(labels), True
    raise KeyError(deriv)


def _pair(x):
    return (x, 'p')


def _check_hier(case, ctx):
    import static_frame as sf
    labels, depth, route, deriv, arg = case['labels'], case['depth'], case['route'], case['deriv'], case['arg']
    n = len(labels)
    klass = {'t': 'hier', 'depth': depth, 'route': route, 'deriv': deriv}
    if route == 'from_product':
        # product labels replace the tree: take the distinct values per depth of the tree labels
        pools = []
        for d in range(depth):
            seen = []
            for t in labels:
                if all(cs(t[d]) != cs(s) for s in seen):
                    seen.append(t[d])
            pools.append(seen[:3])
        if not all(pools) or not labels:
            return
        import itertools
        labels = list(itertools.product(*pools))
        n = len(labels)
        idx = sf.IndexHierarchy.from_product(*pools)
    else:
        idx = build_hier(labels, depth, route)
    ctx.evaluation(('hier', repr(case)), n >= 2)
    ctx.tally('hroute', route)
    ctx.tally('hderiv', deriv)
    ctx.tally('depth', depth)
    ctx.sample({'hier_depth': depth, 'n': n, 'route': route, 'deriv': deriv})
    if not bijection(ctx, idx, labels, klass, 'built'):
        return
    out = _derive_hier(ctx, idx, labels, depth, deriv, arg, klass)
    if deriv != 'none' and n:
        # deriving (also a derivation that was refused) leaves the source what it was: nodes a derived tree shares with it are not re-based in place
        if not bijection(ctx, idx, labels, dict(klass, source_after_derivation=True), 'source_after:' + deriv):
            return
    if out is None:
        return
    derived, model, ordered = out
    if not ordered:
        got = [cs(x) for x in canon.index_labels(derived)]
        want = [cs(x) for x in model]
        if not _same_members(got, want):
            ctx.violation('set_operation_membership', detail={'expected': want, 'got': got}, klass=klass)
            return
        model = canon.index_labels(derived)
    bijection(ctx, derived, list(model), klass, 'derived:' + deriv)


def _derive_hier(ctx, idx, labels, depth, deriv, arg, klass):
    import static_frame as sf
    n = len(labels)
    if deriv == 'none':
        return idx, labels, True
    if deriv == 'iloc':
        res = K.resolve_positional(n, arg['pos'])
        if res.error or res.reduce or len(set(res.positions)) != len(res.positions):
            return None
        model = [labels[p] for p in res.positions]
        if not K.is_tree(model):
            try:
                idx.iloc[K.realize(arg['pos'])]
            except sf.ErrorInitIndex:
                ctx.tally('rejected', 'ErrorInitIndex(nontree selection)')
                return None
            except Exception as e:
                ctx.violation('nontree_wrong_error', detail={'exception': type(e).__name__}, klass=dict(klass, exception=type(e).__name__))
                return None
            ctx.violation('nontree_or_duplicate_hierarchy_accepted', detail={'labels': repr(model)}, klass=klass)
            return None
        if not model:
            return None
        return idx.iloc[K.realize(arg['pos'])], model, True
    if deriv == 'drop_iloc':
        res = K.resolve_positional(n, arg['pos'])
        if res.error or res.positions is None:
            return None
        drop = set(res.positions)
        model = [l for i, l in enumerate(labels) if i not in drop]
        if not model or not K.is_tree(model):
            return None
        return idx.drop.iloc[K.realize(arg['pos'])], model, True
    if deriv == 'roll':
        if n == 0:
            return None
        s = arg['shift'] % n
        model = (labels[-s:] + labels[:-s]) if s else list(labels)
        if not K.is_tree(model):
            return None
        return idx.roll(arg['shift']), model, True
    if deriv == 'sort':
        try:
            model = sorted(labels)
        except TypeError:
            return None
        if n == 0:
            return None
        return idx.sort(), model, True
    if deriv == 'level_add':
        if n == 0:
            return None
        return idx.level_add('OUT'), [('OUT',) + tuple(l) for l in labels], True
    if deriv == 'level_drop_inner':
        # dropping the innermost depth keeps one label per remaining path (documented: the size may change)
        if n == 0:
            return None
        outer, seen = [], set()
        for l in labels:
            key = tuple(cs(x) for x in l[:-1])
            if key not in seen:
                seen.add(key)
                outer.append(tuple(l[:-1]))
        model = [l[0] for l in outer] if depth == 2 else outer
        return idx.level_drop(-1), model, True
    if deriv == 'level_drop_outer':
        inner = [l[1:] for l in labels]
        if n == 0 or len({cs(x) for x in inner}) != n or (depth > 2 and not K.is_tree(inner)):
            return None
        # the promoted level is the concatenation of the children of each dropped parent: a label
        # held under two parents is rejected as a duplicate rather than merged
        second = {}
        for l in labels:
            second.setdefault(cs(l[1]), set()).add(cs(l[0]))
        if depth > 2 and any(len(parents) > 1 for parents in second.values()):
            return None
        model = [l[0] for l in inner] if depth == 2 else inner
        return idx.level_drop(1), model, True
    if deriv == 'flat':
        return idx.flat(), list(labels), True
    if deriv == 'rename':
        return idx.rename('hn'), list(labels), True
    if deriv == 'copy':
        return idx.copy(), list(labels), True
    if deriv == 'pickle':
        return pickle.loads(pickle.dumps(idx)), list(labels), True
    if deriv == 'to_go_and_back':
        if n == 0:
            return None
        go = sf.IndexHierarchyGO(idx)
        bijection(ctx, go, list(labels), klass, 'derived:to_go')
        return sf.IndexHierarchy(go), list(labels), True
    if deriv == 'astype_object':
        if n == 0:
            return None
        return idx.astype(object), list(labels), True
    if deriv == 'relabel_pair':
        if n == 0:
            return None
        return idx.relabel(_swap_last), [_swap_last(l) for l in labels], True
    if deriv == 'series_index':
        s = sf.Series(np.arange(n), index=idx)
        return s.index, list(labels), True
    if deriv in ('union', 'intersection', 'difference'):
        other = list(labels) if arg['same_other'] else arg['other']
        if n == 0 or not other or not K.is_tree(other):
            return None
        oc = [cs(x) for x in other]
        lc = [cs(x) for x in labels]
        other_idx = sf.IndexHierarchy.from_labels(other)
        if deriv == 'union':
            model = list(labels) + [o for o in other if cs(o) not in lc]
        elif deriv == 'intersection':
            model = [l for l in labels if cs(l) in oc]
        else:
            model = [l for l in labels if cs(l) not in oc]
        if not model:
            return None
        got = getattr(idx, deriv)(other_idx)
        ctx.tally('set_ops', 'hier:' + deriv + (':identical' if lc == oc else ''))
        return got, model, (lc == oc and deriv != 'difference')
    raise KeyError(deriv)


def _swap_last(t):
    return tuple(t[:-1]) + ((t[-1], 'r') if False else (str(t[-1]) + '_r',))


def _check_history(case, ctx):
    import static_frame as sf
    kind, start, steps = case['kind'], case['start'], case['steps']
    ctx.evaluation(('history', repr(case)), True)
    ctx.tally('history_kind', kind)
    ctx.sample({'history': kind, 'start': len(start), 'steps': [s[0] for s in steps]})
    klass = {'t': 'history', 'kind': kind}
    hier = kind.startswith('hier')
    if hier:
        depth = int(kind[4])
        if case.get('start_route') == 'from_product':
            idx = sf.IndexHierarchyGO.from_product(*case['levels'])
        elif case.get('start_route') == 'from_tree' and start:
            idx = sf.IndexHierarchyGO.from_tree(_tree_dict(start))
        else:
            idx = sf.IndexHierarchyGO.from_labels(start, depth_reference=depth)
    elif kind == 'auto':
        f = sf.FrameGO(np.arange(2 * len(start)).reshape(2, len(start))) if start else sf.FrameGO(index=(0, 1))
        idx = f.columns  # the auto-integer grow-only index of a FrameGO
        if getattr(idx, '_map', 1) is not None:
            ctx.tally('auto_not_loc_is_iloc', 1)
    else:
        idx = _flat_cls(kind, go=True)(_obj(start) if _needs_obj(kind) else list(start))
    model = list(start)
    derived = []  # (static copy, model at the time)
    for si, step in enumerate(steps):
        op = step[0]
        ctx.tally('history_step', op)
        sk = dict(klass, step=op)
        if kind == 'auto' and op in ('append', 'extend', 'append_dup'):
            # grow through the index itself (the FrameGO is only the source of an auto index)
            pass
        if op == 'append':
            idx.append(step[1])
            model.append(step[1])
        elif op == 'extend':
            if hier:
                if not step[1] or not model:
                    continue
                merged = model + list(step[1])
                held_outer = {cs(t[0]) for t in model}
                if not K.is_tree(merged) or any(cs(t[0]) in held_outer for t in step[1]):
                    # extend() takes whole new outer branches only (continuing a held branch is append's job)
                    ctx.tally('history_step', 'extend_skipped')
                    continue
                other = sf.IndexHierarchy.from_labels(step[1])
                idx.extend(other)
            else:
                idx.extend(list(step[1]))
            model.extend(step[1])
        elif op == 'append_dup':
            if all(cs(step[1]) != cs(m) for m in model):
                continue
            before = list(model)
            try:
                idx.append(step[1])
            except Exception as e:
                ctx.tally('rejected', 'append_dup:' + type(e).__name__)
            else:
                # hierarchies validate lazily: force materialisation, which must then raise
                if hier:
                    try:
                        len(idx.values)
                        ctx.violation('duplicate_append_accepted', detail={'label': repr(step[1]), 'model': repr(model)}, klass=sk)
                    except sf.ErrorInitIndex:
                        ctx.tally('rejected', 'append_dup(lazy)')
                        return  # the index is unusable after a lazily detected duplicate: documented behaviour of the cache
                    except Exception as e:
                        ctx.violation('duplicate_append_wrong_error', detail={'exception': type(e).__name__}, klass=dict(sk, exception=type(e).__name__))
                    return
                ctx.violation('duplicate_append_accepted', detail={'label': repr(step[1]), 'model': repr(model)}, klass=sk)
                return
            model = before
        elif op == 'extend_partial_dup':
            # C09 judges atomicity; here only: a duplicate must be rejected, and whatever the index
            # holds afterwards must still be a bijection
            try:
                idx.extend(list(step[1]))
            except (KeyError, sf.ErrorInitIndex):
                ctx.tally('rejected', 'extend_partial_dup')
            else:
                ctx.violation('duplicate_append_accepted', detail={'labels': repr(step[1])}, klass=sk)
                return
            now = canon.index_labels(idx)
            if not canon.seq_eq([cs(x) for x in now[:len(model)]], [cs(x) for x in model], canon.leq):
                ctx.violation('bijection:old_labels_changed_after_rejected_extend', detail={'model': repr(model), 'got': repr(now)}, klass=sk)
                return
            model = list(now)
        elif op == 'read':
            what = step[1]
            if what == 'values':
                idx.values
            elif what == 'len':
                len(idx)
            elif what == 'iter':
                list(idx)
            elif what == 'loc' and model:
                idx.loc_to_iloc(model[-1])
            elif what == 'contains' and model:
                model[0] in idx
            elif what == 'copy':
                derived.append((idx.copy(), list(model)))
                if not bijection(ctx, derived[-1][0], list(model), dict(sk, derived='copy'), f'step{si}:derived:copy'):
                    return
            elif what in ('static_init', 'go_init', 'rename') and (model or not hier):
                if what == 'rename':
                    d = idx.rename('renamed')
                elif hier:
                    d = (sf.IndexHierarchy if what == 'static_init' else sf.IndexHierarchyGO)(idx)
                else:
                    d = _flat_cls(kind if kind != 'auto' else 'int', go=what == 'go_init')(idx)
                derived.append((d, list(model)))
                if not bijection(ctx, d, list(model), dict(sk, derived=what), f'step{si}:derived:{what}'):
                    return
            elif what in ('sort', 'reversed_sel') and not hier and model:
                # derivations that take their order / positions from the (possibly stale) position cache
                if what == 'sort':
                    asc = si % 2 == 0
                    try:
                        want = sorted(model, reverse=not asc)
                    except TypeError:
                        want = None
                    if want is not None and all(x == x for x in model):
                        d = idx.sort(ascending=asc)
                        derived.append((d, want))
                        if not bijection(ctx, d, list(want), dict(sk, derived=what), f'step{si}:derived:{what}'):
                            return
                else:
                    d = idx.iloc[::-1]
                    derived.append((d, list(model)[::-1]))
                    if not bijection(ctx, d, list(model)[::-1], dict(sk, derived=what), f'step{si}:derived:{what}'):
                        return
            elif what == 'positions':
                idx.positions
            elif what == 'depth_values' and hier and model:
                idx.values_at_depth(0)
        # the full predicate materialises the caches of the grow-only index; it is therefore evaluated after a growth step only
        # for some histories, so that derivations and reads also meet an index whose caches are stale
        eager = (len(steps) + len(start)) % 3 == 0
        if (op != 'read' and eager) or si == len(steps) - 1:
            if not bijection(ctx, idx, model, sk, f'step{si}:{op}'):
                return
    bijection(ctx, idx, model, klass, 'final')
    for d, m in derived:
        if not bijection(ctx, d, m, dict(klass, derived='copy_before_growth'), 'copy'):
            return
        # labels the source gained after `d` was derived are not labels of `d`: neither members nor resolvable
        cm_then = [cs(x) for x in m]
        for lab in [x for x in model if not any(canon.leq(cs(x), y) for y in cm_then)][:4]:
            key = tuple(lab) if isinstance(lab, (tuple, list)) else lab
            try:
                inside = key in d
            except Exception:
                inside = False
            found = False
            try:
                pos = d.loc_to_iloc(key)
                # (a datetime key absent from a datetime index resolves to an empty selection, an int on an auto-integer index is
                # read as a position: neither is a label found)
                found = isinstance(pos, (int, np.integer)) and not _is_auto_positional(d, key)
            except Exception:
                found = False
            if inside or found:
                ctx.violation('bijection:label_of_grown_source_found_in_derived', detail={'label': repr(lab), 'member': inside, 'resolved': found,
                                                                                         'derived_labels': repr(m)[:300]},
                              klass=dict(klass, derived='copy_before_growth'))
                return
