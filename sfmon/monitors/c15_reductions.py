"""C15 — axis reductions equal the independent per-column / per-row computation, for every
block layout; cumulative sums / products keep shape and labels; skipna ignores the missing
cells, without it a missing cell propagates or is rejected."""
import math

import numpy as np

from sfmon import canon
from sfmon.canon import cs
from sfmon.gen import frames as F
from sfmon.gen import labels as L
from sfmon.gen import values as V

PROPERTY = 'C15'
RULE = ('cases = (FrameSpec, operation) with operation enumerated over fn in sum/prod/min/max/mean/median/std/var(ddof 0..2)/all/any/'
        'cumsum/cumprod/loc_min/iloc_min/loc_max/iloc_max x axis x skipna (80 combinations, visited round-robin) and the spec drawn '
        'from dtype-mix strategies (homogeneous small ints / bool / str / datetime, numeric mixes, bool+number, object with None/NaN, '
        'anything) with 0..6 rows and 0..5 columns; every case is executed under up to 6 (quick) / 12 (thorough) block layouts '
        '(always all-1-D and max-consolidated); one evaluation = one frame call on one layout, judged per result cell against '
        '(1) the library 1-D path on the isolated line and (2) NumPy / a plain-Python model on the raw line; non-trivial = the '
        'reduced axis has >= 2 cells and at least one line exists; distinct = hash of (spec, operation, layout)')
EXPLANATION = ('the operation factor (fn x axis x skipna x ddof) is enumerated completely and crossed round-robin with sampled '
               'specs; layouts are enumerated completely for <= 3 columns (quick) and sampled above')
EXHAUSTIVE = {'quick': False, 'thorough': False}
ASSUMPTIONS = [
    'axis 1 reduces "the rows of its values": the reference line of a row is the consolidated row frame.iloc[r] (resolved row dtype)',
    'reference (2) reuses NumPy reductions (np.sum/np.nansum/...) on the raw 1-D array for numeric/bool lines; all/any, the arg '
    'functions, str, datetime and object lines use a plain-Python model written from the statement; where the library 1-D path '
    'itself violates the model that is reported once (series_path_differs_from_model) and the frame is judged against the model',
    'close strength: rel 1e-9 (scaled to the float precision of the result dtype for float16/float32) plus an absolute term '
    'proportional to the largest finite magnitude of the line (summation order differs between block-wise and line-wise evaluation)',
    'the result Series has one dtype: an expected int may be presented as the numerically identical float / bool (and a bool as '
    '0/1 for sum/prod/cumsum/cumprod); NaN / NaT / None are one missing marker; an expected float is compared close',
    'int cells are kept small enough that int64 accumulation cannot overflow (prod/cumprod lines tamed to |product| < 2**62)',
    'without skipna a line holding a missing cell must give a missing result or raise; a frame may raise when some line raises '
    '(same class as one of the raising lines)',
    'not judged (statement silent / value undefined): arg functions over empty lines, arg ties between NaN and a genuine +-inf '
    'extreme (NumPy nanarg* fill), std/var with ddof >= count (must be non-finite), the empty sum of strings',
    'domain: every fn on numeric/bool lines (ordering fns not on complex); sum/min/max/all/any on str; min/max on datetime; '
    'sum/prod/min/max/mean/all/any/cumsum/cumprod on object lines holding numbers/bools/None/NaN; outside the domain only '
    'layout independence of the outcome kind is judged, plus "the frame must not raise when every line reduces" for '
    'median/std/var of numeric object lines (DESIGN C15 Expect iv)',
    'cells of 0-row logical reductions that the library leaves uninitialised are never compared by value: the verdict comes from a '
    'deterministic probe of the block-level function with a poisoned out= buffer',
]
TIERS = {'quick': {'shards': 8, 'budget_s': 150, 'min_nontrivial': 4000},
         'thorough': {'shards': 16, 'budget_s': 1500, 'min_nontrivial': 60000}}
ANCHORS = {
    'static_frame.core.container': ['ContainerOperand.sum', 'ContainerOperand.prod', 'ContainerOperand.min', 'ContainerOperand.max',
                                    'ContainerOperand.mean', 'ContainerOperand.median', 'ContainerOperand.std', 'ContainerOperand.var',
                                    'ContainerOperand.all', 'ContainerOperand.any', 'ContainerOperand.cumsum', 'ContainerOperand.cumprod'],
    'static_frame.core.type_blocks': ['TypeBlocks.ufunc_axis_skipna', 'TypeBlocks._blocks_to_array'],
    'static_frame.core.frame': ['Frame._ufunc_axis_skipna', 'Frame._ufunc_shape_skipna', 'Frame.loc_min', 'Frame.iloc_min',
                                'Frame.loc_max', 'Frame.iloc_max'],
    'static_frame.core.series': ['Series._ufunc_axis_skipna', 'Series._ufunc_shape_skipna', 'Series.loc_min', 'Series.iloc_min',
                                 'Series.loc_max', 'Series.iloc_max'],
    'static_frame.core.util': ['ufunc_axis_skipna', '_ufunc_logical_skipna', '_argminmax_1d', '_argminmax_2d'],
}
REQUIRED_ANCHORS = ['type_blocks.TypeBlocks.ufunc_axis_skipna', 'type_blocks.TypeBlocks._blocks_to_array',
                    'frame.Frame._ufunc_axis_skipna', 'frame.Frame._ufunc_shape_skipna', 'frame.Frame.loc_min', 'frame.Frame.iloc_max',
                    'series.Series._ufunc_axis_skipna', 'series.Series._ufunc_shape_skipna', 'series.Series.loc_max',
                    'util.ufunc_axis_skipna', 'util._ufunc_logical_skipna', 'util._argminmax_1d', 'util._argminmax_2d',
                    'container.ContainerOperand.median', 'container.ContainerOperand.cumprod']
REQUIRED_TALLIES = [('branch', 'unified'), ('branch', 'axis0_multi'), ('branch', 'axis1_composable'), ('branch', 'axis1_consolidate'),
                    ('branch', 'size_one_unity'), ('branch', 'shape_values'), ('branch', 'argminmax_2d'),
                    ('rows', '0'), ('rows', '1'), ('cols', '0'), ('cols', '1'),
                    ('judged', 'full'), ('judged', 'kind_only'), ('judged', 'layout_independence_only'), ('uninitialised_class', 'probed')]

FNS_REDUCE = ('sum', 'prod', 'min', 'max', 'mean', 'median', 'std', 'var', 'all', 'any')
FNS_CUM = ('cumsum', 'cumprod')
FNS_ARG = ('loc_min', 'iloc_min', 'loc_max', 'iloc_max')
FNS_UNITY = ('sum', 'min', 'max', 'mean', 'median', 'prod')  # size_one_unity=True in container.py
FNS_COMPOSABLE = ('all', 'any', 'min', 'max')
FNS_ORDER = ('min', 'max', 'median') + FNS_ARG


TECHNIQUE = 'runtime monitoring: per-line reference reductions (Python / NumPy scalar arithmetic on isolated lines) compared with Series / Frame reductions on every block layout, mechanisms keyed per input class'


def _ops():
    out = []
    for fn in FNS_REDUCE + FNS_CUM + FNS_ARG:
        for ddof in ((0, 1, 2) if fn in ('std', 'var') else (None,)):
            for axis in (0, 1):
                for skipna in (True, False):
                    out.append((fn, axis, skipna, ddof))
    return out


OPS = _ops()

# --------------------------------------------------------------------------------------
# value pools (normal, missing) per dtype

_POOLS = {
    'bool': ([True, False], []),
    'int8': ([0, 1, -1, 127, -128, 5, -7, 100, -100, 2, 3, 126], []),
    'int16': ([0, 1, -1, 32767, -32768, 300, -300, 2, 32000], []),
    'int32': ([0, 1, -1, 2 ** 31 - 1, -2 ** 31, 70000, -70000, 3], []),
    'int64': ([0, 1, -1, 12, -40, 3, 7, 100, 2 ** 31, 2 ** 40, 5, -2], []),
    'uint8': ([0, 1, 255, 250, 3, 128, 2, 200], []),
    'uint64': ([0, 1, 9, 77, 2 ** 40, 3, 2], []),
    'float16': ([0.0, 1.0, -1.0, 1.5, -2.25, 0.5, 3.0, 2.0], [float('nan')]),
    'float32': ([0.0, 1.0, -1.0, 1.5, -2.25, 0.5, 3.0, 1024.0, float('-inf')], [float('nan')]),
    'float64': ([0.0, -0.0, 1.0, -1.0, 1.5, -2.25, 1e10, -1e-10, 3.0, 0.1, 100.0, float('inf'), float('-inf'), 7.0, 2.0], [float('nan')]),
    'complex128': ([0j, 1 + 2j, -1.5j, 3 + 0j, complex(1, -1), 2 + 0j], [complex(float('nan'), 0)]),
    '<U1': (['', 'a', 'b', ' ', 'A', 'z'], []),
    '<U5': (['', ' ', 'a', 'b', 'ab', 'abc', 'zz', 'A', 'hello', '12', 'c d'], []),
    'M8[D]': (['2020-01-01', '1999-12-31', '2001-06-15', '2020-01-02', '1970-01-01'], ['NaT']),
    'M8[s]': (['2020-01-01T00:00:00', '1999-12-31T23:59:59', '2001-06-15T12:30:00'], ['NaT']),
    'm8[D]': ([0, 1, -1, 365, 7], ['NaT']),
    'object': ([1, 2.5, 0, -3, 7, 100, 1.5, 2, -0.5, 4], [None, float('nan')]),
}
_BIG_INT = {'int64': [2 ** 53 + 1, -(2 ** 53) - 1, 2 ** 53 + 3], 'uint64': [2 ** 53 + 1, 2 ** 53 + 5]}
_SMALL_INT = ['bool', 'int8', 'uint8', 'int16']
_NUMERIC = ['bool', 'int8', 'int16', 'int32', 'int64', 'uint8', 'uint64', 'float16', 'float32', 'float64', 'complex128']
_REAL = ['int8', 'int16', 'int32', 'int64', 'uint8', 'float32', 'float64']
_STRS = ['<U1', '<U5']
_DTS = ['M8[D]', 'M8[s]', 'm8[D]']
_ALL = _NUMERIC + _STRS + _DTS + ['object']
_ROWK = ['auto', 'auto', 'str', 'int', 'IndexDate', 'hier2', 'negint']
_COLK = ['str', 'str', 'int', 'auto', 'hier2']


def _element(dt, rng, p_missing, big):
    normal, missing = _POOLS[dt]
    if missing and rng.random() < p_missing:
        v = rng.choice(missing)
    elif big and dt in _BIG_INT and rng.random() < 0.3:
        v = rng.choice(_BIG_INT[dt])
    else:
        v = rng.choice(normal)
    return V.normalize(dt, v)


def _dtypes_for(strategy, nc, rng):
    if strategy == 'homog_small':
        return [rng.choice(_SMALL_INT + ['<U1', 'int8', 'uint8'])] * nc
    if strategy == 'homog':
        return [rng.choice(_ALL)] * nc
    if strategy == 'numeric':
        pool = _NUMERIC
    elif strategy == 'real':
        pool = _REAL
    elif strategy == 'bool_num':
        pool = ['bool', 'bool', 'int64', 'float64', 'int8']
    elif strategy == 'str':
        pool = _STRS
    elif strategy == 'dt':
        pool = [rng.choice(_DTS)]
    elif strategy == 'dt_units':
        pool = ['M8[D]', 'M8[s]']  # one kind, two units: every column keeps its own unit whatever the frame remembers about its rows
    elif strategy == 'obj_num':
        pool = ['object', 'object', 'float64', 'int64']
    elif strategy == 'small_mix':
        pool = ['int8', 'uint8', 'int16', 'bool']
    else:
        pool = _ALL
    dts = []
    while len(dts) < nc:
        dt = rng.choice(pool)
        dts.extend([dt] * rng.choice([1, 1, 2, 2, 3]))
    return dts[:nc]


_STRATEGIES = ['homog_small', 'homog_small', 'homog', 'numeric', 'numeric', 'real', 'real', 'bool_num', 'str', 'dt', 'obj_num',
               'small_mix', 'any', 'dt_units']


def _tame_prod(cells, axis, rng):
    """keep the exact product of the integer cells of every line within int64 (NumPy's wrap-around is not the subject)"""
    nr = len(cells)
    nc = len(cells[0]) if nr else 0
    lines = [[(i, j) for i in range(nr)] for j in range(nc)] if axis == 0 else [[(i, j) for j in range(nc)] for i in range(nr)]
    for line in lines:
        acc = 1
        # a str cell in the line: str * int is repetition (a '<U5' cell times 2**31 is a 10 GB string) -> keep the ints tiny
        bound = 4 if any(isinstance(cells[i][j], str) for i, j in line) else 2 ** 62
        for i, j in line:
            v = cells[i][j]
            if isinstance(v, int) and not isinstance(v, bool):
                if acc * max(abs(v), 1) >= bound:
                    v = cells[i][j] = rng.choice([0, 1]) if v >= 0 else -1
                acc *= max(abs(v), 1)
    return cells


def _gen_spec(rng, fn, axis, nr=None, nc=None):
    strategy = rng.choice(_STRATEGIES)
    if nr is None:
        nr = rng.choice([0, 1, 1, 2, 2, 3, 3, 4, 5, 6])
    if nc is None:
        nc = rng.choice([0, 1, 1, 2, 2, 3, 3, 4, 5])
    rk, ck = rng.choice(_ROWK), rng.choice(_COLK)
    rows, cols = L.labels_for(rk, nr, rng), L.labels_for(ck, nc, rng)
    nr, nc = len(rows), len(cols)
    dts = _dtypes_for(strategy, nc, rng)
    p_missing = rng.choice([0.0, 0.0, 0.15, 0.15, 0.5, 1.0])
    big = rng.random() < 0.08 and fn not in ('prod', 'cumprod')
    cells = [[_element(dts[j], rng, p_missing, big) for j in range(nc)] for _ in range(nr)]
    if fn in ('prod', 'cumprod'):
        cells = _tame_prod(cells, axis, rng)
    return F.FrameSpec(rows, cols, rk, ck, dts, cells, None), strategy


def _pick_layouts(dtypes, rng, limit):
    lays = F.layouts(dtypes)
    if len(lays) <= limit:
        return lays
    keep = [F.layout_all_1d(dtypes), F.layout_max_consolidated(dtypes)]
    rest = [l for l in lays if l not in keep]
    return keep + rng.sample(rest, limit - len(keep))


_MEMORY_CAP = 8 * 2 ** 30


def _cap_memory():
    """safety net: an object-dtype reduction can build arbitrarily large Python objects (str repetition, big ints); an
    address-space cap turns a runaway allocation into a MemoryError outcome instead of starving the machine."""
    try:
        import resource
        soft, hard = resource.getrlimit(resource.RLIMIT_AS)
        if soft == resource.RLIM_INFINITY or soft > _MEMORY_CAP:
            resource.setrlimit(resource.RLIMIT_AS, (_MEMORY_CAP, hard))
    except Exception:
        pass


def generate(ctx):
    _cap_memory()
    rng = ctx.rng
    ops = list(OPS)
    rng.shuffle(ops)
    limit = 6 if ctx.tier == 'quick' else 12
    n = ctx.n(24000, 240000)
    for i in range(n):
        op = ops[i % len(ops)]
        nr = nc = None
        r = rng.random()
        if r < 0.06:
            nr = 0
        elif r < 0.14:
            nr = 1
        elif r < 0.17:
            nc = 0
        spec, strategy = _gen_spec(rng, op[0], op[1], nr, nc)
        yield {'spec': spec, 'op': op, 'layouts': _pick_layouts(spec.dtypes, rng, limit), 'strategy': strategy}


def _mk(dtypes, cols_values, rows=None, row_kind=None, nrows=None):
    nr = len(cols_values[0]) if cols_values else (nrows or 0)
    cells = [[V.normalize(dtypes[j], cols_values[j][i]) for j in range(len(dtypes))] for i in range(nr)]
    return F.FrameSpec(rows if rows is not None else list(range(nr)), [f'c{j}' for j in range(len(dtypes))],
                       row_kind or ('auto' if rows is None else 'str'), 'str', dtypes, cells, None)


def probes(ctx):
    """One literal case per known finding (known_findings.json), so that every KNOWN-FINDING line is printed on every run."""
    P = []
    NAN, NAT = float('nan'), 'NaT'

    def add(spec, op, layouts):
        P.append({'spec': spec, 'op': op, 'layouts': layouts, 'strategy': 'probe'})

    L11 = [(0, 1, False), (1, 2, False)]          # two 1-D blocks
    L2 = [(0, 2, True)]                           # one 2-D block (unified)
    LD = [(0, 1, True), (1, 2, True)]             # two n x 1 blocks
    # out buffer of the row dtype: signed / unsigned / bool / str / float / complex
    add(_mk(['int8', 'int8'], [[127, 127, 5], [1, 2, 3]]), ('sum', 0, True, None), [L2, L11])
    add(_mk(['uint8', 'uint8'], [[250, 250, 3], [1, 2, 3]]), ('sum', 0, True, None), [L2, L11])
    add(_mk(['bool', 'bool'], [[True, True, True], [True, False, True]]), ('sum', 0, True, None), [L2, L11])
    add(_mk(['<U1', '<U1'], [['a', 'b', 'c'], ['x', 'y', 'z']]), ('sum', 0, True, None), [L2, L11])
    add(_mk(['int64', 'float64'], [[2 ** 53 + 1, 0], [1.5, 2.5]]), ('sum', 0, True, None), [L11])
    add(_mk(['int64', 'complex128'], [[2 ** 53 + 1, 0], [1 + 2j, 2.5 + 0j]]), ('sum', 0, True, None), [L11])
    add(_mk(['uint8', 'float16'], [[255, 255, 250, 250, 2, 0], [0.0, 0.5, 0.5, 3.0, 0.5, 1.0]]), ('std', 0, False, 0), [L11])
    add(_mk(['float64', 'complex128'], [[float('-inf'), 1.5], [3 + 0j, 0j]]), ('prod', 0, True, None), [L11])
    add(_mk(['int64', 'float64'], [[2 ** 53 + 1, 2], [1.5, 2.5]]), ('cumsum', 0, True, None), [L11])
    add(_mk(['complex128', 'complex128'], [[1 + 2j, 3 - 1j, 0j], [1j, 2j, 1 + 0j]]), ('var', 0, True, 0), [L2, L11])
    add(_mk(['bool', 'float64'], [[True, False], [NAN, NAN]]), ('min', 0, True, None), [L11])
    # size_one_unity
    add(_mk(['int64', 'float64'], [[1], [2.5]]), ('sum', 0, False, None), [L11])
    add(_mk(['int64', '<U1'], [[1], ['a']]), ('max', 0, False, None), [L11])
    # 0 rows / 0 columns
    add(_mk(['float64', 'float64'], [[], []]), ('all', 0, True, None), [L2])
    add(_mk(['float64', 'float64', 'float64'], [[], [], []]), ('any', 0, True, None), [[(0, 2, True), (2, 3, False)]])
    add(_mk(['float64', 'float64'], [[], []]), ('all', 1, True, None), [L11])
    add(_mk([], [], nrows=2), ('sum', 1, True, None), [[]])
    add(_mk(['float64', 'float64'], [[], []]), ('loc_min', 1, False, None), [L11])
    # 2-D object arrays
    add(_mk(['bool', 'int64'], [[True, False], [3, 4]]), ('median', 1, True, None), [L11])
    add(_mk(['bool', 'int64'], [[True, False], [3, 4]]), ('std', 1, True, 0), [L11])
    # arg functions
    add(_mk(['int64', 'int64'], [[3, 1, 2], [1, 5, 0]], rows=[('a', 1), ('a', 2), ('b', 1)], row_kind='hier2'), ('loc_min', 0, True, None), [L11])
    add(_mk(['float64', 'float64'], [[1.0, NAN, 3.0], [NAN, NAN, NAN]]), ('iloc_min', 0, True, None), [L11])
    # missing-value handling of the element paths (Series and Frame alike)
    add(_mk(['M8[D]', 'M8[D]'], [['2020-01-01', NAT, '1999-12-31'], ['2001-06-15', '2020-01-02', '1970-01-01']]), ('min', 0, True, None), [L2])
    add(_mk(['float32', 'm8[D]'], [[0.5, NAN], [NAT, NAT]]), ('all', 1, True, None), [L11])
    add(_mk(['object', 'object'], [[None, None], [1, 2.5]]), ('sum', 0, True, None), [L11])
    add(_mk(['object', 'object'], [[1, NAN, 2.5], [1, 2, 3]]), ('max', 0, False, None), [L2])
    add(_mk(['object', 'object'], [[1, None, 2], [1, 2, 3]]), ('cumsum', 0, True, None), [L2])
    # outside the domain: layout-dependent outcome kind
    add(_mk(['M8[D]', 'M8[D]'], [['2020-01-01', '1999-12-31'], ['2001-06-15', '2020-01-02']]), ('var', 0, True, 0), [L2, L11])
    add(_mk(['m8[D]', 'm8[D]'], [[1], [7]]), ('sum', 0, False, None), [L2, L11])
    add(_mk(['M8[D]', 'M8[D]'], [[], []]), ('all', 0, True, None), [L2, L11])
    add(_mk(['float64', 'M8[D]'], [[1.0, 2.0], ['2001-06-15', NAT]]), ('sum', 0, True, None), [L11, LD])
    add(_mk(['complex128', 'M8[D]'], [[], []]), ('max', 0, True, None), [L11, LD])
    return P


# --------------------------------------------------------------------------------------
# helpers

def _grown_frame(spec):
    import static_frame as sf
    try:
        idx = L.build_index(spec.row_kind, spec.rows)
        first = spec.cols[0] if spec.col_kind != 'auto' else 0
        fg = sf.FrameGO.from_items([(first, spec.col_array(0))], index=idx, name=spec.name)
        for j in range(1, len(spec.cols)):
            fg[spec.cols[j] if spec.col_kind != 'auto' else j] = spec.col_array(j)
        return fg
    except Exception:
        return None


def _outcome_obs(st, res):
    if st != 'ok':
        return ('exc', type(res).__name__)
    if hasattr(res, 'values') and hasattr(res, 'index'):
        return ('series', [cs(x) for x in canon.index_labels(res.index)], canon.arr_cells(np.asarray(res.values)))
    return ('value', cs(res))


def _call(fn):
    try:
        return 'ok', fn()
    except Exception as e:  # judged by the caller
        return 'exc', e


def _is_missing(v):
    return canon.is_missing(v)


def _kw(op, frame):
    fn, axis, skipna, ddof = op
    kw = {'skipna': skipna}
    if frame:
        kw['axis'] = axis
    if ddof is not None:
        kw['ddof'] = ddof
    return kw


def _line_kind(arr):
    """dtype kind of a line; object lines are in-domain only when they hold numbers / bools / None / NaN."""
    k = arr.dtype.kind
    if k != 'O':
        return k, True
    ok = all(v is None or isinstance(v, (bool, np.bool_, int, np.integer, float, np.floating)) for v in arr)
    return 'O', ok


def _in_domain(kind, numeric_obj, fn):
    if kind in 'biuf':
        return True
    if kind == 'c':
        return fn not in FNS_ORDER
    if kind == 'U':
        return fn in ('sum', 'min', 'max', 'all', 'any')
    if kind in 'Mm':
        return fn in ('min', 'max')
    if kind == 'O':
        return numeric_obj and fn in ('sum', 'prod', 'min', 'max', 'mean', 'all', 'any', 'cumsum', 'cumprod')
    return False


def _kind_domain(kind, numeric_obj, fn):
    """lines for which 'the frame must not raise when the line reduces' is judged although the value is not:
    object lines holding numbers / bools / None / NaN under median/std/var (DESIGN C15 Expect iv)."""
    return kind == 'O' and numeric_obj and fn in ('median', 'std', 'var')


def _missing_class(arr):
    if len(arr) == 0:
        return 'empty'
    flags = [_is_missing(v) for v in (arr if arr.dtype.kind in 'OMm' else arr.tolist())]
    if all(flags):
        return 'all'
    return 'some' if any(flags) else 'none'


def _magnitude(arr):
    m = 0.0
    if arr.dtype.kind in 'biufc':
        vals = arr.tolist()
    elif arr.dtype.kind == 'O':
        vals = [v for v in arr if isinstance(v, (int, float, np.integer, np.floating)) and not isinstance(v, (bool, np.bool_))]
    else:
        return 0.0
    for v in vals:
        try:
            a = abs(v)
            if a == a and a != float('inf'):
                m = max(m, float(a))
        except Exception:
            pass
    return m


def _eps(*xs):
    e = 2.3e-16
    for x in xs:
        dt = getattr(x, 'dtype', None)
        if dt is not None and dt.kind in 'fc':
            e = max(e, float(np.finfo(dt).eps))
    return e


def _tolerance(fn, n, mag, eps):
    rel = max(1e-9, 16 * eps * max(n, 1))
    if fn == 'var':
        abs_ = rel * mag * mag
    elif fn in ('prod', 'cumprod'):
        abs_ = 0.0
    else:
        abs_ = rel * mag
    return rel, max(abs_, 1e-12)


def _eq(e, g, rel, abs_, arithmetic=False):
    """expected vs got (raw elements).  bool exact (an expected int may be presented as the numerically equal
    bool); int exact (also when presented as a float); float/complex close; labels / strings / dates at label strength."""
    ce, cg = cs(e), cs(g)
    if ce == cg:
        return True
    if _is_missing(e) and _is_missing(g) and not isinstance(e, (complex, np.complexfloating)):
        return True   # NaN / NaT / None: one missing marker presented in the result's dtype
    ke, kg = ce[0], cg[0]
    if ke == 'bool' or kg == 'bool':
        if ke == 'int' and kg == 'bool':
            return int(cg[1]) == ce[1]
        if arithmetic and ke == 'bool' and kg == 'int':   # sum / prod of bools: True/False or the equal 1/0
            return int(ce[1]) == cg[1]
        return False
    num = ('int', 'float', 'complex')
    if ke in num and kg in num:
        if ke == 'int':
            return canon.veq(ce, cg)
        return canon.ceq(ce, cg, rel, abs_)
    return canon.leq(ce, cg)


# --------------------------------------------------------------------------------------
# reference (2): NumPy on the raw numeric line / plain-Python model from the statement

_NP = {
    'sum': (np.sum, np.nansum), 'prod': (np.prod, np.nanprod), 'min': (np.min, np.nanmin), 'max': (np.max, np.nanmax),
    'mean': (np.mean, np.nanmean), 'median': (np.median, np.nanmedian), 'std': (np.std, np.nanstd), 'var': (np.var, np.nanvar),
    'cumsum': (np.cumsum, np.nancumsum), 'cumprod': (np.cumprod, np.nancumprod),
}


def _truth(v):
    if isinstance(v, (str, np.str_)):
        return v != ''
    return bool(v)


def _model(arr, labels, op):
    """-> ('val', x) | ('arr', list) | ('exc',) | ('miss_or_exc',) | ('free',) (statement silent) | None (not modelled)."""
    fn, _, skipna, ddof = op
    kind = arr.dtype.kind
    elems = list(arr) if kind in 'OMm' else arr.tolist()
    miss = [_is_missing(v) for v in elems]
    if fn in ('all', 'any'):
        if any(miss) and not skipna:
            return ('exc',)
        vals = [_truth(v) for v, m in zip(elems, miss) if not m]
        return ('val', all(vals) if fn == 'all' else any(vals))
    if fn in FNS_ARG:
        if kind not in 'biuf':
            return None
        if not elems:
            return ('free',)
        if all(miss) or (any(miss) and not skipna):
            return ('exc',) if fn.startswith('loc') else ('val', float('nan'))
        cand = [(v, i) for i, (v, m) in enumerate(zip(elems, miss)) if not m]
        if any(miss) and all(v == (float('inf') if fn.endswith('min') else float('-inf')) for v, _ in cand):
            return ('free',)   # NumPy's nanarg* fill NaN with +-inf: ties with a genuine +-inf extreme are its documented quirk
        best = cand[0]
        for v, i in cand[1:]:
            if (v < best[0]) if fn.endswith('min') else (v > best[0]):
                best = (v, i)
        return ('val', best[1] if fn.startswith('iloc') else labels[best[1]])
    if kind in 'biufc':
        f = _NP[fn][1 if skipna else 0]
        kw = {'ddof': ddof} if ddof is not None else {}
        st, r = _call(lambda: f(arr, **kw))
        if st == 'exc':
            return ('exc',)
        if fn in FNS_CUM:
            return ('arr', list(r))
        return ('val', r)
    if kind == 'U':
        if fn == 'sum':
            return ('val', ''.join(elems)) if elems else ('free',)   # the empty sum of strings: statement silent ('' or 0)
        if fn in ('min', 'max'):
            if not elems:
                return ('exc',)
            return ('val', min(elems) if fn == 'min' else max(elems))
        return None
    if kind in 'Mm':
        if fn not in ('min', 'max'):
            return None
        if not elems:
            return ('exc',)
        if any(miss) and not skipna:
            return ('miss_or_exc',)
        vals = [v for v, m in zip(elems, miss) if not m]
        if not vals:
            return ('miss_or_exc',)
        return ('val', min(vals) if fn == 'min' else max(vals))
    if kind == 'O':
        if any(miss) and not skipna:
            if fn in FNS_CUM:
                return None
            return ('miss_or_exc',)
        vals = [v for v, m in zip(elems, miss) if not m]
        if fn == 'sum':
            return ('val', sum(vals))
        if fn == 'prod':
            return ('val', math.prod(vals))
        if fn in ('min', 'max'):
            if not elems:
                return ('exc',)
            if not vals:
                return ('miss_or_exc',)
            return ('val', min(vals) if fn == 'min' else max(vals))
        if fn == 'mean':
            if not vals:
                return ('miss_or_exc',)
            return ('val', sum(vals) / len(vals))
        if fn in FNS_CUM:
            acc, out = (0 if fn == 'cumsum' else 1), []
            for v, m in zip(elems, miss):
                if not m:
                    acc = acc + v if fn == 'cumsum' else acc * v
                out.append(acc)
            return ('arr', out)
    return None


# --------------------------------------------------------------------------------------

class _Line:
    __slots__ = ('arr', 'kind', 'numeric_obj', 'in_domain', 'kind_domain', 'missing', 'mag', 'ref', 'model', 'big_int', 'holds_bool',
                 'degenerate', 'expect', 'ref_bad')


def _lines(spec, ref_frame, op, n_line):
    """The isolated lines (1-D Series) along the reduced axis, with the outcome of the library's 1-D path (`ref`),
    the model's verdict (`model`) and the outcome the frame is judged against (`expect`)."""
    import static_frame as sf
    fn, axis, skipna, ddof = op
    nr, nc = spec.shape
    out = []
    if axis == 0:
        idx = L.build_index(spec.row_kind, spec.rows)
        series = [sf.Series(spec.col_array(j), index=idx) for j in range(nc)]
        labels = list(spec.rows)
    else:
        series = [ref_frame.iloc[r] for r in range(nr)]
        labels = list(spec.cols)
    for s in series:
        ln = _Line()
        ln.arr = s.values
        ln.kind, ln.numeric_obj = _line_kind(ln.arr)
        ln.in_domain = _in_domain(ln.kind, ln.numeric_obj, fn)
        ln.kind_domain = ln.in_domain or _kind_domain(ln.kind, ln.numeric_obj, fn)
        ln.missing = _missing_class(ln.arr)
        ln.mag = _magnitude(ln.arr)
        ln.big_int = any(isinstance(v, (int, np.integer)) and not isinstance(v, (bool, np.bool_)) and abs(int(v)) > 2 ** 53
                         for v in (ln.arr.tolist() if ln.arr.dtype.kind in 'iuO' else ()))
        ln.holds_bool = ln.kind == 'b' or (ln.kind == 'O' and any(isinstance(v, (bool, np.bool_)) for v in ln.arr))
        st, r = _call(lambda: getattr(s, fn)(**_kw(op, False)))
        if st == 'exc':
            ln.ref = ('exc', type(r).__name__)
        elif fn in FNS_CUM:
            ln.ref = ('arr', list(r.values), r.values.dtype)
        else:
            ln.ref = ('val', r)
        ln.degenerate = False
        if fn in ('std', 'var'):
            elems = list(ln.arr) if ln.kind in 'OMm' else ln.arr.tolist()
            n_eff = sum(1 for v in elems if not _is_missing(v)) if skipna else len(elems)
            ln.degenerate = n_eff - ddof <= 0   # division by a non-positive count: NumPy answers nan or inf by input dtype
        ln.model = _model(ln.arr, labels, op) if ln.in_domain and not ln.degenerate else None
        ln.expect, ln.ref_bad = ln.ref, None
        if ln.model is not None:
            rel, abs_ = _tolerance(fn, n_line, ln.mag, _eps(ln.ref[1] if ln.ref[0] == 'val' else None))
            ln.ref_bad = _against_model(ln.ref, ln.model, rel, abs_)
            if ln.ref_bad:
                # the library's own 1-D path violates the statement (reported once per case); judge the frame by the model
                m = ln.model
                ln.expect = {'val': lambda: ('val', m[1]), 'arr': lambda: ('arr', list(m[1]), np.dtype('float64')),
                             'exc': lambda: ('exc', '*'), 'miss_or_exc': lambda: ('miss_or_exc',)}[m[0]]()
            elif ln.model[0] == 'miss_or_exc':
                ln.expect = ('miss_or_exc',)
        out.append(ln)
    return out, labels


def _block_of(lay, j):
    for a, b, two_d in lay:
        if a <= j < b:
            return '1d' if not two_d else ('2d1' if b - a == 1 else '2dN')
    return None


def _fits(v, dtype):
    """can the expected result be held by `dtype` (the out buffer's dtype)?  A property of the input."""
    try:
        if dtype.kind in 'iu':
            if isinstance(v, (bool, np.bool_)):
                return True
            if isinstance(v, (int, np.integer)):
                info = np.iinfo(dtype)
                return info.min <= int(v) <= info.max
            return False
        if dtype.kind == 'b':
            return isinstance(v, (bool, np.bool_))
        if dtype.kind == 'U':
            return isinstance(v, str) and len(v) <= dtype.itemsize // 4
        if dtype.kind == 'c':
            if isinstance(v, (int, np.integer)) and not isinstance(v, (bool, np.bool_)):
                return _fits(v, np.dtype(f'float{dtype.itemsize * 4}'))
            return True
        if dtype.kind == 'f':
            if isinstance(v, (int, np.integer)) and not isinstance(v, (bool, np.bool_)):
                with np.errstate(all='ignore'):
                    x = float(np.array(int(v), dtype=object).astype(dtype))
                return math.isfinite(x) and int(x) == int(v)   # exactly representable (2**53 / 2**24 / 2**11 and beyond)
            return not isinstance(v, (complex, np.complexfloating))
    except Exception:
        return None
    return True


def _base_klass(case, spec, lay, row_dtype):
    fn, axis, skipna, ddof = case['op']
    nr, nc = spec.shape
    return {'fn': fn, 'axis': axis, 'skipna': skipna, 'ddof': ddof,
            'layout': 'unified' if len(lay) <= 1 else 'multi',
            'nrows': str(nr) if nr < 2 else '2+', 'ncols': str(nc) if nc < 2 else '2+',
            'row_kind': row_dtype.kind if row_dtype is not None else None,
            'row_dtype': str(row_dtype) if row_dtype is not None else None,
            'kinds': ''.join(sorted({np.dtype(d).kind for d in spec.dtypes})),
            'has_2d_block': any(t for _, _, t in lay), 'has_width1_block': any(b - a == 1 for a, b, _ in lay),
            'index_kind': spec.row_kind if axis == 0 else spec.col_kind,
            'other_index_kind': spec.col_kind if axis == 0 else spec.row_kind}


def _line_klass(base, ln, lay, j, axis, row_dtype):
    k = dict(base)
    k.update(line_kind=ln.kind, line_dtype=str(ln.arr.dtype), line_missing=ln.missing, in_domain=ln.in_domain,
             big_int=ln.big_int, holds_bool=ln.holds_bool, series_path_ok=not ln.ref_bad,
             has_inf=bool(ln.kind in 'fc' and np.isinf(ln.arr).any()))
    if axis == 0:
        k['block'] = _block_of(lay, j)
    if ln.expect[0] == 'val' and row_dtype is not None:
        k['ref_fits_row_dtype'] = _fits(ln.expect[1], row_dtype)
    elif ln.expect[0] == 'arr' and row_dtype is not None:
        k['ref_fits_row_dtype'] = all(_fits(v, row_dtype) for v in ln.expect[1])
    return k


def _frame_klass(base, lines, row_dtype, full, **extra):
    k = dict(base, in_domain=full,
             line_kinds=''.join(sorted({ln.kind for ln in lines})),
             lines_missing=_agg_missing(lines),
             lines_hold_bool=any(ln.holds_bool for ln in lines),
             any_ref_unfit=any(ln.expect[0] == 'val' and row_dtype is not None and _fits(ln.expect[1], row_dtype) is False for ln in lines))
    k.update(extra)
    return k


def _row_dtype(ref_frame):
    try:
        return ref_frame._blocks._row_dtype
    except Exception:
        return None


def _uninitialised_probe(f, fn, skipna):
    """0-row logical reduction of a multi-block frame: does the block-level function write into the `out` it is
    given?  Deterministic observation of the mechanism (the frame's values for those cells vary run to run).
    -> list of (start, stop) column ranges the library leaves unwritten."""
    from static_frame.core import util as U
    func = {('all', True): U.ufunc_nanall, ('all', False): U.ufunc_all,
            ('any', True): U.ufunc_nanany, ('any', False): U.ufunc_any}[(fn, skipna)]
    expected = fn == 'all'
    unwritten, pos = [], 0
    for b in f._blocks._blocks:
        w = 1 if b.ndim == 1 else b.shape[1]
        if b.ndim == 2:
            out = np.full(w, not expected, dtype=bool)
            _call(lambda: func(b, axis=0, out=out))
            if not bool((out == expected).all()):
                unwritten.append((pos, pos + w))
        pos += w
    return unwritten


def check(case, ctx):
    _cap_memory()
    spec, op = case['spec'], case['op']
    fn, axis, skipna, ddof = op
    nr, nc = spec.shape
    ref_frame = F.build_frame(spec, F.layout_all_1d(spec.dtypes))
    row_dtype = _row_dtype(ref_frame)
    n_line = nr if axis == 0 else nc          # cells per line
    lines, line_labels = _lines(spec, ref_frame, op, n_line)
    other = spec.cols if axis == 0 else spec.rows
    exp_labels = tuple(cs(l) for l in other)
    if lines:
        full = all(ln.in_domain for ln in lines)
        kind_judged = all(ln.kind_domain for ln in lines)
    elif axis == 1 and row_dtype is not None:
        full = kind_judged = _in_domain(row_dtype.kind, True, fn)   # no rows: the function must be defined for the row dtype
    else:
        full = kind_judged = True

    ctx.tally('fn', fn)
    ctx.tally('op', f'{fn}/axis{axis}/skipna={skipna}' + (f'/ddof={ddof}' if ddof is not None else ''))
    ctx.tally('strategy', case.get('strategy'))
    ctx.tally('rows', str(nr) if nr < 2 else '2+')
    ctx.tally('cols', str(nc) if nc < 2 else '2+')
    ctx.tally('kinds', ''.join(sorted({np.dtype(d).kind for d in spec.dtypes})) or '-')
    ctx.tally('row_dtype', str(row_dtype))
    if fn in FNS_ARG and n_line == 0:
        ctx.tally('not_judged', 'arg_function_on_empty_lines(statement silent)')
        return
    ctx.tally('judged', 'full' if full else ('kind_only' if kind_judged else 'layout_independence_only'))
    for ln in lines:
        ctx.tally('line_kind', f'{ln.kind}/{ln.missing}')
        ctx.tally('line_expectation', ln.expect[0] if ln.in_domain else 'outside_domain:' + ln.ref[0])
        if ln.degenerate:
            ctx.tally('not_judged', 'std/var with ddof >= count (value undefined, must be non-finite)')
    ctx.sample({'frame': spec.brief(), 'op': list(op), 'layouts': [F.layout_name(l) for l in case['layouts']]})

    seen = set()

    def violate(what, klass, **detail):
        key = (what, repr(sorted(klass.items(), key=lambda kv: kv[0])))
        if key in seen:
            return
        seen.add(key)
        ctx.violation(what, detail=detail, klass=klass)

    # ---- reference (1) against reference (2): the Series path itself must satisfy the statement
    for j, ln in enumerate(lines):
        if ln.model is None:
            continue
        ctx.tally('model', ln.model[0])
        if ln.ref_bad:
            k = _line_klass(_base_klass(case, spec, [], row_dtype), ln, [], j, axis, None)
            k.update(layout='series', model_expects=ln.model[0])
            for key in ('row_kind', 'row_dtype', 'kinds', 'has_2d_block', 'has_width1_block', 'other_index_kind', 'block', 'ncols', 'nrows'):
                k.pop(key, None)
            k['line_len'] = str(n_line) if n_line < 2 else '2+'
            violate('series_path_differs_from_model', k, line=j, line_values=canon.brief(canon.arr_cells(ln.arr), 300),
                    series_result=_show(ln.ref), model=_show(ln.model), reason=ln.ref_bad)

    raising = sorted({ln.expect[1] for ln in lines if ln.expect[0] == 'exc'})
    may_raise = bool(raising) or any(ln.expect[0] in ('miss_or_exc', 'unjudged') for ln in lines)
    ctx.tally('expected_kind', ('exception:' + ','.join(raising)) if raising else ('value_or_rejection' if may_raise else 'value'))

    kinds_seen = {}
    for lay in case['layouts']:
        f = F.build_frame(spec, lay)
        base = _base_klass(case, spec, lay, row_dtype)
        ctx.evaluation((repr(spec), op, repr(lay)), n_line >= 2 and len(lines) >= 1)
        ctx.tally('layout', 'unified' if len(lay) <= 1 else 'multi')
        ctx.tally('layout_blocks', len(lay))
        _tally_branch(ctx, fn, axis, skipna, nr, lay)

        skip_cols = set()
        if fn in ('all', 'any') and axis == 0 and nr == 0 and len(lay) > 1 and any(t for _, _, t in lay):
            ctx.tally('uninitialised_class', 'probed')
            unwritten = _uninitialised_probe(f, fn, skipna)
            if unwritten:
                for a, b in unwritten:
                    skip_cols.update(range(a, b))
                violate('zero_row_logical_out_not_written',
                        dict(base, block='2d', unwritten_kinds=''.join(sorted({np.dtype(spec.dtypes[c]).kind for a, b in unwritten for c in range(a, b)}))),
                        layout=F.layout_name(lay), unwritten_columns=unwritten,
                        note='block-level function returns a Python bool and leaves out= untouched; frame cells are uninitialised memory')

        st, res = _call(lambda: getattr(f, fn)(**_kw(op, True)))
        kinds_seen[F.layout_name(lay)] = st if st == 'ok' else 'exc:' + type(res).__name__

        if nc >= 2 and all(b - a == 1 and not t for a, b, t in lay) and not str(spec.col_kind).startswith('hier'):
            # the same columns as a grow-only frame that received them one at a time: same blocks, so the same reduction
            # (what a frame caches while it grows, e.g. its row dtype, must describe the columns it now holds)
            fg = _grown_frame(spec)
            if fg is not None:
                ctx.tally('layout', 'grown_one_column_at_a_time')
                st2, res2 = _call(lambda: getattr(fg, fn)(**_kw(op, True)))
                o1, o2 = _outcome_obs(st, res), _outcome_obs(st2, res2)
                if o1 != o2:
                    try:
                        widened = fg.values.dtype.kind == 'O' and f.values.dtype.kind != 'O'
                    except Exception:
                        widened = None
                    violate('grown_frame_reduces_differently', dict(base, layout='grown', grown_rows_consolidate_to_object=widened),
                            built=canon.brief(o1, 400), grown=canon.brief(o2, 400))

        if st == 'exc':
            ename = type(res).__name__
            if not kind_judged:
                ctx.tally('not_judged', 'outside_domain:frame_raises')
            elif not may_raise:
                violate('frame_raised_but_lines_reduce', _frame_klass(base, lines, row_dtype, full, exception=ename),
                        layout=F.layout_name(lay), exception=ename, message=str(res)[:300], lines=[_show(ln.expect) for ln in lines][:8])
            elif full and raising and '*' not in raising and ename not in raising \
                    and not any(ln.expect[0] in ('miss_or_exc', 'unjudged') for ln in lines):
                violate('exception_class_mismatch', _frame_klass(base, lines, row_dtype, full, exception=ename, line_exceptions=','.join(raising)),
                        layout=F.layout_name(lay), exception=ename, message=str(res)[:300], line_exceptions=raising)
            else:
                ctx.tally('expected_errors', ename)
            continue

        # the frame returned
        if raising:
            if full:
                j = next(i for i, ln in enumerate(lines) if ln.expect[0] == 'exc')
                k = _line_klass(base, lines[j], lay, j, axis, row_dtype)
                k['line_exception'] = lines[j].expect[1]
                violate('frame_returned_but_line_raises', k, layout=F.layout_name(lay), line=j,
                        line_exception=lines[j].expect[1], got=canon.brief(canon.snap(res), 500))
            else:
                ctx.tally('not_judged', 'outside_domain:frame_value_where_line_raises')
            continue
        if fn in FNS_CUM:
            _judge_cum(ctx, case, spec, lay, base, res, lines, exp_labels, full, violate, row_dtype)
        else:
            _judge_series(ctx, case, spec, lay, base, res, lines, exp_labels, full, violate, row_dtype, skip_cols, n_line)

    if not full and len({v.split(':')[0] for v in kinds_seen.values()}) > 1:
        k = _frame_klass(_base_klass(case, spec, [], row_dtype), lines, row_dtype, full, layout='across')
        violate('layout_dependent_outcome_kind', k, outcomes=kinds_seen)


def _agg_missing(lines):
    ms = {ln.missing for ln in lines}
    if not ms:
        return 'no_lines'
    if ms <= {'none'}:
        return 'none'
    if 'all' in ms:
        return 'some_line_all'
    if 'empty' in ms:
        return 'empty'
    return 'some'


def _tally_branch(ctx, fn, axis, skipna, nr, lay):
    if fn in FNS_CUM:
        ctx.tally('branch', 'shape_values')
        return
    if fn in FNS_ARG:
        ctx.tally('branch', 'argminmax_2d')
        return
    if len(lay) <= 1:
        ctx.tally('branch', 'unified')
        return
    if axis == 0:
        ctx.tally('branch', 'axis0_multi')
    elif fn in FNS_COMPOSABLE:
        ctx.tally('branch', 'axis1_composable')
    else:
        ctx.tally('branch', 'axis1_consolidate')
        return
    if nr == 1 and not skipna and fn in FNS_UNITY and any(b - a == 1 for a, b, _ in lay):
        ctx.tally('branch', 'size_one_unity')


def _show(ref):
    if ref is None:
        return None
    if ref[0] == 'val':
        return ['val', canon.brief(cs(ref[1]), 200)]
    if ref[0] == 'arr':
        return ['arr', canon.brief([cs(v) for v in ref[1]], 300)]
    return list(ref)


def _against_model(ref, model, rel, abs_):
    """None when the library 1-D result satisfies the model, else a reason."""
    m = model[0]
    if m == 'free':
        return None
    if m == 'exc':
        return None if ref[0] == 'exc' else 'model: must be rejected; the Series path returned a value'
    if m == 'miss_or_exc':
        if ref[0] == 'exc' or (ref[0] == 'val' and _is_missing(ref[1])):
            return None
        return 'model: a missing cell must propagate or be rejected; the Series path returned a present value'
    if ref[0] == 'exc':
        return f'model: a value; the Series path raised {ref[1]}'
    if m == 'val':
        if ref[0] != 'val' or not _eq(model[1], ref[1], rel, abs_):
            return 'value differs'
        return None
    if m == 'arr':
        if ref[0] != 'arr' or len(ref[1]) != len(model[1]) or not all(_eq(e, g, rel, abs_) for e, g in zip(model[1], ref[1])):
            return 'cumulative values differ'
    return None


def _judge_series(ctx, case, spec, lay, base, res, lines, exp_labels, full, violate, row_dtype, skip_cols, n_line):
    import static_frame as sf
    fn, axis, skipna, ddof = case['op']
    if not isinstance(res, sf.Series):
        violate('result_not_a_series', dict(base), got=type(res).__name__)
        return
    vals = res.values
    got_labels = canon.snap_index(res.index)['labels']
    if vals.ndim != 1 or len(vals) != len(lines) or tuple(got_labels) != exp_labels:
        violate('result_labels_mismatch', dict(base), layout=F.layout_name(lay), expected=exp_labels, got=got_labels,
                shape=list(vals.shape))
        return
    if not full:
        return
    got = canon.arr_values(vals)
    for j, ln in enumerate(lines):
        if j in skip_cols:
            ctx.tally('not_judged', 'uninitialised_cell_value')
            continue
        g = got[j]
        e = ln.expect
        if e[0] == 'unjudged':
            continue
        if e[0] == 'miss_or_exc':
            if not _is_missing(g):
                violate('missing_treated_as_number', dict(_line_klass(base, ln, lay, j, axis, row_dtype), got_is_array=isinstance(g, np.ndarray)),
                        layout=F.layout_name(lay), line=j,
                        line_values=canon.brief(canon.arr_cells(ln.arr), 300), got=canon.brief(cs(g), 200))
            else:
                ctx.tally('cells_agreed', ln.kind)
            continue
        rel, abs_ = _tolerance(fn, n_line, ln.mag, _eps(e[1], vals))
        if ln.degenerate:
            ok = isinstance(g, (float, np.floating)) and not math.isfinite(g)
        else:
            ok = _eq(e[1], g, rel, abs_, fn in ('sum', 'prod'))
        if not ok:
            k = _line_klass(base, ln, lay, j, axis, row_dtype)
            k['got_is_array'] = isinstance(g, np.ndarray)
            violate('cell_mismatch', k, layout=F.layout_name(lay), line=j, line_values=canon.brief(canon.arr_cells(ln.arr), 300),
                    expected=cs(e[1]), got=canon.brief(cs(g), 300), result_dtype=str(vals.dtype))
        else:
            ctx.tally('cells_agreed', ln.kind)


def _judge_cum(ctx, case, spec, lay, base, res, lines, exp_labels, full, violate, row_dtype):
    import static_frame as sf
    fn, axis, skipna, ddof = case['op']
    nr, nc = spec.shape
    if not isinstance(res, sf.Frame):
        violate('result_not_a_frame', dict(base), got=type(res).__name__)
        return
    rl = tuple(canon.snap_index(res.index)['labels'])
    cl = tuple(canon.snap_index(res.columns)['labels'])
    if res.shape != (nr, nc) or rl != tuple(cs(l) for l in spec.rows) or cl != tuple(cs(l) for l in spec.cols):
        violate('cumulative_shape_or_labels_changed', dict(base), layout=F.layout_name(lay), shape=list(res.shape),
                index=rl, columns=cl)
        return
    if not full:
        return
    v = res.values
    for j, ln in enumerate(lines):
        e = ln.expect
        if e[0] != 'arr':
            continue
        g = canon.arr_values(v[:, j] if axis == 0 else v[j]) if v.ndim == 2 else []
        rel, abs_ = _tolerance(fn, len(ln.arr), ln.mag, _eps(v, np.empty(0, e[2])))
        if len(g) != len(e[1]) or not all(_eq(x, y, rel, abs_, True) for x, y in zip(e[1], g)):
            k = _line_klass(base, ln, lay, j, axis, row_dtype)
            k['values_kind'] = v.dtype.kind
            violate('cell_mismatch', k, layout=F.layout_name(lay), line=j, line_values=canon.brief(canon.arr_cells(ln.arr), 300),
                    expected=canon.brief([cs(x) for x in e[1]], 300), got=canon.brief([cs(x) for x in g], 300),
                    result_dtype=str(v.dtype))
        else:
            ctx.tally('cells_agreed', ln.kind)
