"""C10 — equals is a content equivalence (with exactly the stated options); the HE variants honour
the hash contract."""
import itertools

import numpy as np

from sfmon import canon
from sfmon.canon import cs
from sfmon.gen import frames as F
from sfmon.gen import labels as L
from sfmon.gen import values as V

PROPERTY = 'C10'
RULE = ('cases = a base container (Series, Frame, Index, IndexHierarchy, Bus and their HE / GO classes) built from a spec plus a list of '
        'single-difference variants (one cell, one label, one dtype with equal values, container name, index name, class, block layout, '
        'NaN / None / NaT placed on one side or both, permuted labels, 0-size); every ordered pair of {base, variants} is evaluated '
        'under all 16 combinations of compare_name / compare_dtype / compare_class / skipna against the reference predicate, both '
        'directions, and every triple is checked for transitivity; HE pairs additionally for ==, !=, hash, set and dict behaviour. '
        'non-trivial = the pair is not the same object; distinct = hash of (base spec, variant pair, options)')
EXPLANATION = 'reference predicate: same kind and shape, labels pairwise == in order on every axis, cells pairwise == where two self-unequal missing values (NaN/NaT) count equal iff skipna; compare_name / compare_dtype / compare_class each add that conjunct (recursively on the indices)'
EXHAUSTIVE = {'quick': False, 'thorough': False}
ASSUMPTIONS = ['None == None is ordinary equality regardless of skipna', 'cell / label equality is NumPy/Python == on the elements (1 == 1.0 == True)',
               'the identical object is always equal to itself (reflexivity)']
TIERS = {'quick': {'shards': 8, 'budget_s': 150, 'min_nontrivial': 10000},
         'thorough': {'shards': 16, 'budget_s': 1500, 'min_nontrivial': 300000}}
ANCHORS = {
    'static_frame.core.type_blocks': ['TypeBlocks.equals'],
    'static_frame.core.frame': ['Frame.equals', 'FrameHE.__eq__', 'FrameHE.__ne__', 'FrameHE.__hash__'],
    'static_frame.core.series': ['Series.equals', 'SeriesHE.__eq__', 'SeriesHE.__ne__', 'SeriesHE.__hash__'],
    'static_frame.core.index': ['Index.equals'],
    'static_frame.core.index_hierarchy': ['IndexHierarchy.equals'],
    'static_frame.core.index_level': ['IndexLevel.equals'],
    'static_frame.core.bus': ['Bus.equals'],
}
REQUIRED_ANCHORS = ['type_blocks.TypeBlocks.equals', 'frame.Frame.equals', 'series.Series.equals', 'index.Index.equals',
                    'index_hierarchy.IndexHierarchy.equals', 'bus.Bus.equals', 'frame.FrameHE.__hash__', 'series.SeriesHE.__hash__']

OPTS = list(itertools.product([False, True], repeat=4))  # name, dtype, class, skipna
_DT = ['int64', 'float64', 'bool', '<U5', 'object', 'M8[D]']


TECHNIQUE = 'runtime monitoring: executable equivalence relation R(a, b, options) compared with equals() on all ordered pairs of variants, symmetry / transitivity on the answers, and the hash contract of the HE classes'


def probes(ctx):
    nat = np.datetime64('NaT', 'D')
    d = np.datetime64('2020-01-01')
    return [
        {'kind': 'frame', 'seed': 1, 'spec': F.FrameSpec(['r', 's'], [], 'str', 'auto', [], [[], []], 'n')},
        {'kind': 'frame', 'seed': 2, 'spec': F.FrameSpec([0, 1], [15, 21, 20, 29], 'auto', 'int', ['M8[D]', 'M8[D]', 'int64', 'int64'],
                                                     [[d, nat, -40, 3], [d, d, -40, 3]], 'n')},
    ]


def generate(ctx):
    rng = ctx.rng
    for _ in range(ctx.n(360, 12000)):
        kind = rng.choice(['series', 'series', 'frame', 'frame', 'frame', 'index', 'hier', 'bus', 'hier_product'])
        case = {'kind': kind, 'seed': rng.randrange(1 << 30)}
        if kind == 'hier_product':
            # hierarchies built by from_product share one Index object between the branches of a level; the same labels built by
            # from_labels do not: equality has to look at every branch pair whatever is shared
            depth = rng.choice([2, 2, 3])
            pools = [['a', 'b', 'c'], [1, 2, 3], ['x', 'y', 'z']]
            case['levels'] = [rng.sample(pools[d], rng.choice([2, 2, 3])) for d in range(depth)]
            yield case
            continue
        if kind == 'frame' or kind == 'bus':
            spec = F.random_spec(rng, max_rows=4, max_cols=4, min_cols=0, dtypes=_DT if rng.random() < 0.88 else ['int64', 'float64'],
                                 row_kinds=['auto', 'str', 'int', 'IndexDate', 'hier2'],
                                 col_kinds=['str', 'int', 'auto'], name_pool=(None, 'n'))
            # sprinkle missing values
            case['spec'] = spec
        elif kind == 'series':
            case['spec'] = F.random_series_spec(rng, max_n=5, dtypes=_DT, kinds=['auto', 'str', 'int', 'IndexDate', 'hier2', 'float'])
        elif kind == 'index':
            k = rng.choice(['int', 'str', 'float', 'range', 'dt64', 'IndexDate', 'mixed'])
            case['ikind'] = k
            case['labels'] = L.flat_labels(k, rng.randint(0, 5), rng)
        else:
            case['labels'] = L.tree_labels(rng.choice([2, 3]), rng.choice([1, 2, 4, 6]), rng)
            if not case['labels']:
                continue
        yield case


# --------------------------------------------------------------------------------------
# variants: (description, container)

def _variants(case, rng):
    import static_frame as sf
    kind = case['kind']
    out = []
    if kind == 'series':
        spec = case['spec']
        base = F.build_series(spec)
        out.append(('base', base))
        out.append(('rebuilt', F.build_series(spec)))
        out.append(('he', F.build_series(spec, cls=sf.SeriesHE)))
        out.append(('he2', F.build_series(spec, cls=sf.SeriesHE)))
        out.append(('renamed', base.rename('OTHER')))
        n = len(spec.labels)
        if n:
            i = rng.randrange(n)
            vals = list(spec.values)
            vals[i] = _different(vals[i], spec.dtype, rng)
            out.append(('cell_changed', F.build_series(F.SeriesSpec(spec.labels, spec.kind, spec.dtype, vals, spec.name))))
            if spec.dtype in ('float64', 'object', 'M8[D]'):
                miss = list(spec.values)
                miss[i] = _missing(spec.dtype, rng)
                out.append(('missing_a', F.build_series(F.SeriesSpec(spec.labels, spec.kind, spec.dtype, miss, spec.name))))
                out.append(('missing_b', F.build_series(F.SeriesSpec(spec.labels, spec.kind, spec.dtype, miss, spec.name), cls=sf.SeriesHE)))
            if spec.kind in ('str', 'int', 'float') and n:
                labs = list(spec.labels)
                labs[i] = 'ZZZ' if spec.kind == 'str' else 99999
                out.append(('label_changed', F.build_series(F.SeriesSpec(labs, spec.kind, spec.dtype, spec.values, spec.name))))
            if n >= 2 and spec.kind in ('str', 'int', 'float'):
                order = list(range(n))[::-1]
                out.append(('reversed', F.build_series(F.SeriesSpec([spec.labels[j] for j in order], spec.kind, spec.dtype, [spec.values[j] for j in order], spec.name))))
            if spec.kind not in ('auto',) and not spec.kind.startswith('hier'):
                out.append(('index_renamed', sf.Series(base.values, index=base.index.rename('IDX'), name=base.name)))
        if spec.dtype == 'int64' and all(isinstance(v, int) and abs(v) < 2 ** 31 for v in spec.values):
            out.append(('dtype_float', base.astype(float)))
            out.append(('dtype_int32', base.astype(np.int32)))
        if spec.dtype in ('bool', '<U5'):
            out.append(('dtype_object', base.astype(object)))
        out.append(('empty', sf.Series((), dtype=base.values.dtype)))
        # the same labels in another representation that equality (without dtype / class comparison) may regard as equal:
        # whenever == answers True for two HE containers their hashes have to agree
        for tag, idx in _relabelled_indices(base.index, spec.kind):
            out.append((tag, sf.SeriesHE(base.values, index=idx, name=base.name)))
        return out
    if kind in ('frame', 'bus'):
        spec = case['spec']
        lays = F.layouts(spec.dtypes)
        base = F.build_frame(spec, lays[0])
        if kind == 'bus':
            other = F.build_frame(spec, lays[-1]).rename('f2')
            b1 = sf.Bus.from_frames((base.rename('f1'), other))
            b2 = sf.Bus.from_frames((base.rename('f1'), other))
            out = [('base', b1), ('rebuilt', b2), ('renamed', b1.rename('OTHERBUS')), ('reordered', sf.Bus.from_frames((other, base.rename('f1')))),
                   ('relabelled', sf.Bus.from_frames((base.rename('f1'), other.rename('f3')))), ('one_frame', sf.Bus.from_frames((base.rename('f1'),)))]
            nr, nc = spec.shape
            if nr and nc:
                cells = [list(r) for r in spec.cells]
                cells[0][0] = _different(cells[0][0], spec.dtypes[0], rng)
                ch = F.build_frame(F.FrameSpec(spec.rows, spec.cols, spec.row_kind, spec.col_kind, spec.dtypes, cells, spec.name), lays[0])
                out.append(('cell_changed', sf.Bus.from_frames((ch.rename('f1'), other))))
            return out
        out.append(('base', base))
        out.append(('layout', F.build_frame(spec, lays[-1])))
        if len(lays) > 2:
            out.append(('layout2', F.build_frame(spec, rng.choice(lays[1:-1]))))
        out.append(('he', F.build_frame(spec, rng.choice(lays), cls=sf.FrameHE)))
        out.append(('he2', F.build_frame(spec, rng.choice(lays), cls=sf.FrameHE)))
        out.append(('go', F.build_frame(spec, lays[0], cls=sf.FrameGO)))
        out.append(('renamed', base.rename('OTHER')))
        nr, nc = spec.shape
        if nr and nc:
            r, c = rng.randrange(nr), rng.randrange(nc)
            cells = [list(row) for row in spec.cells]
            cells[r][c] = _different(cells[r][c], spec.dtypes[c], rng)
            out.append(('cell_changed', F.build_frame(F.FrameSpec(spec.rows, spec.cols, spec.row_kind, spec.col_kind, spec.dtypes, cells, spec.name), rng.choice(lays))))
            if spec.dtypes[c] in ('float64', 'object', 'M8[D]'):
                cells2 = [list(row) for row in spec.cells]
                cells2[r][c] = _missing(spec.dtypes[c], rng)
                ms = F.FrameSpec(spec.rows, spec.cols, spec.row_kind, spec.col_kind, spec.dtypes, cells2, spec.name)
                out.append(('missing_a', F.build_frame(ms, lays[0])))
                out.append(('missing_b', F.build_frame(ms, lays[-1], cls=sf.FrameHE)))
            if spec.col_kind == 'str':
                cols = list(spec.cols)
                cols[c] = 'ZZZ'
                out.append(('column_label_changed', F.build_frame(F.FrameSpec(spec.rows, cols, spec.row_kind, spec.col_kind, spec.dtypes, spec.cells, spec.name), lays[0])))
            if spec.row_kind in ('str', 'int'):
                rows = list(spec.rows)
                rows[r] = 'ZZZ' if spec.row_kind == 'str' else 99999
                out.append(('row_label_changed', F.build_frame(F.FrameSpec(rows, spec.cols, spec.row_kind, spec.col_kind, spec.dtypes, spec.cells, spec.name), lays[0])))
            if spec.dtypes[c] == 'int64' and all(isinstance(row[c], int) and abs(row[c]) < 2 ** 31 for row in spec.cells) and spec.col_kind != 'hier2':
                try:
                    out.append(('dtype_float', base.astype[spec.cols[c]](float)))
                except Exception:
                    pass
            if (set(spec.dtypes) <= {'int64', 'float64'} and len(set(spec.dtypes)) == 2 and spec.col_kind != 'hier2'
                    and all(isinstance(v, float) or abs(v) < 2 ** 31 for row in spec.cells for v in row)):
                # the same values in ONE float64 block: equal unless dtypes are compared, whichever side is asked
                try:
                    out.append(('one_float_block', sf.Frame(base.values.astype(float), index=base.index, columns=base.columns, name=base.name)))
                except Exception:
                    pass
            if nr >= 2 and spec.row_kind in ('str', 'int'):
                out.append(('rows_reversed', base.iloc[::-1]))
            if spec.row_kind not in ('auto',) and not spec.row_kind.startswith('hier'):
                out.append(('index_renamed', base.relabel(index=base.index.rename('IDX'))))
        if nc:
            out.append(('no_rows', base.iloc[:0]))
        for tag, idx in _relabelled_indices(base.index, spec.row_kind):
            out.append((tag, base.relabel(index=idx).to_frame_he()))
        for tag, idx in _relabelled_indices(base.columns, spec.col_kind):
            out.append((tag + '_columns', base.relabel(columns=idx).to_frame_he()))
        return out
    if kind == 'index':
        k, labels = case['ikind'], case['labels']
        base = L.build_index(k, labels)
        out = [('base', base), ('rebuilt', L.build_index(k, labels)), ('go', L.build_index(k, labels, go=True)), ('renamed', base.rename('IDX'))]
        if labels:
            i = rng.randrange(len(labels))
            labs = list(labels)
            labs[i] = {'str': 'ZZZ', 'mixed': 'ZZZ'}.get(k, None)
            if labs[i] is None:
                labs = labs[:i] + labs[i + 1:]
            out.append(('label_changed_or_removed', L.build_index(k if k != 'range' else 'int', labs)))
            if len(labels) >= 2:
                out.append(('reversed', L.build_index(k if k != 'range' else 'int', labels[::-1])))
        if k in ('int', 'range') and labels:
            out.append(('dtype_float', sf.Index(np.array(labels, dtype=float))))
            out.append(('dtype_object', sf.Index(np.array(labels, dtype=object))))
        if k == 'IndexDate':
            out.append(('plain_index_of_dt64', sf.Index(np.array(labels, dtype='M8[D]')) if labels else sf.Index(np.array([], dtype='M8[D]'))))
        if k == 'float' and labels:
            out.append(('with_nan', sf.Index(np.array(list(labels) + [np.nan]))))
            out.append(('with_nan2', sf.Index(np.array(list(labels) + [np.nan]))))
        return out
    if kind == 'hier_product':
        import itertools as it
        levels = case['levels']
        labels = list(it.product(*levels))
        out = [('product', sf.IndexHierarchy.from_product(*levels)), ('labels', sf.IndexHierarchy.from_labels(labels)),
               ('product_go', sf.IndexHierarchyGO.from_product(*levels)), ('product2', sf.IndexHierarchy.from_product(*levels))]
        # one inner label changed under the first / the last / a random outer label
        for tag, pos in (('changed_under_first', 0), ('changed_under_last', len(labels) - 1), ('changed_random', rng.randrange(len(labels)))):
            ch = [tuple(t) for t in labels]
            ch[pos] = ch[pos][:-1] + ('ZZZ',)
            out.append((tag, sf.IndexHierarchy.from_labels(ch)))
        if len(levels) == 3:
            ch = [tuple(t) for t in labels]
            k = rng.randrange(len(labels))
            mid = 99
            ch = [t if (t[0], t[1]) != (labels[k][0], labels[k][1]) else (t[0], mid, t[2]) for t in ch]
            out.append(('middle_changed', sf.IndexHierarchy.from_labels(ch)))
        s_he = [(tag + '_series_he', sf.SeriesHE(np.arange(len(v)), index=v)) for tag, v in out[:2] + out[4:6]]
        # the same labels with a date depth held by a typed index, by a plain index of datetime64 labels, each fresh and already read
        days = np.array(['2021-05-01', '2021-05-02', '2021-05-03'][:max(2, len(levels[-1]))], dtype='M8[D]')
        typed = []
        for tag, inner in (('date_typed', lambda: sf.IndexDate(days)), ('date_plain', lambda: sf.Index(days))):
            for read in (False, True):
                ih = sf.IndexHierarchy.from_product(levels[0], inner())
                if read:
                    ih.values
                    repr(ih)
                typed.append((tag + ('_read' if read else ''), ih))
        return out + s_he + typed
    labels = case['labels']
    base = sf.IndexHierarchy.from_labels(labels)
    out = [('base', base), ('rebuilt', sf.IndexHierarchy.from_labels(labels)), ('go', sf.IndexHierarchyGO.from_labels(labels)),
           ('renamed', base.rename('IH')), ('materialised', sf.IndexHierarchy.from_labels(labels))]
    out[-1][1].values
    if len(labels) >= 2:
        out.append(('shorter', sf.IndexHierarchy.from_labels(labels[:-1])))
        rev = labels[::-1]
        from sfmon.gen import keys as K
        if K.is_tree(rev):
            out.append(('reversed', sf.IndexHierarchy.from_labels(rev)))
    changed = [tuple(t) for t in labels]
    changed[-1] = changed[-1][:-1] + ('ZZZ',)
    out.append(('leaf_changed', sf.IndexHierarchy.from_labels(changed)))
    return out


def _relabelled_indices(index, kind):
    """[(tag, index)] holding the labels of `index` in other dtypes / index classes."""
    import static_frame as sf
    out = []
    if not len(index):
        return out
    if kind == 'IndexDate':
        arr = index.values
        out.append(('he_index_second', sf.IndexSecond(arr.astype('M8[s]'))))
        out.append(('he_index_nanosecond', sf.IndexNanosecond(arr.astype('M8[ns]'))))
        out.append(('he_index_plain_dt64_h', sf.Index(arr.astype('M8[h]'))))
    elif kind in ('int', 'auto', 'negint'):
        arr = index.values
        if arr.dtype.kind == 'i' and bool((np.abs(arr) < 2 ** 31).all()):
            out.append(('he_index_float', sf.Index(arr.astype(float))))
            out.append(('he_index_object', sf.Index(arr.astype(object))))
    elif kind == 'str':
        out.append(('he_index_object', sf.Index(index.values.astype(object))))
    return out


def _different(v, dt, rng):
    for _ in range(30):
        w = V.element(dt, rng, missing_ok=False)
        try:
            if not (w == v) and not isinstance(w, (tuple, bytes)):
                return w
        except Exception:
            continue
    return {'bool': (not v) if isinstance(v, bool) else True}.get(dt, v)


def _missing(dt, rng):
    if dt == 'M8[D]':
        return np.datetime64('NaT', 'D')
    if dt == 'object':
        return rng.choice([None, float('nan')])
    return float('nan')


# --------------------------------------------------------------------------------------
# reference predicate

def _kind_of(x):
    import static_frame as sf
    from static_frame.core.index_base import IndexBase
    if isinstance(x, sf.Bus):
        return 'Bus'
    if isinstance(x, sf.Series):
        return 'Series'
    if isinstance(x, sf.Frame):
        return 'Frame'
    if isinstance(x, sf.IndexHierarchy):
        return 'IndexHierarchy'
    if isinstance(x, IndexBase):
        return 'Index'
    return 'other'


def _el_eq(x, y, skipna):
    if canon.is_self_unequal(x) and canon.is_self_unequal(y):
        return skipna
    try:
        r = x == y
    except Exception:
        return False
    try:
        return bool(r)
    except Exception:
        return False


def _index_R(a, b, name, dtype, cls, skipna):
    if a is b:
        return True
    ka, kb = _kind_of(a), _kind_of(b)
    if ka != kb:
        # a flat index never equals a hierarchy
        return False
    if cls and type(a) is not type(b):
        return False
    if len(a) != len(b) or a.depth != b.depth:
        return False
    if name and a.name != b.name:
        return False
    if a.depth == 1:
        if dtype and a.values.dtype != b.values.dtype:
            return False
    else:
        if dtype and [a.values_at_depth(d).dtype for d in range(a.depth)] != [b.values_at_depth(d).dtype for d in range(b.depth)]:
            return False
        if cls and list(a.index_types.values) != list(b.index_types.values):
            # the class requirement holds per depth as well (an IndexDate depth is not a plain Index of datetime64 labels)
            return False
    la, lb = canon.index_labels(a), canon.index_labels(b)
    for x, y in zip(la, lb):
        if isinstance(x, tuple) or isinstance(y, tuple):
            if not (isinstance(x, tuple) and isinstance(y, tuple) and len(x) == len(y)):
                return False  # a tuple label never equals a scalar label or a tuple of another length
            if not all(_el_eq(p, q, skipna) for p, q in zip(x, y)):
                return False
        elif not _el_eq(x, y, skipna):
            return False
    return True


def R(a, b, name, dtype, cls, skipna):
    import static_frame as sf
    if a is b:
        return True
    ka, kb = _kind_of(a), _kind_of(b)
    if ka != kb:
        return False
    if ka in ('Index', 'IndexHierarchy'):
        return _index_R(a, b, name, dtype, cls, skipna)
    if cls and type(a) is not type(b):
        return False
    if name and a.name != b.name:
        return False
    if ka == 'Bus':
        if len(a) != len(b):
            return False
        if not _index_R(a.index, b.index, name, dtype, cls, skipna):
            return False
        return all(R(a.iloc[i], b.iloc[i], name, dtype, cls, skipna) for i in range(len(a)))
    if a.shape != b.shape:
        return False
    if not _index_R(a.index, b.index, name, dtype, cls, skipna):
        return False
    if ka == 'Series':
        if dtype and a.values.dtype != b.values.dtype:
            return False
        return all(_el_eq(x, y, skipna) for x, y in zip(canon.arr_values(a.values), canon.arr_values(b.values)))
    if not _index_R(a.columns, b.columns, name, dtype, cls, skipna):
        return False
    ca, cb = canon.frame_columns(a), canon.frame_columns(b)
    if dtype and [c.dtype for c in ca] != [c.dtype for c in cb]:
        return False
    for x, y in zip(ca, cb):
        if not all(_el_eq(p, q, skipna) for p, q in zip(canon.arr_values(x), canon.arr_values(y))):
            return False
    return True


# --------------------------------------------------------------------------------------

def _frame_tags(a, b):
    import static_frame as sf
    fa = a.iloc[0] if isinstance(a, sf.Bus) and len(a) else a
    fb = b.iloc[0] if isinstance(b, sf.Bus) and len(b) else b
    if not (isinstance(fa, sf.Frame) and isinstance(fb, sf.Frame)):
        return {}
    tags = {'zero_columns': fa.shape[1] == 0 or fb.shape[1] == 0,
            'layouts_equal': F.observed_layout(fa) == F.observed_layout(fb)}
    nat_both = False
    if fa.shape == fb.shape:
        for x, y in zip(canon.frame_columns(fa), canon.frame_columns(fb)):
            if x.dtype.kind in 'Mm' and y.dtype.kind in 'Mm' and bool((np.isnat(x) & np.isnat(y)).any()):
                nat_both = True
    tags['nat_both'] = nat_both
    return tags


def check(case, ctx):
    import random
    import static_frame as sf
    rng = random.Random(case['seed'])
    variants = _variants(case, rng)
    kind = case['kind']
    ctx.tally('kind', kind)
    ctx.sample({'kind': kind, 'variants': [v[0] for v in variants]})
    results = {}
    for (na, a), (nb, b) in itertools.product(variants, repeat=2):
        for opts in OPTS:
            name, dtype, cls, skipna = opts
            klass = {'kind': kind, 'a': na, 'b': nb, 'compare_name': name, 'compare_dtype': dtype, 'compare_class': cls, 'skipna': skipna,
                     'missing_involved': 'missing' in na or 'missing' in nb or 'nan' in na or 'nan' in nb}
            klass.update(_frame_tags(a, b))
            ctx.evaluation((kind, repr(case.get('spec', case.get('labels', case.get('levels')))), na, nb, opts), a is not b)
            ctx.tally('variant_pair', f'{na}|{nb}' if na <= nb else f'{nb}|{na}')
            try:
                got = a.equals(b, compare_name=name, compare_dtype=dtype, compare_class=cls, skipna=skipna)
            except Exception as e:
                ctx.violation('equals_raised', detail={'a': na, 'b': nb, 'options': opts, 'exception': type(e).__name__, 'message': str(e)[:200]},
                              klass=dict(klass, exception=type(e).__name__))
                continue
            if type(got) is not bool and not isinstance(got, (bool, np.bool_)):
                ctx.violation('equals_not_boolean', detail={'got': repr(got)[:100]}, klass=klass)
                continue
            got = bool(got)
            results[(na, nb, opts)] = got
            want = R(a, b, name, dtype, cls, skipna)
            if got != want:
                ctx.violation('equals_differs_from_reference', detail={'a': na, 'b': nb, 'options': dict(zip(('name', 'dtype', 'class', 'skipna'), opts)),
                                                                       'expected': want, 'got': got, 'a_repr': canon.brief(canon.snap(a), 300),
                                                                       'b_repr': canon.brief(canon.snap(b), 300)}, klass=klass)
    # symmetry and transitivity on what the library answered
    names = [v[0] for v in variants]
    for opts in OPTS:
        for na, nb in itertools.combinations(names, 2):
            if (na, nb, opts) in results and (nb, na, opts) in results and results[(na, nb, opts)] != results[(nb, na, opts)]:
                ctx.violation('equals_not_symmetric', detail={'a': na, 'b': nb, 'options': opts}, klass={'kind': kind, 'a': na, 'b': nb, 'skipna': opts[3]})
        for na, nb, nc in itertools.permutations(names, 3):
            if results.get((na, nb, opts)) and results.get((nb, nc, opts)) and results.get((na, nc, opts)) is False:
                objs = dict(variants)
                tags = [_frame_tags(objs[x], objs[y]) for x, y in ((na, nb), (nb, nc), (na, nc))]
                ctx.violation('equals_not_transitive', detail={'a': na, 'b': nb, 'c': nc, 'options': opts},
                              klass={'kind': kind, 'a': na, 'b': nb, 'c': nc, 'skipna': opts[3], 'nat_both': any(t.get('nat_both') for t in tags),
                                     'layouts_equal': all(t.get('layouts_equal', True) for t in tags)})
    # hash contract of the HE classes
    he = [(n, v) for n, v in variants if isinstance(v, (sf.SeriesHE, sf.FrameHE))]
    for (na, a), (nb, b) in itertools.product(he, variants):
        klass = {'kind': kind, 'a': na, 'b': nb, 'he': True, 'hier_index': getattr(a.index, 'depth', 1) > 1}
        klass.update(_frame_tags(a, b))
        ctx.evaluation((kind, 'he', repr(case.get('spec', case.get('levels'))), na, nb), a is not b)
        try:
            e, ne = a == b, a != b
        except Exception as ex:
            ctx.violation('he_eq_raised', detail={'exception': type(ex).__name__, 'message': str(ex)[:200]}, klass=dict(klass, exception=type(ex).__name__))
            continue
        if type(e) is not bool or type(ne) is not bool:
            ctx.violation('he_eq_not_plain_bool', detail={'eq': repr(type(e)), 'ne': repr(type(ne))}, klass=klass)
            continue
        if ne != (not e):
            ctx.violation('he_ne_inconsistent', detail={'eq': e, 'ne': ne}, klass=klass)
        want = a.equals(b, compare_name=True)
        if e != want:
            ctx.violation('he_eq_inconsistent_with_equals', detail={'eq': e, 'equals': want}, klass=klass)
        if e and isinstance(b, (sf.SeriesHE, sf.FrameHE)):
            try:
                ha, hb = hash(a), hash(b)
            except Exception as ex:
                ctx.violation('he_hash_raised', detail={'exception': type(ex).__name__, 'message': str(ex)[:200]}, klass=dict(klass, exception=type(ex).__name__))
                continue
            if ha != hb:
                ctx.violation('he_equal_but_hash_differs', detail={'a': na, 'b': nb}, klass=klass)
                continue
            if (b == a) is not True:
                ctx.violation('he_eq_not_symmetric', detail={'a': na, 'b': nb}, klass=klass)
            if b not in {a} or {a: 1}.get(b) != 1:
                ctx.violation('he_set_or_dict_lookup_fails', detail={'a': na, 'b': nb}, klass=klass)
